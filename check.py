#!/venv/bin/python
"""Driver:  check.py <PROPERTY-ID> [--tier quick|thorough] [--replay <path>] [--repo <root>]

Exit 0: every obligation discharged on /repo's current tree (known findings are printed).
Exit 1: at least one `VIOLATION property=<id> replay=<path>` line.
Exit 2: ANALYSIS-ERROR (the analysis could not decide: anchor vanished, unknown idiom, ...).
"""
import importlib
import json
import os
import sys
import traceback

HERE = os.path.dirname(os.path.abspath(__file__))
sys.path.insert(0, HERE)
sys.dont_write_bytecode = False


def main(argv):
    args = list(argv[1:])
    tier = os.environ.get("VERIF_TIER") or "quick"
    replay = None
    repo_root = None
    prop = None
    while args:
        a = args.pop(0)
        if a == "--tier":
            tier = args.pop(0)
        elif a == "--replay":
            replay = args.pop(0)
        elif a == "--repo":
            repo_root = args.pop(0)
        elif a.startswith("-"):
            print("ANALYSIS-ERROR unknown option %s" % a)
            return 2
        else:
            prop = a
    if tier not in ("quick", "thorough"):
        tier = "quick"
    if replay and prop is None:
        with open(replay) as f:
            prop = json.load(f)["property"]
    if prop is None:
        print(__doc__)
        return 2
    if repo_root:
        os.environ["VERIF_REPO"] = repo_root
    try:
        from sa.errors import AnalysisError
        from sa.frontend import Repo
        from sa.resolve import Resolver
        from sa.report import Run

        repo = Repo(os.environ.get("VERIF_REPO") or "/repo")
        res = Resolver(repo)
        run = Run(prop, tier, repo, res)
        mod = importlib.import_module("sa.rules.%s" % prop.lower())
        incomplete = None
        try:
            mod.run(run)
            from sa.rules.includes import INCLUDES
            for inc in INCLUDES.get(prop, []):
                run.include(inc)
        except AnalysisError as e:
            # a violation established before the analysis lost its footing stands on its own (the code it
            # was read from is the code under test); without one, an analysis that cannot proceed is exit 2
            if not any(o["status"] == "violation" for o in run.obligations):
                raise
            incomplete = str(e)
        selftest = None
        if incomplete is None and tier == "thorough" and not os.environ.get("VERIF_NO_SELFTEST"):
            from sa import selftest as st

            selftest = st.run_selftest(prop, run)
        lines, code = run.finish(selftest)
        n_ok = sum(1 for o in run.obligations if o["status"] == "ok")
        print("%s [%s] %d obligations, %d discharged, %d rules, repo=%s, %.2fs" % (
            prop, tier, len(run.obligations), n_ok, len(set(o["rule"] for o in run.obligations)),
            repo.root, __import__("time").time() - run.t0))
        if os.environ.get("VERIF_VERBOSE"):
            for o in run.obligations:
                print("  [%s] %s @ %s :: %s" % (o["status"], o["rule"], o["site"], o["detail"]))
            for i in run.infos:
                print("  info: %s" % i)
        for l in lines:
            print(l)
        if incomplete:
            print("NOTE property=%s analysis stopped after the violation(s) above: %s" % (prop, incomplete))
        if replay:
            with open(replay) as f:
                rp = json.load(f)
            still = any(o["status"] != "ok" and o.get("key") == rp.get("key") and o["rule"] == rp.get("rule")
                        for o in run.obligations)
            print("REPLAY %s: violation %s" % (replay, "reproduced" if still else "no longer present"))
            return 1 if still else code
        return code
    except Exception as e:  # noqa
        name = type(e).__name__
        if name == "AnalysisError":
            print("ANALYSIS-ERROR property=%s %s" % (prop, e))
        else:
            print("ANALYSIS-ERROR property=%s internal error %s: %s" % (prop, name, e))
            traceback.print_exc()
        return 2


if __name__ == "__main__":
    sys.exit(main(sys.argv))
