#!/bin/bash
# runs all 20 checks on every refactoring under /tmp/ref (or seeded/R*), prints non-silent ones
for d in ${1:-/tmp/ref}/R*/r*; do
  out=$(python3-vt /verif/tools/run_all_on.py $d/patch.diff 2>&1 | cut -c1-400)
  if ! echo "$out" | grep -q "silent on all 20"; then echo "=== $d"; echo "$out"; fi
done
