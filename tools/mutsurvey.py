#!/venv/bin/python
"""Development tool (NOT part of any check): systematic mutation survey.

For every first-order AST mutant of the mechanism modules it records (a) whether the existing
test suite, run in pure-Python mode on a scratch copy, still passes and (b) which property
checks report it.  Mutants that survive the tests and are reported by no check are the
interesting ones: each is either an equivalent mutant / outside every property, or a gap in the
rules.  Results: /tmp/mutsurvey/results.jsonl.

usage: mutsurvey.py [--modules a,b] [--limit N] [--jobs J] [--no-tests]
"""
import ast
import copy
import json
import os
import shutil
import subprocess
import sys
import tempfile
import time
from multiprocessing import Pool

sys.path.insert(0, "/verif")
REPO = "/repo"
OUT = "/tmp/mutsurvey"
PROPS = ["C%02d" % i for i in range(1, 21)]
MODULES = ["scheduler", "async_task", "futures", "batching", "contexts", "scoped_value", "decorators", "asynq_to_async",
           "tools", "generator", "mock_", "utils", "profiler", "debug"]
DEBUG_FUNCS = ("filter_traceback", "format_error", "str", "repr", "write", "dump", "get_frame")


class Mut(object):
    def __init__(self, module, lineno, op, desc):
        self.module, self.lineno, self.op, self.desc = module, lineno, op, desc


def gen_mutants(module):
    """Yields (Mut, new_source)."""
    path = os.path.join(REPO, "asynq", module + ".py")
    src = open(path).read()
    tree = ast.parse(src)
    nodes = list(ast.walk(tree))
    # restrict debug.py to the functions the properties name
    allowed = None
    if module == "debug":
        allowed = set()
        for n in tree.body:
            if isinstance(n, ast.FunctionDef) and n.name in DEBUG_FUNCS:
                for s in ast.walk(n):
                    allowed.add(id(s))
    in_func = set()
    for n in nodes:
        if isinstance(n, (ast.FunctionDef, ast.AsyncFunctionDef)):
            for s in ast.walk(n):
                in_func.add(id(s))

    def emit(op, node, desc, mutate):
        t2 = copy.deepcopy(tree)
        # find the corresponding node in the copy by index
        idx = index[id(node)]
        n2 = list(ast.walk(t2))[idx]
        if mutate(n2, t2) is False:
            return None
        try:
            ast.fix_missing_locations(t2)
            new = ast.unparse(t2)
            ast.parse(new)
        except Exception:
            return None
        return Mut(module, getattr(node, "lineno", 0), op, desc), new

    index = dict((id(n), i) for i, n in enumerate(nodes))
    parents = {}
    for n in nodes:
        for fld, val in ast.iter_fields(n):
            if isinstance(val, list):
                for i, c in enumerate(val):
                    if isinstance(c, ast.AST):
                        parents[id(c)] = (n, fld, i)
            elif isinstance(val, ast.AST):
                parents[id(val)] = (n, fld, None)

    for n in nodes:
        if id(n) not in in_func:
            continue
        if allowed is not None and id(n) not in allowed:
            continue
        ln = getattr(n, "lineno", 0)
        # ---- statement deletion
        if isinstance(n, (ast.Expr, ast.Assign, ast.AugAssign, ast.Raise, ast.Continue, ast.Break, ast.Delete, ast.Assert)) and id(n) in parents:
            if isinstance(n, ast.Expr) and isinstance(n.value, ast.Constant):
                continue
            par, fld, i = parents[id(n)]
            if i is None:
                continue

            def mut(n2, t2, fld=fld, i=i, pidx=index[id(par)]):
                p2 = list(ast.walk(t2))[pidx]
                lst = getattr(p2, fld)
                lst[i] = ast.Pass()
            r = emit("del-stmt", n, ast.unparse(n)[:70], mut)
            if r:
                yield r
        if isinstance(n, ast.Return) and n.value is not None and not (isinstance(n.value, ast.Constant) and n.value.value is None):
            def mut(n2, t2):
                n2.value = ast.Constant(value=None)
            r = emit("return-none", n, ast.unparse(n)[:70], mut)
            if r:
                yield r
        # ---- conditions
        if isinstance(n, (ast.If, ast.While)) and not (isinstance(n.test, ast.Constant)):
            def mut(n2, t2):
                n2.test = ast.UnaryOp(op=ast.Not(), operand=n2.test)
            r = emit("negate-cond", n, ast.unparse(n.test)[:70], mut)
            if r:
                yield r
            for const in (True, False):
                def mut(n2, t2, const=const):
                    n2.test = ast.Constant(value=const)
                r = emit("cond-%s" % const, n, ast.unparse(n.test)[:70], mut)
                if r:
                    yield r
        if isinstance(n, ast.BoolOp):
            def mut(n2, t2):
                n2.op = ast.Or() if isinstance(n2.op, ast.And) else ast.And()
            r = emit("and-or", n, ast.unparse(n)[:70], mut)
            if r:
                yield r
            for k in range(len(n.values)):
                def mut(n2, t2, k=k):
                    del n2.values[k]
                    if len(n2.values) == 1:
                        return None
                if len(n.values) > 2:
                    r = emit("drop-operand", n, ast.unparse(n)[:70], mut)
                    if r:
                        yield r
        if isinstance(n, ast.Compare) and len(n.ops) == 1:
            swaps = {ast.Lt: [ast.LtE, ast.Gt], ast.LtE: [ast.Lt, ast.GtE], ast.Gt: [ast.GtE, ast.Lt], ast.GtE: [ast.Gt, ast.LtE],
                     ast.Eq: [ast.NotEq], ast.NotEq: [ast.Eq], ast.Is: [ast.IsNot], ast.IsNot: [ast.Is], ast.In: [ast.NotIn], ast.NotIn: [ast.In]}
            for new in swaps.get(type(n.ops[0]), []):
                def mut(n2, t2, new=new):
                    n2.ops = [new()]
                r = emit("cmp-%s" % new.__name__, n, ast.unparse(n)[:70], mut)
                if r:
                    yield r
        if isinstance(n, ast.UnaryOp) and isinstance(n.op, ast.Not) and id(n) in parents:
            par, fld, i = parents[id(n)]

            def mut(n2, t2, fld=fld, i=i, pidx=index[id(par)]):
                p2 = list(ast.walk(t2))[pidx]
                if i is None:
                    setattr(p2, fld, n2.operand)
                else:
                    getattr(p2, fld)[i] = n2.operand
            r = emit("drop-not", n, ast.unparse(n)[:70], mut)
            if r:
                yield r
        # ---- constants
        if isinstance(n, ast.Constant) and isinstance(n.value, bool):
            def mut(n2, t2):
                n2.value = not n2.value
            r = emit("flip-bool", n, repr(n.value), mut)
            if r:
                yield r
        if isinstance(n, ast.Constant) and isinstance(n.value, int) and not isinstance(n.value, bool) and n.value in (0, 1, 2, -1):
            for nv in ([1] if n.value == 0 else [0]):
                def mut(n2, t2, nv=nv):
                    n2.value = nv
                r = emit("int-const", n, "%r->%r" % (n.value, nv), mut)
                if r:
                    yield r
        # ---- handlers
        if isinstance(n, ast.ExceptHandler) and isinstance(n.type, ast.Name):
            alt = {"BaseException": "Exception", "Exception": "ValueError", "StopIteration": "ValueError", "GeneratorExit": "ValueError", "KeyError": "ValueError"}.get(n.type.id)
            if alt:
                def mut(n2, t2, alt=alt):
                    n2.type = ast.Name(id=alt, ctx=ast.Load())
                r = emit("handler-class", n, "%s->%s" % (n.type.id, alt), mut)
                if r:
                    yield r
        if isinstance(n, ast.Try) and n.finalbody and id(n) in parents:
            par, fld, i = parents[id(n)]
            if i is not None:
                def mut(n2, t2, fld=fld, i=i, pidx=index[id(par)]):
                    p2 = list(ast.walk(t2))[pidx]
                    fb = n2.finalbody
                    n2.finalbody = []
                    if not n2.handlers:
                        getattr(p2, fld)[i:i + 1] = n2.body + fb
                    else:
                        getattr(p2, fld)[i + 1:i + 1] = fb
                r = emit("finally-to-after", n, "try@%d" % ln, mut)
                if r:
                    yield r
        # ---- calls
        if isinstance(n, ast.Call):
            nm = ast.unparse(n.func)
            if nm == "reversed" and len(n.args) == 1 and id(n) in parents:
                par, fld, i = parents[id(n)]

                def mut(n2, t2, fld=fld, i=i, pidx=index[id(par)]):
                    p2 = list(ast.walk(t2))[pidx]
                    if i is None:
                        setattr(p2, fld, n2.args[0])
                    else:
                        getattr(p2, fld)[i] = n2.args[0]
                r = emit("drop-reversed", n, ast.unparse(n)[:60], mut)
                if r:
                    yield r
            if nm.endswith(".pop") and not n.args:
                def mut(n2, t2):
                    n2.args = [ast.Constant(value=0)]
                r = emit("pop-front", n, ast.unparse(n)[:60], mut)
                if r:
                    yield r
            if len(n.args) >= 2 and not any(isinstance(a, ast.Starred) for a in n.args):
                def mut(n2, t2):
                    n2.args[0], n2.args[1] = n2.args[1], n2.args[0]
                r = emit("swap-args", n, ast.unparse(n)[:60], mut)
                if r:
                    yield r
            if n.keywords and any(k.arg is None for k in n.keywords):
                def mut(n2, t2):
                    n2.keywords = [k for k in n2.keywords if k.arg is not None]
                r = emit("drop-kwargs", n, ast.unparse(n)[:60], mut)
                if r:
                    yield r
            if any(isinstance(a, ast.Starred) for a in n.args):
                def mut(n2, t2):
                    n2.args = [a for a in n2.args if not isinstance(a, ast.Starred)]
                r = emit("drop-starargs", n, ast.unparse(n)[:60], mut)
                if r:
                    yield r
        if isinstance(n, ast.Subscript) and isinstance(n.slice, ast.UnaryOp) and isinstance(n.slice.op, ast.USub) and isinstance(n.slice.operand, ast.Constant) and n.slice.operand.value == 1:
            def mut(n2, t2):
                n2.slice = ast.Constant(value=0)
            r = emit("last-to-first", n, ast.unparse(n)[:60], mut)
            if r:
                yield r
        if isinstance(n, ast.AugAssign) and isinstance(n.op, (ast.Add, ast.Sub)):
            def mut(n2, t2):
                n2.op = ast.Sub() if isinstance(n2.op, ast.Add) else ast.Add()
            r = emit("aug-flip", n, ast.unparse(n)[:60], mut)
            if r:
                yield r


def run_checks(root):
    from sa.frontend import Repo
    from sa.resolve import Resolver
    from sa.report import Run
    from sa.errors import AnalysisError
    import importlib
    fired, errors = {}, {}
    try:
        repo = Repo(root)
    except Exception as e:
        return {}, {"*": str(e)[:100]}
    res = Resolver(repo)
    for p in PROPS:
        run = Run(p, "quick", repo, res)
        try:
            importlib.import_module("sa.rules.%s" % p.lower()).run(run)
            from sa.rules.includes import INCLUDES
            for inc in INCLUDES.get(p, []):
                run.include(inc)
            v = sorted(set(o["rule"] for o in run.obligations if o["status"] == "violation"))
            if v:
                fired[p] = v
        except AnalysisError as e:
            v = sorted(set(o["rule"] for o in run.obligations if o["status"] == "violation"))
            if v:
                fired[p] = v       # check.py reports a violation established before the analysis stopped
            else:
                errors[p] = str(e)[:120]
        except Exception as e:
            errors[p] = "internal %s: %s" % (type(e).__name__, str(e)[:100])
    return fired, errors


def work(job):
    idx, mut, new_src, do_tests = job
    tmp = tempfile.mkdtemp(prefix="asynq-ms-")
    try:
        shutil.copytree("/tmp/mutsurvey/template", tmp, dirs_exist_ok=True)
        with open(os.path.join(tmp, "asynq", mut.module + ".py"), "w") as f:
            f.write(new_src)
        fired, errors = run_checks(tmp)
        tests = None
        if isinstance(do_tests, str):
            tests = do_tests
        elif do_tests:
            p = subprocess.run(["/venv/bin/python", "-m", "pytest", "-q", "-x", "-p", "no:cacheprovider", "--timeout=120",
                                "--deselect", "asynq/tests/test_pyright.py", "-q"], cwd=tmp, stdout=subprocess.PIPE, stderr=subprocess.STDOUT, timeout=600)
            tail = p.stdout.decode("utf-8", "replace").strip().split("\n")[-1]
            tests = "survived" if (p.returncode == 0) else "killed"
        return {"id": idx, "module": mut.module, "line": mut.lineno, "op": mut.op, "desc": mut.desc, "tests": tests, "fired": fired, "errors": errors}
    except subprocess.TimeoutExpired:
        return {"id": idx, "module": mut.module, "line": mut.lineno, "op": mut.op, "desc": mut.desc, "tests": "timeout", "fired": {}, "errors": {}}
    finally:
        shutil.rmtree(tmp, ignore_errors=True)


def main():
    args = sys.argv[1:]
    mods = MODULES
    limit = None
    jobs = 14
    do_tests = True
    reuse = None
    while args:
        a = args.pop(0)
        if a == "--modules":
            mods = args.pop(0).split(",")
        elif a == "--limit":
            limit = int(args.pop(0))
        elif a == "--jobs":
            jobs = int(args.pop(0))
        elif a == "--no-tests":
            do_tests = False
        elif a == "--reuse":
            reuse = {}
            for l in open(args.pop(0)):
                r = json.loads(l)
                reuse[(r["id"], r["module"], r["line"], r["op"], r["desc"])] = r["tests"]
    os.makedirs(OUT, exist_ok=True)
    shutil.rmtree(os.path.join(OUT, "template"), ignore_errors=True)
    os.makedirs(os.path.join(OUT, "template"))
    subprocess.run("git -C /repo archive HEAD | tar -x -C %s/template" % OUT, shell=True, check=True)
    work_items = []
    for m in mods:
        for mut, new in gen_mutants(m):
            if reuse is not None:
                k = (len(work_items), mut.module, mut.lineno, mut.op, mut.desc)
                work_items.append((len(work_items), mut, new, reuse.get(k, True)))
            else:
                work_items.append((len(work_items), mut, new, do_tests))
    if limit:
        import random
        random.Random(int(os.environ.get("VERIF_SEED", "1"))).shuffle(work_items)
        work_items = work_items[:limit]
    print("mutants:", len(work_items), flush=True)
    t0 = time.time()
    with Pool(jobs) as pool, open(os.path.join(OUT, "results.jsonl" if reuse is None else "results2.jsonl"), "w") as out:
        for i, r in enumerate(pool.imap_unordered(work, work_items)):
            out.write(json.dumps(r) + "\n")
            out.flush()
            if i % 100 == 0:
                print(i, "%.0fs" % (time.time() - t0), flush=True)
    print("done in %.0fs" % (time.time() - t0))


if __name__ == "__main__":
    main()
