#!/bin/bash
# usage: verify_refactor.sh <dir with patch.diff> <slot> : applies to a scratch worktree, rebuilds, runs the suite
M=$1; S=$2; WT=/tmp/vm/$S
mkdir -p /tmp/vm
git -C /repo worktree remove --force $WT >/dev/null 2>&1
git -C /repo worktree add -q --detach $WT HEAD || exit 0
cp /repo/asynq/*.so $WT/asynq/
cd $WT
patch -p1 -s -f -i $M/patch.diff >/dev/null 2>&1 || { echo "{\"ref\":\"$M\",\"applies\":false}"; cd /; git -C /repo worktree remove --force $WT; exit 0; }
BUILD_OK=true
if grep -q 'asynq/\(async_task\|asynq_to_async\|batching\|contexts\|_debug\|decorators\|futures\|profiler\|scheduler\|scoped_value\|utils\)\.' $M/patch.diff; then
  /venv/bin/python setup.py build_ext --inplace --force -j 4 >/tmp/vm/build_$S.log 2>&1 || BUILD_OK=false
  rm -rf build
fi
T=$(/venv/bin/python -m pytest -q -p no:cacheprovider --timeout=900 2>&1 | tail -1)
if ! echo "$T" | grep -q "104 passed"; then T=$(/venv/bin/python -m pytest -q -p no:cacheprovider --timeout=900 2>&1 | tail -1); fi
cd /; git -C /repo worktree remove --force $WT >/dev/null 2>&1
echo "{\"ref\":\"$M\",\"applies\":true,\"build_ok\":$BUILD_OK,\"tests\":\"$T\"}"
