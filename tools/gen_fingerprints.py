#!/usr/bin/env python3
"""Writes sa/baseline_fingerprints.json: for every private method of the baseline list (sa/baseline_functions.txt) that exists in
/repo, its arity and the set of names it calls.  Used only to recognise a *renamed* baseline method (sa/inline.py: unrename_module),
never for a verdict."""
import ast, json, os, sys
sys.path.insert(0, '/verif')
from sa.inline import baseline, call_fingerprint
out = {}
for fn in sorted(os.listdir('/repo/asynq')):
    if not fn.endswith('.py'):
        continue
    mod = fn[:-3]
    tree = ast.parse(open('/repo/asynq/' + fn).read())
    for cls in [n for n in tree.body if isinstance(n, ast.ClassDef)]:
        for m in [n for n in cls.body if isinstance(n, ast.FunctionDef)]:
            qn = "%s.%s.%s" % (mod, cls.name, m.name)
            if qn in baseline() and m.name.startswith('_') and not m.name.startswith('__'):
                out[qn] = call_fingerprint(m)
json.dump(out, open('/verif/sa/baseline_fingerprints.json', 'w'), indent=0, sort_keys=True)
print(len(out), "fingerprints")
