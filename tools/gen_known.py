#!/usr/bin/env python3
"""Builds known_findings.json: one `fixed` entry per (property, rule, key) that the checks report on
the tree with the corresponding fix commit reverted (seeded/F*-revert)."""
import json, os, re, subprocess, sys, tempfile, shutil
sys.path.insert(0, '/verif')
from sa.selftest import make_copy, apply_patch, run_check_on
COMMITS = {"F01": "45f7ced", "F02": "71c8423", "F03": "501579e", "F04": "8cd656b", "F05": "6744204", "F12": "7fe9cd7", "F06": "eac50b9",
           "F07": "f3cfa8f", "F09": "883c243", "F10": "b4db419", "F11": "2736fd0", "F08": "8b067d4", "F13": "fd0eade", "F14": "8cb63e4", "F15": "56fa359", "F16": "4db446e", "F17": "d137386", "F18": "7cd4440", "F19": "a0a4156", "F20": "cace091", "F21": "a0ca684", "F22": "98dbfbd", "F23": "b1d2ece", "F24": "e757111", "F25": "9942db1", "F26": "098ceeb", "F27": "b874d99", "F28": "bc68000", "F29": "289d984", "F30": "cd368bd", "F31": "25cecac", "F32": "237a4e3", "F33": "5ad8fc3", "F34": "3a3ef5d", "F35": "b0b7768", "F36": "db1c409", "F37": "a1eebb7", "F38": "2bdaf28", "F39": "a716fbd", "F40": "5cd26f5", "F41": "a04b428", "F42": "ff958c7", "F43": "1b90408", "F44": "213b367", "F45": "597a52a", "F46": "56334d4", "F47": "dfaebdf", "F48": "7b3fc46", "F49": "6b4021f"}
out = []
for d in sorted(os.listdir('/verif/seeded')):
    if not d.endswith('-revert'):
        continue
    fid = d.split('-')[0]
    meta = json.load(open('/verif/seeded/%s/meta.json' % d))
    for prop in meta.get('checked_by', [meta['property']]):
        tmp = tempfile.mkdtemp(prefix='asynq-verif-')
        try:
            make_copy('/repo', tmp)
            ok, msg = apply_patch(tmp, '/verif/seeded/%s/patch.diff' % d)
            assert ok, (d, msg)
            code, text = run_check_on(prop, tmp)
            for m in re.finditer(r'VIOLATION property=(\S+) replay=(\S+)', text):
                rp = json.load(open(m.group(2)))
                out.append({"id": fid, "status": "fixed", "property": prop, "rule": rp["rule"], "key": rp["key"], "site": rp["site"],
                            "commit": COMMITS[fid], "what": meta["summary"], "needs": meta["needs"]})
        finally:
            shutil.rmtree(tmp, ignore_errors=True)
seen = set(); uniq = []
for e in out:
    k = (e['id'], e['property'], e['rule'], e['key'])
    if k not in seen:
        seen.add(k); uniq.append(e)
doc = {"comment": "Genuine defects of quora/asynq found by these checks on the pinned tree. status=fixed: repaired by the named 'fix:' commit in /repo; a fixed entry suppresses nothing - if the violation returns it is reported as a VIOLATION. status=known would list an unrepaired defect (none at present). Never written at run time.",
       "findings": uniq}
json.dump(doc, open('/verif/known_findings.json', 'w'), indent=1)
for e in uniq:
    print("fixed: property=%s %s %s :: %s" % (e['property'], e['commit'], e['rule'], e['what'][:70]))
