#!/usr/bin/env python3
"""Recomputes, for every breaking variant under seeded/ (or the ones named on the command line), which property checks
report it on the current /repo with the current rules, and rewrites checked_by / fired_rules in its meta.json.  The
variant's own property stays in checked_by whatever the outcome (a miss there is what the self-test must report)."""
import json, os, sys
from concurrent.futures import ThreadPoolExecutor
sys.path.insert(0, '/verif')
from sa.selftest import check_variant
PROPS = ["C%02d" % i for i in range(1, 21)]
names = sys.argv[1:] or sorted(d for d in os.listdir('/verif/seeded') if d[0] in 'CF' and os.path.isdir('/verif/seeded/' + d))
jobs = [(n, q) for n in names for q in PROPS]
def one(job):
    n, q = job
    r = check_variant(q, '/repo', '/verif/seeded/%s/patch.diff' % n)
    if r.get('applied') and r.get('exit') == 1:
        return job, sorted(set(x.split(' site=')[0].replace('rule=', '') for x in r['fired']))
    if r.get('applied') and r.get('exit') == 2:
        return job, ['ANALYSIS-ERROR']
    return job, None
with ThreadPoolExecutor(max_workers=14) as ex:
    outs = list(ex.map(one, jobs))
by = {}
for (n, q), f in outs:
    if f:
        by.setdefault(n, {})[q] = f
changed = 0
for n in names:
    p = '/verif/seeded/%s/meta.json' % n
    m = json.load(open(p))
    fired = by.get(n, {})
    own = m['property']
    cb = sorted(q for q, r in fired.items() if r != ['ANALYSIS-ERROR'])
    if n.endswith('-revert'):
        # reverts keep their declared list, extended by what fires now
        cb = sorted(set(cb) | set(q for q in m.get('checked_by', []) if q in cb or q == own))
    if own not in cb:
        cb.append(own)
        print("OWN-MISS", n)
    old = m.get('checked_by')
    m['checked_by'] = cb
    m['fired_rules'] = fired
    if old != cb:
        changed += 1
        print(n, "checked_by", old, "->", cb)
    json.dump(m, open(p, 'w'), indent=1)
print("variants", len(names), "changed", changed)
