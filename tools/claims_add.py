import json,sys
p='/verif/tools/claims.json'
d=json.load(open(p))
pid,tech,text,note=sys.argv[1:5]
d[pid]={"claimed":True,"technique":tech,"level_text":text,"level_note":note}
json.dump(d,open(p,'w'),indent=1)
