#!/bin/bash
# usage: verify_mutant.sh <mutant-dir> <slot>   (mutant-dir has patch.diff and demo.py)
# Creates a scratch worktree of /repo HEAD under /tmp/vm/<slot>, applies the patch, rebuilds the
# extensions when a compiled module is touched, runs the test suite and the demo, reverts and runs
# the demo again.  Prints one JSON line.  The worktree is removed afterwards.
M=$1; S=$2
WT=/tmp/vm/$S
mkdir -p /tmp/vm
git -C /repo worktree remove --force $WT >/dev/null 2>&1
git -C /repo worktree add -q --detach $WT HEAD || { echo "{\"mutant\":\"$M\",\"error\":\"worktree\"}"; exit 0; }
cp /repo/asynq/*.so $WT/asynq/
cd $WT
if ! git apply --check $M/patch.diff 2>/dev/null; then
  if ! patch -p1 -s -f --dry-run -i $M/patch.diff >/dev/null 2>&1; then
    echo "{\"mutant\":\"$M\",\"applies\":false}"; cd /; git -C /repo worktree remove --force $WT; exit 0
  fi
fi
patch -p1 -s -f -i $M/patch.diff >/dev/null 2>&1
NEEDS_BUILD=0
for f in $(grep '^+++ ' $M/patch.diff | sed 's#^+++ [ab]/##' | awk '{print $1}'); do
  b=$(basename $f); b=${b%.*}
  if [ -f asynq/$b.pxd ] || echo "async_task asynq_to_async batching contexts _debug decorators futures profiler scheduler scoped_value utils" | grep -qw "$b"; then NEEDS_BUILD=1; fi
done
BUILD_OK=true
if [ $NEEDS_BUILD = 1 ]; then
  /venv/bin/python setup.py build_ext --inplace --force -j 4 >/tmp/vm/build_$S.log 2>&1 || BUILD_OK=false
  rm -rf build
fi
TESTS=$(/venv/bin/python -m pytest -q -p no:cacheprovider --timeout=900 -x -q 2>&1 | tail -1)
TESTS_FULL=$(/venv/bin/python -m pytest -q -p no:cacheprovider --timeout=900 2>&1 | tail -1)
PYTHONPATH=$WT /venv/bin/python $M/demo.py >/tmp/vm/demo_mut_$S.log 2>&1; DEMO_MUT=$?
git checkout -q -- . ; git clean -fdq -e '*.so' >/dev/null 2>&1
if [ $NEEDS_BUILD = 1 ]; then cp /repo/asynq/*.so asynq/; fi
PYTHONPATH=$WT /venv/bin/python $M/demo.py >/tmp/vm/demo_clean_$S.log 2>&1; DEMO_CLEAN=$?
cd /
git -C /repo worktree remove --force $WT >/dev/null 2>&1
echo "{\"mutant\":\"$M\",\"applies\":true,\"rebuilt\":$NEEDS_BUILD,\"build_ok\":$BUILD_OK,\"tests\":\"$TESTS_FULL\",\"demo_with_change\":$DEMO_MUT,\"demo_without\":$DEMO_CLEAN}"
