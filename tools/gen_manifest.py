#!/usr/bin/env python3
"""Regenerates MANIFEST.json from the table below (one entry per property whose rule module
exists under sa/rules)."""
import json, os, sys

sys.path.insert(0, "/verif")
from sa.rules.includes import INCLUDES


def inc_note(pid):
    inc = INCLUDES.get(pid, [])
    if not inc:
        return ""
    return (" Also re-runs, as necessary conditions of this property, the complete rule sets of %s (sa/rules/includes.py; their obligations are "
            "filed as %s.<rule>)." % (", ".join(inc), pid))

HERE = os.path.dirname(os.path.dirname(os.path.abspath(__file__)))
props = [json.loads(l) for l in open(os.path.join(HERE, "properties.jsonl"))]
TABLE = json.load(open(os.path.join(HERE, "tools", "claims.json")))
checks, na = [], []
for p in props:
    pid = p["id"]
    t = TABLE.get(pid)
    if t and t.get("claimed") and os.path.exists(os.path.join(HERE, "sa", "rules", pid.lower() + ".py")):
        checks.append({
            "property_id": pid,
            "quick_cmd": "/venv/bin/python check.py %s --tier quick" % pid,
            "thorough_cmd": "/venv/bin/python check.py %s --tier thorough" % pid,
            "evidence_file": "evidence/%s.json" % pid,
            "replay_cmd_template": "/venv/bin/python check.py %s --replay {path}" % pid,
            "engine": "sa",
            "level_claimed": {"category": "other", "text": t["level_text"] + inc_note(pid), "design_ref": "DESIGN.md section 4, %s" % pid},
            "level_note": t["level_note"],
            "technique": t["technique"],
        })
    else:
        na.append({"property_id": pid, "reason": (t or {}).get("na_reason", "check not built yet (rules designed in DESIGN.md section 4)")})
m = {
    "version": 1,
    "setup_cmd": "/venv/bin/python -m compileall -q sa check.py",
    "hooks": {"guard": "QUORA_ASYNQ_VERIF", "enable": "no hooks: the checks are static and only read /repo's sources (asynq/*.py, asynq/*.pxd, setup.py); nothing in /repo is instrumented, so there is nothing to enable",
              "baseline_off_cmd": "cd /repo && /venv/bin/python -m pytest -ra -q -p no:cacheprovider --timeout=900 --continue-on-collection-errors",
              "source_commits": [], "add_only": True},
    "engines": [{"name": "sa", "path": "sa/", "serves_properties": [c["property_id"] for c in checks],
                 "kind_free_text": "repository-specific static analysis: ast front end + .pxd reader, per-function CFG with exceptional edges, cut-set dominance / must-pass / pairing queries, receiver typing from the .pxd files, package call graph, Cython front end as typed IR (thorough)"}],
    "checks": checks,
    "notes": "Static analysis only: no check imports or runs asynq. Exit 2 + 'ANALYSIS-ERROR' means the analysis could not decide (anchor vanished, unknown idiom), never a violation. Genuine defects found and repaired are listed in known_findings.json as fixed entries.",
    "not_applicable": na,
}
json.dump(m, open(os.path.join(HERE, "MANIFEST.json"), "w"), indent=1)
print("claimed:", [c["property_id"] for c in checks])
