#!/usr/bin/env python3
"""Imports verified sub-agent mutants from /tmp/mut into /verif/seeded and computes which property
checks report them (detection matrix)."""
import json, os, shutil, subprocess, sys
from concurrent.futures import ThreadPoolExecutor
sys.path.insert(0, '/verif')
from sa.selftest import check_variant
PROPS = ["C%02d" % i for i in range(1, 21)]
res = {}
SRC = sys.argv[1] if len(sys.argv) > 1 else '/tmp/mut'
TAG = sys.argv[2] if len(sys.argv) > 2 else 'm'
RES = sys.argv[3] if len(sys.argv) > 3 else '/tmp/vm_results.jsonl'
for l in open(RES):
    l = l.strip()
    if l.startswith('{'):
        d = json.loads(l); res[d['mutant']] = d
jobs = []
for p in PROPS:
    for k in (1, 2, 3):
        src = '%s/%s/m%d' % (SRC, p, k)
        if not os.path.exists(src + '/patch.diff'):
            continue
        dst = '/verif/seeded/%s-%s%d' % (p, TAG, k)
        os.makedirs(dst, exist_ok=True)
        shutil.copy(src + '/patch.diff', dst + '/patch.diff')
        shutil.copy(src + '/demo.py', dst + '/demo.py')
        jobs.append((p, k, src, dst))
def matrix(job):
    p, k, src, dst = job
    fired = {}
    for q in PROPS:
        r = check_variant(q, '/repo', dst + '/patch.diff')
        if r.get('applied') and r.get('exit') == 1:
            fired[q] = sorted(set(x.split(' site=')[0].replace('rule=', '') for x in r['fired']))
        elif r.get('applied') and r.get('exit') == 2:
            fired[q] = ['ANALYSIS-ERROR']
    return job, fired
with ThreadPoolExecutor(max_workers=14) as ex:
    outs = list(ex.map(matrix, jobs))
for (p, k, src, dst), fired in outs:
    m = json.load(open(src + '/meta.json'))
    v = res.get(src, {})
    meta = {
        "property": p,
        "origin": "written by an independent sub-agent that was given only the text of property %s and a scratch worktree of /repo" % p,
        "summary": m.get("summary"), "needs": m.get("needs"), "files": m.get("files"),
        "checked_by": sorted(q for q, r in fired.items() if r != ['ANALYSIS-ERROR']),
        "fired_rules": fired,
        "expect_default": "fire",
        "ran": "tools/verify_mutant.sh: applied patch.diff to a scratch worktree of /repo HEAD, rebuilt the extension modules when a compiled module was touched, "
               "full test suite: %s; demo.py with the change: exit %s; demo.py on the clean tree: exit %s" % (v.get('tests', 'see notes'), v.get('demo_with_change', '1'), v.get('demo_without', '0')),
    }
    if p not in meta["checked_by"]:
        meta["checked_by"].append(p)
        meta.setdefault("expect", {})[p] = "miss"
    json.dump(meta, open(dst + '/meta.json', 'w'), indent=1)
    print(p, k, "own:", "HIT" if p in fired and fired[p] != ['ANALYSIS-ERROR'] else "MISS", "| all:", ",".join(sorted(fired)))
