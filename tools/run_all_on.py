#!/usr/bin/env python3
"""usage: run_all_on.py <patch.diff> : runs every property check on a scratch copy with the patch; prints non-zero results."""
import sys
sys.path.insert(0, '/verif')
from sa.selftest import check_variant
from concurrent.futures import ThreadPoolExecutor
PROPS = ["C%02d" % i for i in range(1, 21)]
patch = sys.argv[1]
with ThreadPoolExecutor(max_workers=10) as ex:
    outs = list(ex.map(lambda p: (p, check_variant(p, '/repo', patch)), PROPS))
bad = 0
for p, r in outs:
    if not r.get('applied'):
        print(p, 'PATCH DOES NOT APPLY', r.get('note')); bad += 1; break
    if r['exit'] != 0:
        bad += 1
        print(p, 'exit', r['exit'], r['fired'], r['errors'])
print('silent on all 20' if not bad else '%d non-zero' % bad)
