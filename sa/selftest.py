"""Checker self-validation: run the property's rules on scratch copies of the analysed sources
with one seeded change applied (patches under /verif/seeded/*/patch.diff plus the silent,
behaviour-preserving twins under /verif/seeded/*/silent*.diff).  Nothing is executed: the
copies are only parsed and analysed.  Scratch copies live in a fresh temporary directory
outside /repo and /verif and are removed immediately."""
import json
import os
import shutil
import subprocess
import sys
import tempfile
from concurrent.futures import ThreadPoolExecutor

VERIF = os.path.dirname(os.path.dirname(os.path.abspath(__file__)))
SEEDED = os.path.join(VERIF, "seeded")


def make_copy(repo_root, dest):
    os.makedirs(os.path.join(dest, "asynq"))
    for fn in os.listdir(os.path.join(repo_root, "asynq")):
        if fn.endswith((".py", ".pxd", ".pyi")):
            shutil.copy2(os.path.join(repo_root, "asynq", fn), os.path.join(dest, "asynq", fn))
    shutil.copy2(os.path.join(repo_root, "setup.py"), os.path.join(dest, "setup.py"))


def apply_patch(dest, patch):
    p = subprocess.run(["patch", "-p1", "-s", "-f", "--no-backup-if-mismatch", "-i", patch], cwd=dest,
                       stdout=subprocess.PIPE, stderr=subprocess.STDOUT)
    return p.returncode == 0, p.stdout.decode("utf-8", "replace")


def run_check_on(prop, root, tier="quick"):
    env = dict(os.environ)
    env["VERIF_NO_EVIDENCE"] = "1"
    env["VERIF_NO_SELFTEST"] = "1"
    env["VERIF_TIER"] = tier
    p = subprocess.run([sys.executable, os.path.join(VERIF, "check.py"), prop, "--repo", root, "--tier", tier],
                       env=env, stdout=subprocess.PIPE, stderr=subprocess.STDOUT, cwd=VERIF)
    return p.returncode, p.stdout.decode("utf-8", "replace")


def check_variant(prop, repo_root, patch, tier="quick"):
    tmp = tempfile.mkdtemp(prefix="asynq-verif-")
    try:
        make_copy(repo_root, tmp)
        ok, out = apply_patch(tmp, patch)
        if not ok:
            return {"patch": patch, "applied": False, "note": out.strip()[:200]}
        code, out = run_check_on(prop, tmp, tier)
        rules = []
        lines = out.split("\n")
        for i, l in enumerate(lines):
            if l.startswith("VIOLATION") and i + 1 < len(lines):
                rules.append(lines[i + 1].strip())
        return {"patch": patch, "applied": True, "exit": code, "fired": rules,
                "errors": [l for l in lines if l.startswith("ANALYSIS-ERROR")]}
    finally:
        shutil.rmtree(tmp, ignore_errors=True)


def variants_for(prop):
    out = []
    if not os.path.isdir(SEEDED):
        return out
    for d in sorted(os.listdir(SEEDED)):
        meta_p = os.path.join(SEEDED, d, "meta.json")
        if not os.path.exists(meta_p):
            continue
        with open(meta_p) as f:
            meta = json.load(f)
        props = meta.get("checked_by") or [meta.get("property")]
        if prop not in props:
            continue
        patch = os.path.join(SEEDED, d, "patch.diff")
        if os.path.exists(patch):
            out.append({"id": d, "patch": patch, "expect": meta.get("expect", {}).get(prop, meta.get("expect_default", "fire"))})
        for fn in sorted(os.listdir(os.path.join(SEEDED, d))):
            if fn.startswith("silent") and fn.endswith(".diff"):
                out.append({"id": d + "/" + fn, "patch": os.path.join(SEEDED, d, fn), "expect": "silent"})
    return out


def run_selftest(prop, run):
    vs = variants_for(prop)
    res = {"variants": len(vs), "fired_as_expected": 0, "silent_as_expected": 0, "missed": [], "false_alarm": [],
           "not_applicable_to_tree": [], "expected_miss": [], "details": []}
    if not vs:
        return res
    root = run.repo.root
    with ThreadPoolExecutor(max_workers=min(16, len(vs))) as ex:
        outs = list(ex.map(lambda v: check_variant(prop, root, v["patch"]), vs))
    for v, o in zip(vs, outs):
        d = {"id": v["id"], "expect": v["expect"]}
        if not o.get("applied"):
            res["not_applicable_to_tree"].append(v["id"])
            d["result"] = "patch does not apply to the current tree"
        else:
            d["exit"] = o["exit"]
            d["fired"] = o["fired"]
            if v["expect"] == "fire":
                if o["exit"] == 1:
                    res["fired_as_expected"] += 1
                else:
                    res["missed"].append(v["id"])
            elif v["expect"] == "silent":
                if o["exit"] == 0:
                    res["silent_as_expected"] += 1
                else:
                    res["false_alarm"].append(v["id"])
            else:  # documented miss
                if o["exit"] == 1:
                    res["fired_as_expected"] += 1
                else:
                    res["expected_miss"].append(v["id"])
        res["details"].append(d)
    for m in res["missed"]:
        print("SELFTEST-MISS property=%s variant=%s (seeded change not reported)" % (prop, m))
    for m in res["false_alarm"]:
        print("SELFTEST-FALSE-ALARM property=%s variant=%s (behaviour-preserving change reported)" % (prop, m))
    return res


if __name__ == "__main__":
    # usage: python -m sa.selftest <prop> <patch> [repo]
    prop, patch = sys.argv[1], sys.argv[2]
    root = sys.argv[3] if len(sys.argv) > 3 else "/repo"
    r = check_variant(prop, root, os.path.abspath(patch))
    print(json.dumps(r, indent=1))
