"""Statement-level control-flow graphs with exceptional edges, for one Python function.

Nodes are simple statements, branch conditions (``and``/``or``/``not`` are lowered so that the
polarity of every atomic test is visible on its out-edges), loop headers, ``with`` enter/exit
points and handler entries.  ``finally`` bodies (and ``with`` exits) are inlined once per
continuation kind (normal, return, raise, break, continue).

Two views of the same graph are used by the rules:

* N-mode: explicit control flow (branches, loops, return, explicit ``raise``/``assert``) plus
  handler entry from the statements of the guarded ``try`` body.
* X-mode: additionally every node that contains a call, ``yield``, subscript or ``await`` may
  raise to the innermost handler / ``finally`` / out of the function.
"""
import ast
import builtins
from collections import deque

from .errors import AnalysisError
from .frontend import walk_expr

N, X = "N", "X"


class Node(object):
    __slots__ = ("id", "kind", "ast", "stmt", "tag", "lineno")

    def __init__(self, id_, kind, ast_node, stmt, tag=None):
        self.id = id_
        self.kind = kind
        self.ast = ast_node
        self.stmt = stmt
        self.tag = tag
        self.lineno = getattr(ast_node, "lineno", None) or getattr(stmt, "lineno", None)

    def __repr__(self):
        return "<%s#%d L%s>" % (self.kind, self.id, self.lineno)


class Edge(object):
    __slots__ = ("src", "dst", "label", "implicit", "exc_type")

    def __init__(self, src, dst, label=None, implicit=False, exc_type=None):
        self.src = src
        self.dst = dst
        self.label = label
        self.implicit = implicit
        self.exc_type = exc_type

    def __repr__(self):
        return "<%d-%s->%d>" % (self.src, self.label or "", self.dst)


def may_raise_implicitly(node):
    """Does evaluating this statement/expression contain something X-mode lets raise?"""
    if node is None:
        return False
    if isinstance(node, (ast.FunctionDef, ast.AsyncFunctionDef, ast.ClassDef)):
        return bool(node.decorator_list)
    for sub in walk_expr(node):
        if isinstance(sub, ast.Subscript) and isinstance(sub.slice, ast.Slice) and isinstance(sub.ctx, ast.Load):
            continue        # reading a slice of a builtin sequence (x[a:], x[:]) never raises; indexing can
        if isinstance(sub, (ast.Call, ast.Yield, ast.YieldFrom, ast.Await, ast.Subscript)):
            return True
        if isinstance(sub, ast.BinOp) and isinstance(sub.op, ast.Mod):
            return True
        if isinstance(sub, (ast.Import, ast.ImportFrom, ast.Delete)):
            return True
    return False


class ExcHierarchy(object):
    """Static subclass test over builtin exception names and repository exception classes."""

    def __init__(self, repo=None):
        self.repo = repo
        self.extra = {}  # name -> base name
        if repo is not None:
            for c in repo.all_classes():
                for b in c.node.bases:
                    bn = b.attr if isinstance(b, ast.Attribute) else getattr(b, "id", None)
                    if bn:
                        self.extra.setdefault(c.name, bn)

    def _chain(self, name):
        seen = []
        while name is not None and name not in seen:
            seen.append(name)
            if name in self.extra:
                name = self.extra[name]
                continue
            obj = getattr(builtins, name, None)
            if isinstance(obj, type) and issubclass(obj, BaseException):
                for k in obj.__mro__[1:]:
                    if k is not object:
                        seen.append(k.__name__)
                break
            break
        return seen

    def is_sub(self, name, base):
        if name is None or base is None:
            return None
        ch = self._chain(name)
        if base in ch:
            return True
        if ch and ch[-1] == "BaseException":
            return False
        return None  # unknown class


def handler_type_names(handler):
    """None for a bare except, else list of simple class names (None element = unknown expr)."""
    t = handler.type
    if t is None:
        return None
    elts = t.elts if isinstance(t, ast.Tuple) else [t]
    out = []
    for e in elts:
        if isinstance(e, ast.Name):
            out.append(e.id)
        elif isinstance(e, ast.Attribute):
            out.append(e.attr)
        else:
            out.append(None)
    return out


class _Ctx(object):
    def __init__(self, b, outer):
        self.b = b
        self.outer = outer

    def do_return(self, fr):
        self.outer.do_return(fr)

    def do_break(self, fr):
        self.outer.do_break(fr)

    def do_continue(self, fr):
        self.outer.do_continue(fr)

    def do_raise(self, fr, exc_type, implicit):
        self.outer.do_raise(fr, exc_type, implicit)


class _FuncCtx(_Ctx):
    def do_return(self, fr):
        self.b.connect(fr, self.b.cfg.exit)

    def do_break(self, fr):
        raise AnalysisError("break outside loop")

    do_continue = do_break

    def do_raise(self, fr, exc_type, implicit):
        self.b.connect(fr, self.b.cfg.raise_exit, label="exc", implicit=implicit, exc_type=exc_type)


class _LoopCtx(_Ctx):
    def __init__(self, b, outer, header):
        _Ctx.__init__(self, b, outer)
        self.header = header
        self.breaks = []

    def do_break(self, fr):
        self.breaks.extend(fr)

    def do_continue(self, fr):
        self.b.connect(fr, self.header)


class _FinallyCtx(_Ctx):
    """try/finally or with: non-local exits run a copy of the final body first."""

    def __init__(self, b, outer, build_final, stmt):
        _Ctx.__init__(self, b, outer)
        self.build_final = build_final
        self.stmt = stmt
        self.joins = {}

    def _via(self, kind, fr, cont, **kw):
        if kind not in self.joins:
            j = self.b.new("join", None, self.stmt, tag="finally-" + kind)
            self.joins[kind] = j
            out = self.build_final([(j, None)], self.outer, kind)
            cont(out)
        j = self.joins[kind]
        self.b.connect(fr, j, **kw)

    def do_return(self, fr):
        self._via("ret", fr, self.outer.do_return)

    def do_break(self, fr):
        self._via("brk", fr, self.outer.do_break)

    def do_continue(self, fr):
        self._via("cont", fr, self.outer.do_continue)

    def do_raise(self, fr, exc_type, implicit):
        # the copy re-raises whatever arrived: type information is dropped, implicitness is kept
        # conservative (explicit) so that N-mode sees the continuation of an explicit raise.
        key = "exc-implicit" if implicit else "exc"
        self._via(
            key,
            fr,
            lambda out: self.outer.do_raise(out, "<finally>", implicit),
            label="exc",
            implicit=implicit,
            exc_type=exc_type,
        )


class _ExceptCtx(_Ctx):
    def __init__(self, b, outer, handlers):
        _Ctx.__init__(self, b, outer)
        self.handlers = handlers  # list of (ast handler, node id)

    def do_raise(self, fr, exc_type, implicit):
        hier = self.b.hier
        for h, hid in self.handlers:
            names = handler_type_names(h)
            if names is None:
                self.b.connect(fr, hid, label="exc", implicit=implicit, exc_type=exc_type)
                return
            verdicts = []
            for nme in names:
                if exc_type is None:
                    verdicts.append(True if nme == "BaseException" else None)
                else:
                    verdicts.append(hier.is_sub(exc_type, nme))
            if any(v is True for v in verdicts):
                self.b.connect(fr, hid, label="exc", implicit=implicit, exc_type=exc_type)
                return
            if any(v is None for v in verdicts):
                self.b.connect(fr, hid, label="exc", implicit=implicit, exc_type=exc_type)
        self.outer.do_raise(fr, exc_type, implicit)


class _HandlerCtx(_Ctx):
    """Inside an except body: a bare ``raise`` re-raises the handled exception."""

    def __init__(self, b, outer, handler):
        _Ctx.__init__(self, b, outer)
        self.handler = handler


class CFG(object):
    def __init__(self, fn_node):
        self.fn = fn_node
        self.nodes = []
        self.succ = {}
        self.pred = {}
        self.entry = self.exit = self.raise_exit = None
        self._by_ast = {}

    # ---------------------------------------------------------------------------- views
    def edge_ok(self, e, mode):
        if not e.implicit:
            return True
        if mode == X:
            return True
        # N-mode: implicit exception edges only into local handlers
        return self.nodes[e.dst].kind == "except"

    def out_edges(self, nid, mode=N):
        return [e for e in self.succ[nid] if self.edge_ok(e, mode)]

    def in_edges(self, nid, mode=N):
        return [e for e in self.pred[nid] if self.edge_ok(e, mode)]

    def nodes_for(self, ast_node):
        return [self.nodes[i] for i in self._by_ast.get(id(ast_node), [])]

    def nodes_in(self, ast_root):
        """All CFG nodes whose ast lies inside ast_root (by identity walk)."""
        ids = set()
        for sub in ast.walk(ast_root):
            ids.update(self._by_ast.get(id(sub), []))
        return [self.nodes[i] for i in sorted(ids)]

    def find_path(self, sources, targets, mode=N, cut_nodes=(), keep_edge=None, include_source_check=True):
        """BFS from sources; returns a list of nodes forming a path to any target avoiding
        cut_nodes and edges rejected by keep_edge, or None when no such path exists."""
        cut = set(n.id if isinstance(n, Node) else n for n in cut_nodes)
        tg = set(n.id if isinstance(n, Node) else n for n in targets)
        src = [n.id if isinstance(n, Node) else n for n in sources]
        parent = {}
        dq = deque()
        for s in src:
            if s in cut:
                continue
            if s not in parent:
                parent[s] = None
                dq.append(s)
        while dq:
            u = dq.popleft()
            if u in tg and (include_source_check or parent[u] is not None):
                path = []
                while u is not None:
                    path.append(self.nodes[u])
                    u = parent[u]
                return list(reversed(path))
            for e in self.succ[u]:
                if not self.edge_ok(e, mode):
                    continue
                if keep_edge is not None and not keep_edge(e):
                    continue
                v = e.dst
                if v in cut or v in parent:
                    continue
                parent[v] = u
                dq.append(v)
        return None

    def find_path_flags(self, sources, targets, flags, mode=N, cut_nodes=(), keep_edge=None, target_ok=None):
        """Like find_path, but path-sensitive in the boolean locals named in `flags`: an assignment
        `flag = True/False` is remembered along the path and a later test of `flag` follows only
        the consistent edge.  Any other assignment to a flag forgets its value."""
        flags = set(flags)
        cut = set(n.id if isinstance(n, Node) else n for n in cut_nodes)
        tg = set(n.id if isinstance(n, Node) else n for n in targets)
        start = []
        for s0 in sources:
            s0 = s0.id if isinstance(s0, Node) else s0
            if s0 not in cut:
                start.append((s0, ()))
        parent = {}
        dq = deque()
        for st in start:
            if st not in parent:
                parent[st] = None
                dq.append(st)
        while dq:
            cur = dq.popleft()
            u, known = cur
            if u in tg and (target_ok is None or target_ok(self.nodes[u], dict(known))):
                path = []
                c = cur
                while c is not None:
                    path.append(self.nodes[c[0]])
                    c = parent[c]
                return list(reversed(path))
            nd = self.nodes[u]
            kd = dict(known)
            if nd.kind == "stmt" and isinstance(nd.ast, ast.Assign):
                for t in nd.ast.targets:
                    if isinstance(t, ast.Name) and t.id in flags:
                        v = nd.ast.value
                        if isinstance(v, ast.Constant) and (isinstance(v.value, bool) or v.value is None):
                            kd[t.id] = v.value
                        else:
                            kd.pop(t.id, None)
            only = None
            def _truth(v):
                return v[1] if isinstance(v, tuple) else bool(v)
            if nd.kind == "test" and isinstance(nd.ast, ast.Name) and nd.ast.id in kd:
                only = "T" if _truth(kd[nd.ast.id]) else "F"
            elif nd.kind == "test" and kd:
                from . import q as _q
                k_, s_, pos_ = _q.atom_test(nd.ast)
                if isinstance(s_, str) and s_ in kd and k_ == "truth":
                    only = "T" if _truth(kd[s_]) == pos_ else "F"
                elif isinstance(s_, str) and s_ in kd and k_ == "isnone":
                    v_ = kd[s_]
                    if not isinstance(v_, tuple):
                        only = "T" if (v_ is None) == pos_ else "F"
                    elif v_[1]:                       # learned truthy: certainly not None
                        only = "T" if (False == pos_) else "F"
            # a test of a flag whose value is not known yet: both edges are possible, and each one fixes the flag's truth for the
            # rest of the path (the local is stable until it is assigned again) - two tests of one local always agree
            learn = None
            if only is None and nd.kind == "test":
                e_, pos_ = nd.ast, True
                while isinstance(e_, ast.UnaryOp) and isinstance(e_.op, ast.Not):
                    e_, pos_ = e_.operand, not pos_
                if isinstance(e_, ast.Name) and e_.id in flags and e_.id not in kd:
                    learn = (e_.id, pos_)
            nk = tuple(sorted(kd.items(), key=lambda kv: kv[0]))
            for e in self.succ[u]:
                if not self.edge_ok(e, mode):
                    continue
                if keep_edge is not None and not keep_edge(e):
                    continue
                if only is not None and e.label in ("T", "F") and e.label != only:
                    continue
                if e.dst in cut:
                    continue
                nk_e = nk
                if learn is not None and e.label in ("T", "F"):
                    kd2 = dict(kd)
                    kd2[learn[0]] = ("learned", (e.label == "T") == learn[1])
                    nk_e = tuple(sorted(kd2.items(), key=lambda kv: kv[0]))
                nxt = (e.dst, nk_e)
                if nxt in parent:
                    continue
                parent[nxt] = cur
                dq.append(nxt)
        return None

    def reachable(self, sources, mode=N, cut_nodes=(), keep_edge=None):
        cut = set(n.id if isinstance(n, Node) else n for n in cut_nodes)
        seen = set()
        dq = deque()
        for s in sources:
            s = s.id if isinstance(s, Node) else s
            if s not in cut and s not in seen:
                seen.add(s)
                dq.append(s)
        while dq:
            u = dq.popleft()
            for e in self.succ[u]:
                if not self.edge_ok(e, mode):
                    continue
                if keep_edge is not None and not keep_edge(e):
                    continue
                if e.dst in cut or e.dst in seen:
                    continue
                seen.add(e.dst)
                dq.append(e.dst)
        return seen

    def live_nodes(self, mode=N):
        return self.reachable([self.entry], mode)

    def fmt_path(self, path):
        return " -> ".join(
            "%s@%s" % (n.kind if n.kind != "stmt" else type(n.ast).__name__, n.lineno) for n in path
        )

    def in_cycle(self, node, mode=N):
        nid = node.id if isinstance(node, Node) else node
        starts = [e.dst for e in self.out_edges(nid, mode)]
        return self.find_path(starts, [nid], mode) is not None


class Builder(object):
    def __init__(self, fn_node, hier=None):
        self.cfg = CFG(fn_node)
        self.hier = hier or ExcHierarchy()

    def new(self, kind, ast_node, stmt, tag=None):
        n = Node(len(self.cfg.nodes), kind, ast_node, stmt, tag)
        self.cfg.nodes.append(n)
        self.cfg.succ[n.id] = []
        self.cfg.pred[n.id] = []
        if ast_node is not None:
            self.cfg._by_ast.setdefault(id(ast_node), []).append(n.id)
        return n.id

    def connect(self, fr, dst, label=None, implicit=False, exc_type=None):
        for src, l in fr:
            lab = label if label is not None else l
            if label == "exc" and l in ("T", "F"):
                # the branch edge of a test inside a finally copy that continues with the re-raise: it stays a T/F edge (guards
                # ask which branch was taken); the destination says that the exception goes on
                lab = l
            e = Edge(src, dst, lab, implicit, exc_type)
            self.cfg.succ[src].append(e)
            self.cfg.pred[dst].append(e)

    def build(self):
        c = self.cfg
        c.entry = self.new("entry", None, None)
        c.exit = self.new("exit", None, None)
        c.raise_exit = self.new("raise_exit", None, None)
        ctx = _FuncCtx(self, None)
        fr = self.seq(c.fn.body, [(c.entry, None)], ctx)
        self.connect(fr, c.exit)
        return c

    # ------------------------------------------------------------------------ statements
    def implicit_raise(self, nid, ast_node, ctx, force=False):
        if force or may_raise_implicitly(ast_node):
            ctx.do_raise([(nid, None)], None, True)

    def seq(self, stmts, fr, ctx):
        for s in stmts:
            fr = self.stmt(s, fr, ctx)
        return fr

    def stmt(self, s, fr, ctx):
        if isinstance(s, ast.If):
            t, f = self.cond(s.test, s, fr, ctx)
            a = self.seq(s.body, t, ctx)
            b = self.seq(s.orelse, f, ctx)
            return a + b
        if isinstance(s, ast.While):
            head = self.new("loop", None, s, tag="while")
            self.connect(fr, head)
            lctx = _LoopCtx(self, ctx, head)
            t, f = self.cond(s.test, s, [(head, None)], ctx)
            body = self.seq(s.body, t, lctx)
            self.connect(body, head)
            out = self.seq(s.orelse, f, ctx)
            return out + lctx.breaks
        if isinstance(s, (ast.For, ast.AsyncFor)):
            head = self.new("for", s, s)
            self.connect(fr, head)
            self.implicit_raise(head, s.iter, ctx, force=True)
            lctx = _LoopCtx(self, ctx, head)
            body = self.seq(s.body, [(head, "iter")], lctx)
            self.connect(body, head)
            out = self.seq(s.orelse, [(head, "done")], ctx)
            return out + lctx.breaks
        if isinstance(s, ast.Try):
            return self.try_(s, fr, ctx)
        if isinstance(s, (ast.With, ast.AsyncWith)):
            return self.with_(s, fr, ctx)
        if isinstance(s, ast.Return):
            n = self.new("stmt", s, s)
            self.connect(fr, n)
            self.implicit_raise(n, s.value, ctx)
            ctx.do_return([(n, "ret")])
            return []
        if isinstance(s, ast.Raise):
            n = self.new("stmt", s, s)
            self.connect(fr, n)
            if s.exc is None:
                h = ctx
                et = None
                while h is not None and not isinstance(h, _HandlerCtx):
                    h = h.outer
                if h is not None:
                    names = handler_type_names(h.handler)
                    if names and len(names) == 1:
                        et = names[0]
                ctx.do_raise([(n, None)], et, False)
            else:
                et = None
                e = s.exc
                if isinstance(e, ast.Call):
                    e = e.func
                if isinstance(e, ast.Name):
                    et = e.id
                elif isinstance(e, ast.Attribute):
                    et = e.attr
                if et is not None and self.hier.is_sub(et, "BaseException") is None:
                    et = None  # a variable holding an exception, not a class name
                ctx.do_raise([(n, None)], et, False)
            return []
        if isinstance(s, ast.Break):
            n = self.new("stmt", s, s)
            self.connect(fr, n)
            ctx.do_break([(n, "brk")])
            return []
        if isinstance(s, ast.Continue):
            n = self.new("stmt", s, s)
            self.connect(fr, n)
            ctx.do_continue([(n, "cont")])
            return []
        if isinstance(s, ast.Assert):
            t, f = self.cond(s.test, s, fr, ctx)
            n = self.new("assert_fail", s, s)
            self.connect(f, n)
            ctx.do_raise([(n, None)], "AssertionError", False)
            return t
        if isinstance(
            s,
            (ast.Expr, ast.Assign, ast.AugAssign, ast.AnnAssign, ast.Pass, ast.Delete, ast.Global,
             ast.Nonlocal, ast.Import, ast.ImportFrom, ast.FunctionDef, ast.AsyncFunctionDef, ast.ClassDef),
        ):
            n = self.new("stmt", s, s)
            self.connect(fr, n)
            self.implicit_raise(n, s, ctx)
            return [(n, None)]
        raise AnalysisError("CFG: unsupported statement %s at line %s" % (type(s).__name__, getattr(s, "lineno", "?")))

    def cond(self, e, stmt, fr, ctx):
        """Lower a condition; returns (true_frontier, false_frontier)."""
        if isinstance(e, ast.UnaryOp) and isinstance(e.op, ast.Not):
            t, f = self.cond(e.operand, stmt, fr, ctx)
            return f, t
        if isinstance(e, ast.BoolOp):
            if isinstance(e.op, ast.And):
                falses = []
                cur = fr
                for v in e.values:
                    t, f = self.cond(v, stmt, cur, ctx)
                    falses += f
                    cur = t
                return cur, falses
            trues = []
            cur = fr
            for v in e.values:
                t, f = self.cond(v, stmt, cur, ctx)
                trues += t
                cur = f
            return trues, cur
        if isinstance(e, ast.IfExp):
            # (X if T else Y) used as a condition
            tt, tf = self.cond(e.test, stmt, fr, ctx)
            xt, xf = self.cond(e.body, stmt, tt, ctx)
            yt, yf = self.cond(e.orelse, stmt, tf, ctx)
            return xt + yt, xf + yf
        n = self.new("test", e, stmt)
        self.connect(fr, n)
        self.implicit_raise(n, e, ctx)
        if isinstance(e, ast.Constant):
            if e.value:
                return [(n, "T")], []
            return [], [(n, "F")]
        return [(n, "T")], [(n, "F")]

    def try_(self, s, fr, ctx):
        if s.finalbody:

            def build_final(frontier, outer, kind, _s=s):
                return self.seq(_s.finalbody, frontier, outer)

            fctx = _FinallyCtx(self, ctx, build_final, s)
        else:
            fctx = ctx
        handlers = []
        for h in s.handlers:
            handlers.append((h, self.new("except", h, s)))
        bctx = _ExceptCtx(self, fctx, handlers) if handlers else fctx
        # every statement of a guarded body may transfer to the handlers (weak implicit edges)
        body_fr = fr
        body_ids = set()
        for st in s.body:
            for sub in ast.walk(st):
                body_ids.add(id(sub))
        for st in s.body:
            before = len(self.cfg.nodes)
            body_fr = self.stmt(st, body_fr, bctx)
            if handlers:
                for nid in range(before, len(self.cfg.nodes)):
                    nd = self.cfg.nodes[nid]
                    if nd.kind in ("stmt", "test", "for", "with_enter") and nd.stmt is not None:
                        if not any(e.label == "exc" for e in self.cfg.succ[nid]):
                            if id(nd.stmt) in body_ids and nd.tag is None:
                                for h, hid in handlers:
                                    self.connect([(nid, None)], hid, label="exc", implicit=True)
        out = self.seq(s.orelse, body_fr, fctx)
        for h, hid in handlers:
            hctx = _HandlerCtx(self, fctx, h)
            out = out + self.seq(h.body, [(hid, None)], hctx)
        if s.finalbody:
            out = self.seq(s.finalbody, out, ctx)
        return out

    def with_(self, s, fr, ctx):
        enter = self.new("with_enter", s, s)
        self.connect(fr, enter)
        self.implicit_raise(enter, s, ctx, force=True)

        def build_final(frontier, outer, kind, _s=s):
            x = self.new("with_exit", _s, _s, tag=kind)
            self.connect(frontier, x)
            if kind == "normal" or True:
                # __exit__ itself may raise
                outer.do_raise([(x, None)], None, True)
            return [(x, None)]

        fctx = _FinallyCtx(self, ctx, build_final, s)
        body = self.seq(s.body, [(enter, None)], fctx)
        return build_final(body, ctx, "normal")


_hier_cache = {}


def build_cfg(fn_node, repo=None):
    key = id(repo)
    if key not in _hier_cache:
        _hier_cache[key] = ExcHierarchy(repo)
    return Builder(fn_node, _hier_cache[key]).build()


BUILT = {}


def cfg_of(fi, repo=None):
    if fi._cfg is None:
        fi._cfg = build_cfg(fi.node, repo or fi.module.repo)
        BUILT[fi.qualname] = (len(fi._cfg.nodes), sum(len(v) for v in fi._cfg.succ.values()))
    return fi._cfg
