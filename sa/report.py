"""Obligation bookkeeping, known-findings handling, evidence and replay files."""
import json
import os
import time

from .errors import AnalysisError

VERIF = os.path.dirname(os.path.dirname(os.path.abspath(__file__)))
EVIDENCE_DIR = os.path.join(VERIF, "evidence")
KNOWN_FILE = os.path.join(VERIF, "known_findings.json")


class SubRun(object):
    """The view of a Run that an included rule module writes through."""

    def __init__(self, parent):
        self._p = parent
        self.prop = parent.prop
        self.tier = parent.tier
        self.repo = parent.repo
        self.res = parent.res
        self.extra = {}            # the included module's explanation text is not this property's
        self.units = parent.units
        self.infos = parent.infos
        self.assumptions = parent.assumptions
        self.t0 = parent.t0

    def _r(self, rule):
        return rule if rule.startswith(self._p.prop + ".") else "%s.%s" % (self._p.prop, rule)

    @property
    def obligations(self):
        return self._p.obligations

    def site(self, fi_or_mod, node=None):
        return self._p.site(fi_or_mod, node)

    def ok(self, rule, site, detail=""):
        self._p.ok(self._r(rule), site, detail)

    def violation(self, rule, key, site, msg, path=None):
        self._p.violation(self._r(rule), key, site, msg, path)

    def check(self, cond, rule, key, site, ok_detail, bad_msg, path=None):
        return self._p.check(cond, self._r(rule), key, site, ok_detail, bad_msg, path)

    def info(self, msg):
        self._p.info(msg)

    def assume(self, msg):
        self._p.assume(msg)

    def need(self, cond, msg):
        self._p.need(cond, msg)

    def count(self, rule_prefix):
        return self._p.count(self._r(rule_prefix))

    def require_min(self, rule_prefix, n):
        self._p.require_min(self._r(rule_prefix), n)

    def include(self, prop_id):
        pass                        # inclusion is not transitive: the including property lists what it needs


class Run(object):
    def __init__(self, prop_id, tier, repo, resolver):
        self.prop = prop_id
        self.tier = tier
        self.repo = repo
        self.res = resolver
        self.obligations = []  # dicts
        self.infos = []
        self.assumptions = []
        self.t0 = time.time()
        self.units = {}
        self.extra = {}

    # ------------------------------------------------------------------------ recording
    def site(self, fi_or_mod, node=None):
        if hasattr(fi_or_mod, "qualname"):
            mod = fi_or_mod.module
            ln = getattr(node, "lineno", None) or fi_or_mod.node.lineno
            return "%s:%d %s" % (mod.relpath, ln, fi_or_mod.qualname)
        ln = getattr(node, "lineno", 0)
        return "%s:%d" % (fi_or_mod.relpath, ln)

    def ok(self, rule, site, detail=""):
        self.obligations.append({"rule": rule, "site": site, "status": "ok", "detail": detail})

    def violation(self, rule, key, site, msg, path=None):
        self.obligations.append(
            {"rule": rule, "site": site, "status": "violation", "key": key, "detail": msg, "path": path}
        )

    def check(self, cond, rule, key, site, ok_detail, bad_msg, path=None):
        if cond:
            self.ok(rule, site, ok_detail)
        else:
            self.violation(rule, key, site, bad_msg, path)
        return cond

    def info(self, msg):
        self.infos.append(msg)

    def assume(self, msg):
        if msg not in self.assumptions:
            self.assumptions.append(msg)

    def need(self, cond, msg):
        if not cond:
            raise AnalysisError(msg)

    def count(self, rule_prefix):
        return sum(1 for o in self.obligations if o["rule"].startswith(rule_prefix))

    def require_min(self, rule_prefix, n):
        # the guard is against vacuous passes: a rule that already reports a violation is not vacuous
        if any(o["rule"].startswith(rule_prefix) and o["status"] == "violation" for o in self.obligations):
            return
        c = self.count(rule_prefix)
        if c < n:
            raise AnalysisError(
                "rule %s matched %d instance(s), fewer than the %d confirmed by hand: the rule would "
                "pass vacuously" % (rule_prefix, c, n)
            )

    # ------------------------------------------------------------------------ inclusion
    def include(self, prop_id):
        """Runs the rule module of another property as a necessary condition of this one: its obligations are filed under
        <this property>.<their rule name> (C14 + C02.FLOW-THROW -> C14.C02.FLOW-THROW)."""
        import importlib
        if prop_id == self.prop:
            return
        mod = importlib.import_module("sa.rules.%s" % prop_id.lower())
        mod.run(SubRun(self))
        self.included = getattr(self, "included", []) + [prop_id]

    # ------------------------------------------------------------------------ finishing
    def finish(self, selftest=None):
        known = load_known()
        viol = [o for o in self.obligations if o["status"] == "violation"]
        new, listed = [], []
        for v in viol:
            k = match_known(known, self.prop, v["rule"], v["key"])
            if k is not None:
                v["status"] = "known"
                listed.append((v, k))
            else:
                new.append(v)
        os.makedirs(os.path.join(EVIDENCE_DIR, "violations"), exist_ok=True)
        lines = []
        for v, k in listed:
            lines.append("KNOWN-FINDING: property=%s rule=%s site=%s %s" % (self.prop, v["rule"], v["site"], k.get("what", v["detail"])))
        for i, v in enumerate(new):
            rp = os.path.join(EVIDENCE_DIR, "violations", "%s-%s-%d.json" % (self.prop, v["rule"].replace("/", "_"), i))
            with open(rp, "w") as f:
                json.dump({"property": self.prop, "rule": v["rule"], "key": v["key"], "site": v["site"],
                           "message": v["detail"], "path": v.get("path"), "repo": self.repo.root}, f, indent=1)
            lines.append("VIOLATION property=%s replay=%s" % (self.prop, rp))
            lines.append("  rule=%s site=%s" % (v["rule"], v["site"]))
            lines.append("  %s" % v["detail"])
            if v.get("path"):
                lines.append("  path: %s" % v["path"])
        self.write_evidence(new, listed, selftest)
        return lines, (1 if new else 0)

    def write_evidence(self, new, listed, selftest):
        os.makedirs(EVIDENCE_DIR, exist_ok=True)
        rules = {}
        for o in self.obligations:
            r = rules.setdefault(o["rule"], {"instances": 0, "ok": 0, "violations": 0, "known": 0})
            r["instances"] += 1
            r[{"ok": "ok", "violation": "violations", "known": "known"}[o["status"]]] += 1
        samples = []
        seen_rules = set()
        for o in self.obligations:
            if o["rule"] not in seen_rules:
                seen_rules.add(o["rule"])
                samples.append({"rule": o["rule"], "site": o["site"], "verdict": o["status"], "witness": o["detail"]})
        total = len(self.obligations)
        discharged = sum(1 for o in self.obligations if o["status"] == "ok")
        try:
            from .cfg import BUILT
            kinds = {}
            n_calls = 0
            for qn, lst in self.res._callees.items():
                for call, tg, kind in lst:
                    kinds[kind] = kinds.get(kind, 0) + 1
                    n_calls += 1
            self.units.update({
                "modules_parsed": len(self.repo.modules),
                "pxd_files": sum(1 for m in self.repo.modules.values() if m.pxd is not None),
                "functions_in_package": sum(1 for _ in self.repo.all_functions()),
                "cfgs_built": len(BUILT),
                "cfg_nodes": sum(v[0] for v in BUILT.values()),
                "cfg_edges": sum(v[1] for v in BUILT.values()),
                "call_sites_classified": n_calls,
                "call_sites_by_kind": kinds,
                "helpers_inlined": dict((m.name, sorted(x for v in m.inlined.values() for x in v)) for m in self.repo.modules.values() if m.inlined),
                "renamed_methods_mapped_back": dict((m.name, dict(("%s.%s" % (c, n), o) for c, mp in m.unrenamed.items() for n, o in mp.items()))
                                                    for m in self.repo.modules.values() if getattr(m, "unrenamed", None)),
            })
        except Exception:
            pass
        cov = {
            "explanation": self.extra.get("explanation", ""),
            "obligations": total,
            "discharged": discharged,
            "evaluations": total,
            "distinct_nontrivial": len(set((o["rule"], o["site"]) for o in self.obligations)),
            "rule": "one obligation per (static rule, construct) instance found in /repo's current source; "
                    "distinct = distinct (rule, site) pairs; every instance is non-trivial in that it is a "
                    "construct the rule had to locate and decide on all CFG paths",
            "samples": samples,
            "rules": rules,
            "all_obligations": [
                {"rule": o["rule"], "site": o["site"], "status": o["status"], "detail": o["detail"]}
                for o in self.obligations
            ],
            "units_analysed": self.units,
            "file_digests": self.repo.digests,
            "information": self.infos,
            "known_findings_printed": [v["key"] for v, k in listed],
            "checker_cmd": "/venv/bin/python check.py %s --tier %s" % (self.prop, self.tier),
            "trusted_base": self.assumptions,
            "exhaustive": True,
        }
        inc = getattr(self, "included", [])
        if inc:
            own = sum(1 for o in self.obligations if not any(o["rule"].startswith("%s.%s." % (self.prop, i)) for i in inc))
            cov["included_rule_sets"] = {
                "properties": inc,
                "why": "their mechanism is a necessary condition of this property (sa/rules/includes.py); their obligations are filed as %s.<rule>" % self.prop,
                "own_obligations": own, "included_obligations": total - own}
        if selftest is not None:
            cov["selftest"] = selftest
        ev = {
            "property_id": self.prop,
            "tier": self.tier,
            "seed": int(os.environ.get("VERIF_SEED", "0") or 0),
            "level": "other",
            "coverage": cov,
            "assumptions": self.assumptions,
            "wall_s": round(time.time() - self.t0, 3),
            "violations": len(new),
        }
        if os.environ.get("VERIF_NO_EVIDENCE"):
            return
        with open(os.path.join(EVIDENCE_DIR, "%s.json" % self.prop), "w") as f:
            json.dump(ev, f, indent=1, default=str)


def load_known():
    if not os.path.exists(KNOWN_FILE):
        return []
    with open(KNOWN_FILE) as f:
        return json.load(f).get("findings", [])


def match_known(known, prop, rule, key):
    for k in known:
        if k.get("status") != "known":
            continue
        if k.get("property") == prop and k.get("rule") == rule and k.get("key") == key:
            return k
    return None
