"""C-view: the Cython compiler's front end (the repository's own build dependency) run as a library
up to AnalyseExpressions.  Nothing is generated or executed; the typed tree is inspected for
(a) a compile witness (0 errors per module of CYTHON_MODULES against its .pxd) and (b) every
Python-object -> C-scalar coercion and typed in-place assignment in the .py sources."""
import ast
import os
import shutil
import tempfile

from .errors import AnalysisError
from . import q


def _import_cython():
    try:
        from Cython.Compiler import Main, Pipeline, Visitor  # noqa
        return True
    except Exception:
        return False


def module_facts(root, mod):
    """(error or None, [site dicts]) for asynq/<mod>.py under `root`."""
    from Cython.Compiler import Main, Pipeline, Visitor
    from Cython.Compiler.Main import CompilationOptions, Context, setup_source_object, create_default_resultobj
    from Cython.Compiler.ParseTreeTransforms import AnalyseExpressionsTransform

    scratch = tempfile.mkdtemp(prefix="asynq-verif-cy-")
    cwd = os.getcwd()
    os.chdir(root)
    try:
        options = CompilationOptions(Main.default_options, language_level=3, output_file=os.path.join(scratch, mod + ".c"))
        ctx = Context.from_options(options)
        options.configure_language_defaults("py")
        source = setup_source_object("asynq/%s.py" % mod, ".py", "asynq." + mod, options, ctx)
        result = create_default_resultobj(source, options)
        pipeline = Pipeline.create_py_pipeline(ctx, options, result)
        ctx.setup_errors(options, result)
        idx = [i for i, p in enumerate(pipeline) if isinstance(p, AnalyseExpressionsTransform)][0]
        sites = []

        def visit(tree):
            class V(Visitor.TreeVisitor):
                def visit_Node(self, node):
                    self.visitchildren(node)

                def visit_CoerceFromPyTypeNode(self, node):
                    fn = getattr(node.pos[0], "filename", None)
                    if fn and fn.endswith(".py"):
                        sites.append({"kind": "coerce", "file": fn, "line": node.pos[1], "col": node.pos[2], "ctype": str(node.type),
                                      "arg": type(node.arg).__name__})
                    self.visitchildren(node)

                def visit_InPlaceAssignmentNode(self, node):
                    fn = getattr(node.pos[0], "filename", None)
                    if fn and fn.endswith(".py") and not node.lhs.type.is_pyobject:
                        sites.append({"kind": "inplace", "file": fn, "line": node.pos[1], "col": node.pos[2], "ctype": str(node.lhs.type),
                                      "arg": str(node.rhs.type)})
                    self.visitchildren(node)

            V().visit(tree)
            return tree

        err, _ = Pipeline.run_pipeline(pipeline[: idx + 1] + [visit], source)
        return err, sites
    finally:
        os.chdir(cwd)
        shutil.rmtree(scratch, ignore_errors=True)


_cache = {}


def all_facts(repo):
    key = repo.root
    if key not in _cache:
        out = {}
        for mod in repo.cython_modules:
            out[mod] = module_facts(repo.root, mod)
        _cache[key] = out
    return _cache[key]


INT_BITS = {"char": 8, "short": 16, "int": 32, "long": 64, "Py_ssize_t": 64, "long long": 64, "PY_LONG_LONG": 64, "bint": 1,
            "unsigned int": 32, "unsigned long": 64, "size_t": 64}


def compile_witness(R):
    if not _import_cython():
        R.info("Cython is not importable in this interpreter: compile witness skipped")
        return
    facts = all_facts(R.repo)
    for mod, (err, sites) in sorted(facts.items()):
        m = R.repo.modules[mod]
        R.check(err is None, "C01.BUILD", "cython:%s" % mod, m.relpath,
                "the Cython front end accepts %s.py against its .pxd with 0 errors (%d C-scalar coercion sites)" % (mod, len(sites)),
                "the Cython front end rejects asynq/%s.py against its .pxd: %s - the compiled build cannot be produced from these sources" % (mod, str(err)[:300]))


def narrow_thorough(R, ro):
    from .rules.c20 import is_clock, clock_tainted_names
    if not _import_cython():
        R.info("Cython is not importable: thorough narrowing tier skipped")
        return
    facts = all_facts(R.repo)
    n = 0
    for mod, (err, sites) in sorted(facts.items()):
        if err is not None:
            raise AnalysisError("Cython front end failed on %s: %s" % (mod, str(err)[:200]))
        m = R.repo.modules[mod]
        # map line -> innermost function + statement
        by_line = {}
        for f in m.all_functions.values():
            for node in q.scope_nodes(f.node):
                if isinstance(node, ast.stmt):
                    for ln in range(node.lineno, (node.end_lineno or node.lineno) + 1):
                        prev = by_line.get(ln)
                        if prev is None or (prev[1].end_lineno - prev[1].lineno) >= (node.end_lineno - node.lineno):
                            by_line[ln] = (f, node)
        for s in sites:
            bits = INT_BITS.get(s["ctype"])
            if bits is None or s["ctype"] == "bint":
                continue
            hit = by_line.get(s["line"])
            if hit is None:
                continue
            f, stmt = hit
            tainted = clock_tainted_names(f)
            # the coerced expression: the call argument / rhs on that line
            exprs = []
            if isinstance(stmt, (ast.Assign, ast.AugAssign)):
                exprs.append(stmt.value)
            for c in q.calls(stmt):
                if c.lineno <= s["line"] <= (c.end_lineno or c.lineno):
                    exprs.extend(c.args)
            clock = any(is_clock(e, tainted) for e in exprs)
            n += 1
            if not clock:
                R.ok("C20.NARROW-IR", R.site(f, stmt), "%s into C `%s` at %s:%d - source is not clock-derived (%s)" % (
                    s["kind"], s["ctype"], m.relpath, s["line"], q.stmt_key(stmt, 50)))
                continue
            ok = bits >= 64 and s["ctype"] in ("long long", "PY_LONG_LONG")
            R.check(ok, "C20.NARROW-IR", "%s:%d:%s" % (m.relpath, s["line"], s["ctype"]), R.site(f, stmt),
                    "clock-derived value coerced to C `%s` (%s) at %s:%d" % (s["ctype"], s["kind"], m.relpath, s["line"]),
                    "the Cython typed tree shows a clock-derived Python int coerced to C `%s` at %s:%d (`%s`): OverflowError past 2**31 us, only in the compiled "
                    "build and only with COLLECT_PERF_STATS on" % (s["ctype"], m.relpath, s["line"], q.stmt_key(stmt, 60)))
    R.units["cython_ir_int_coercions"] = n
    if n < 5:
        raise AnalysisError("the Cython typed tree shows only %d integer coercion sites (fewer than the 5 confirmed by hand)" % n)
