class AnalysisError(Exception):
    """The analysis cannot decide (anchor vanished, idiom unrecognised, instance count below the
    confirmed minimum).  Reported as ANALYSIS-ERROR, exit code 2 - never as a violation."""
