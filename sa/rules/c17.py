"""C17 - async generators deliver their Values in order, and only those."""
import ast

from ..cfg import cfg_of, N, X
from ..errors import AnalysisError
from .. import q, kit
from . import common

EXPLANATION = (
    "Dominance, interval and def-use rules over generator.py: in both consumers every append is "
    "dominated by the false edge of `value is END_OF_GENERATOR`; take_first never advances the generator "
    "when n == 0 (a guard excluding n <= 0 dominates the loop) and, after each appended value, crosses a "
    "count test equivalent to 'n values collected' whose true edge leaves the loop; _AsyncGenerator.send "
    "touches the underlying generator only after the previous task is known to be computed and the "
    "stopped flag is clear, and it forgets the previous task only after that check passed; the stopped "
    "flag is set on exhaustion; in _send_inner every yield's result is the value sent into the underlying "
    "generator next, END_OF_GENERATOR is returned only on StopIteration and a Value is unwrapped."
)


def end_filter(R, f, rule):
    cfg = cfg_of(f)
    appends = [(n, c) for n, c in kit.call_sites(f, lambda c: q.attr_call(c)[1] == "append")]
    R.need(appends, "idiom: %s no longer appends the values it collects" % f.qualname)
    for n, c in appends:
        v = q.src(c.args[0]) if c.args else None

        def not_end(nd, v=v):
            if nd.kind != "test":
                return None
            k, s, pos = q.atom_test(nd.ast)
            if k == "is" and set(s) == set([v, "END_OF_GENERATOR"]):
                return "F" if pos else "T"
            return None
        p = kit.path_avoiding_guard(cfg, [n], not_end, N)
        R.check(p is None, rule, "%s:%s" % (f.qualname, q.stmt_key(c)), R.site(f, c),
                "`%s` is appended only when it is not END_OF_GENERATOR" % v,
                "END_OF_GENERATOR can end up in the result of %s" % f.name, cfg.fmt_path(p) if p else None)
        # the marker is skipped, it does not end the collection: a generator that relays other generators, or a chain of two, produces
        # it in the middle of the stream
        loops_ = [x for x in q.scope_nodes(f.node) if isinstance(x, ast.For)]
        if loops_:
            head_ = kit.one(cfg.nodes_for(loops_[0]), "loop header")
            for t_ in [x for x in cfg.nodes if not_end(x) is not None]:
                end_edge = "T" if not_end(t_) == "F" else "F"
                starts_ = [e.dst for e in cfg.out_edges(t_.id, N) if e.label == end_edge]
                p_ = cfg.find_path(starts_, [cfg.exit], N, cut_nodes=[head_])
                R.check(p_ is None, rule, "%s:skip" % f.qualname, R.site(f, t_.ast),
                        "after END_OF_GENERATOR the loop goes on with the next task",
                        "END_OF_GENERATOR ends the loop of %s: Values delivered after a marker in the middle of the stream are lost" % f.name,
                        cfg.fmt_path(p_) if p_ else None)
        # the appended value is the result of yielding the task of this iteration
        vals = common.assigned_values(f.node, v) if v else []
        oky = bool(vals) and all(k == "expr" and isinstance(e, ast.Yield) for k, e in vals)
        R.check(oky, rule, "%s:value" % f.qualname, R.site(f, c), "the collected value is the result of yielding the generator's task",
                "the collected value is not the yielded task's result")


def decorator_binds(R, rule):
    """@async_generator() is put on methods, too: what the decorator returns takes the place of the function in the class body, so
    it has to bind like one (a function object is a descriptor; a functools.partial or a callable instance is not - obj.gen() would
    call the body without self)."""
    repo = R.repo
    dec = repo.fn("generator.async_generator.decorator")
    nested = set(n.name for n in dec.node.body if isinstance(n, (ast.FunctionDef, ast.AsyncFunctionDef)))
    rets = [n for n in q.scope_nodes(dec.node) if isinstance(n, ast.Return) and n.value is not None]
    ok = bool(rets)
    what = []
    for r in rets:
        v = r.value
        if isinstance(v, ast.Call) and isinstance(v.func, ast.Call) and (q.call_name(v.func) or "").split(".")[-1] == "wraps" and len(v.args) == 1:
            v = v.args[0]       # functools.wraps(fun)(inner)
        if isinstance(v, ast.Name) and v.id in nested:
            continue
        if isinstance(v, ast.Lambda):
            continue
        ok = False
        what.append(q.src(r.value)[:70])
    R.check(ok, rule, dec.qualname + ":binds", R.site(dec, rets[0] if rets else None),
            "the decorator returns a function (it binds as a method)",
            "the decorator returns `%s`, which is not a function object: it does not bind as a method, so a generator body written as a method is called "
            "without self - obj.gen() raises TypeError and no Value can be obtained from it" % "; ".join(what))
    # the returned function builds the generator from all the arguments it is given
    for nm in nested:
        fi = dec.nested.get(nm) if hasattr(dec, "nested") else None
        if fi is None:
            continue
        calls = [c for c in q.calls(fi.node) if q.call_name(c) == q.param_names(dec.node)[0]]
        full = any(any(isinstance(a, ast.Starred) for a in c.args) and any(k.arg is None for k in c.keywords) for c in calls)
        R.check(full, rule, fi.qualname + ":forwards", R.site(fi), "the body is started with (*args, **kwargs)", "the body is not started with the caller's (*args, **kwargs)")


def run(R):
    R.extra["explanation"] = EXPLANATION
    repo = R.repo
    decorator_binds(R, "C17.VALUE-FLOW")
    log = repo.fn("generator.list_of_generator")
    tf = repo.fn("generator.take_first")
    for f in (log, tf):
        end_filter(R, f, "C17.END-FILTER")
        # both iterate the generator itself, forward, one task per iteration
        loops = [n for n in q.scope_nodes(f.node) if isinstance(n, ast.For)]
        R.need(len(loops) == 1, "idiom: %s is not a single loop over the generator" % f.qualname)
        it = loops[0].iter
        gp = q.param_names(f.node)[0]
        okit = q.src(it) in (gp, "enumerate(%s)" % gp)
        R.check(okit, "C17.ORDER", f.qualname, R.site(f, loops[0]), "%s iterates the generator itself, in order" % f.name, "%s iterates `%s`" % (f.name, q.src(it)))
        ys = [x for x in ast.walk(loops[0]) if isinstance(x, ast.Yield)]
        tname = None
        tgt = loops[0].target
        if isinstance(tgt, ast.Name):
            tname = tgt.id
        elif isinstance(tgt, ast.Tuple) and len(tgt.elts) == 2 and isinstance(tgt.elts[1], ast.Name):
            tname = tgt.elts[1].id
        R.check(len(ys) == 1 and q.src(ys[0].value) == tname, "C17.ORDER", f.qualname + ":yield", R.site(f, loops[0]),
                "each task is yielded before the next one is requested", "the loop does not yield each task before requesting the next")
    # ---- BOUND
    cfg = cfg_of(tf)
    params = q.param_names(tf.node)
    R.need(len(params) == 2, "take_first's signature changed")
    npar = params[1]
    lp = [n for n in q.scope_nodes(tf.node) if isinstance(n, ast.For)][0]
    head = kit.one(cfg.nodes_for(lp), "loop header")

    def positive(nd):
        if nd.kind != "test":
            return None
        k, s, pos = q.atom_test(nd.ast)
        if k == "lt" and s == ("0", npar):            # 0 < n
            return "T" if pos else "F"
        if k == "lt" and s == (npar, "1"):            # n < 1
            return "F" if pos else "T"
        if k == "eq" and set(s) == set(["0", npar]):  # n == 0
            return "F" if pos else "T"
        if k == "truth" and s == npar:
            return "T" if pos else "F"
        return None
    p = kit.path_avoiding_guard(cfg, [head], positive, N)
    R.check(p is None, "C17.BOUND", tf.qualname + ":zero", R.site(tf, lp),
            "the loop that advances the generator is reached only when n > 0: take_first(gen, 0) consumes nothing",
            "for n == 0 the loop is entered: the for statement advances the generator before any count test, so take_first(gen, 0) consumes a value "
            "(and returns it, or returns everything if the count test can never be true)", cfg.fmt_path(p) if p else None)
    # counter: enumerate index or len(result)
    counter = None
    if isinstance(lp.iter, ast.Call) and q.call_name(lp.iter) == "enumerate" and isinstance(lp.target, ast.Tuple):
        start = 0
        if len(lp.iter.args) > 1:
            start = q.const_value(lp.iter.args[1])
        for k in lp.iter.keywords:
            if k.arg == "start":
                start = q.const_value(k.value)
        counter = (lp.target.elts[0].id, start)
    elif lp.body and isinstance(lp.body[-1], ast.AugAssign) and isinstance(lp.body[-1].op, ast.Add) and isinstance(lp.body[-1].target, ast.Name) \
            and q.const_value(lp.body[-1].value) == 1:
        # a hand-written enumerate: `pos = c` before the loop, `pos += 1` as the last statement of every iteration, no other store
        cn = lp.body[-1].target.id
        stores = [x for x in q.scope_nodes(tf.node) if isinstance(x, ast.Name) and x.id == cn and isinstance(x.ctx, ast.Store)]
        inits = [v for k_, v in common.assigned_values(tf.node, cn) if k_ == "expr" and isinstance(v, ast.Constant) and isinstance(v.value, int)]
        conts = [x for x in ast.walk(lp) if isinstance(x, ast.Continue)]
        if len(stores) == 2 and len(inits) == 1 and not conts:
            counter = (cn, inits[0].value)
    appends = [n for n, c in kit.call_sites(tf, lambda c: q.attr_call(c)[1] == "append")]
    res = q.dotted(q.attr_call(kit.call_sites(tf, lambda c: q.attr_call(c)[1] == "append")[0][1])[0])

    def bound_test(nd):
        """label of the edge meaning 'n values have been collected' for recognised count tests"""
        if nd.kind != "test":
            return None
        k, s, pos = q.atom_test(nd.ast)
        txt = set(s) if isinstance(s, tuple) else set([s])
        if not any(npar in x.replace("enumerate", "") for x in txt if isinstance(x, str)):
            return None
        ln = "len(%s)" % res
        if counter is not None:
            i, start = counter
            forms_true = []
            if start == 0:
                forms_true = [("eq", frozenset([i, "%s - 1" % npar])), ("eq", frozenset(["%s + 1" % i, npar]))]
            elif start == 1:
                forms_true = [("eq", frozenset([i, npar]))]
            if k == "eq" and (k, frozenset(s)) in forms_true:
                return "T" if pos else "F"
            if k == "lt" and start == 0 and s == ("%s + 1" % i, npar):   # i + 1 < n : not yet
                return "F" if pos else "T"
            if k == "lt" and start == 0 and s == (i, "%s - 1" % npar):
                return "F" if pos else "T"
        if k == "eq" and set(s) == set([ln, npar]):
            return "T" if pos else "F"
        if k == "lt" and s == (ln, npar):            # len(ret) < n : not yet
            return "F" if pos else "T"
        raise AnalysisError("idiom: unrecognised count test `%s` in take_first" % q.src(nd.ast))

    in_loop_ids = set(id(x) for x in ast.walk(lp))
    bts = [n for n in cfg.nodes if n.kind == "test" and id(n.ast) in in_loop_ids and bound_test(n) is not None]
    for a in appends:
        starts = [e.dst for e in cfg.out_edges(a.id, N)]
        p = cfg.find_path(starts, [head], N, cut_nodes=bts)
        R.check(p is None and bts, "C17.BOUND", tf.qualname + ":count", R.site(tf, a.ast),
                "after every collected value a count test equivalent to 'n values collected' is evaluated before the generator is advanced again",
                "after collecting a value the generator can be advanced again without a correct count test (more than n values returned / consumed)",
                cfg.fmt_path(p) if p else None)
    for b in bts:
        lab = bound_test(b)
        starts = [e.dst for e in cfg.out_edges(b.id, N) if e.label == lab]
        p = cfg.find_path(starts, [head], N)
        R.check(p is None, "C17.BREAK", tf.qualname, R.site(tf, b.ast),
                "once n values are collected the loop is left (no further next() on the generator)",
                "after n values the loop can continue and advance the generator again", cfg.fmt_path(p) if p else None)
    rets = [q.src(n.value) for n in q.scope_nodes(tf.node) if isinstance(n, ast.Return) and n.value is not None]
    R.check(all(r == res for r in rets) and rets, "C17.BOUND", tf.qualname + ":returns", R.site(tf), "take_first returns the collected list", "take_first returns %s" % rets)

    # ---- _AsyncGenerator
    ag = repo.cls("generator._AsyncGenerator")
    send = ag.methods.get("send")
    g1 = ag.methods.get("_get_one_value")
    si = ag.methods.get("_send_inner")
    R.need(send is not None and g1 is not None and si is not None, "anchor vanished: _AsyncGenerator.send/_get_one_value/_send_inner")
    scfg = cfg_of(send)
    advances = [n for n, c in kit.call_sites(send, lambda c: q.call_name(c) in ("self._get_one_value", "self.generator.send", "next"))]
    R.need(advances, "idiom: send() no longer advances the underlying generator")
    aliases = set(["self.last_task"])
    for n in q.scope_nodes(send.node):
        if isinstance(n, ast.Assign) and len(n.targets) == 1:
            t = n.targets[0]
            if isinstance(t, ast.Name) and q.src(n.value) == "self.last_task":
                aliases.add(t.id)
            if isinstance(t, ast.Tuple) and isinstance(n.value, ast.Tuple):
                for a, b in zip(t.elts, n.value.elts):
                    if isinstance(a, ast.Name) and q.src(b) == "self.last_task":
                        aliases.add(a.id)

    def prev_done(nd):
        if nd.kind != "test":
            return None
        k, s, pos = q.atom_test(nd.ast)
        if k == "isnone" and s in aliases:
            return "T" if pos else "F"
        if k == "call" and any(s == a + ".is_computed" for a in aliases):
            return "T" if pos else "F"
        return None
    p = kit.path_avoiding_guard(scfg, advances, prev_done, N)
    R.check(p is None, "C17.ADVANCE-GUARD", send.qualname + ":guard", R.site(send),
            "the generator is advanced only when there is no previous task or it is computed",
            "the generator can be advanced while the previously returned task is not computed", scfg.fmt_path(p) if p else None)
    # the not-done side raises RuntimeError
    for g in kit.guard_edges_exist(scfg, prev_done):
        k, s, pos = q.atom_test(g.ast)
        if k != "call":
            continue
        bad = "F" if prev_done(g) == "T" else "T"
        starts = [e.dst for e in scfg.out_edges(g.id, N) if e.label == bad]
        p = scfg.find_path(starts, [scfg.exit] + advances, N)
        rr = [n for n in scfg.nodes if n.kind == "stmt" and isinstance(n.ast, ast.Raise) and n.ast.exc is not None and
              (q.call_name(n.ast.exc) if isinstance(n.ast.exc, ast.Call) else q.dotted(n.ast.exc)) == "RuntimeError"]
        R.check(p is None and rr, "C17.ADVANCE-GUARD", send.qualname + ":raises", R.site(send, g.ast),
                "with an uncomputed previous task send() raises RuntimeError", "with an uncomputed previous task send() does not always raise RuntimeError",
                scfg.fmt_path(p) if p else None)
    # self.last_task is overwritten only after the check passed
    stores = kit.store_nodes(send, "last_task")
    for st in stores:
        p = kit.path_avoiding_guard(scfg, [st], prev_done, N)
        R.check(p is None, "C17.ADVANCE-GUARD", send.qualname + ":forget:" + q.stmt_key(st.ast)[:40], R.site(send, st.ast),
                "self.last_task is replaced only after the previous task was found computed",
                "self.last_task is overwritten before the computed check: when the check fails (RuntimeError) the pending task is already forgotten and a "
                "second premature advance goes through", scfg.fmt_path(p) if p else None)
    # ... and nowhere else: a method that clears the remembered task without that check (a fresh __iter__, a reset) lets the generator
    # be advanced past a task that was handed out and never computed - no RuntimeError, and the body receives None for its await
    gen_cls = send.cls
    for m in gen_cls.methods.values():
        if m is send or m.name == "__init__":
            continue
        for st in kit.store_nodes(m, "last_task"):
            R.violation("C17.ADVANCE-GUARD", "%s:forget:%s" % (m.qualname, q.stmt_key(st.ast)[:40]), R.site(m, st.ast),
                        "%s overwrites self.last_task outside the advance check of %s: a task that was returned and not computed is forgotten, and the next "
                        "advance (a new for loop, take_first, list_of_generator) goes through without the RuntimeError" % (m.qualname, send.name))
    # a new task is remembered
    keep = [st for st in stores if isinstance(st.ast, ast.Assign) and not q.is_none(st.ast.value) and not isinstance(st.ast.value, ast.Tuple)]
    R.check(bool(keep), "C17.ADVANCE-GUARD", send.qualname + ":remember", R.site(send), "the task returned to the caller is remembered in self.last_task",
            "the returned task is not remembered: the next advance cannot check it")
    # STOP-FLAG
    def not_stopped(nd):
        if nd.kind != "test":
            return None
        k, s, pos = q.atom_test(nd.ast)
        if k == "truth" and s == "self.is_stopped":
            return "F" if pos else "T"
        return None
    p = kit.path_avoiding_guard(scfg, advances, not_stopped, N)
    R.check(p is None, "C17.STOP-FLAG", send.qualname, R.site(send),
            "an exhausted generator is not advanced again (send() tests self.is_stopped first)",
            "send() can advance a generator that is already exhausted", scfg.fmt_path(p) if p else None)
    for g in kit.guard_edges_exist(scfg, not_stopped):
        bad = "F" if not_stopped(g) == "T" else "T"
        starts = [e.dst for e in scfg.out_edges(g.id, N) if e.label == bad]
        p = scfg.find_path(starts, [scfg.exit], N)
        R.check(p is None, "C17.STOP-FLAG", send.qualname + ":raises", R.site(send, g.ast), "an exhausted generator keeps raising StopIteration",
                "on an exhausted generator send() can return normally", scfg.fmt_path(p) if p else None)
    gcfg = cfg_of(g1)
    hs = [n for n in gcfg.nodes if n.kind == "except" and q.src(n.ast.type) == "StopIteration"]
    sets = [n for n in kit.store_nodes(g1, "is_stopped") if isinstance(n.ast, ast.Assign) and q.const_value(n.ast.value) is True]
    okf = bool(hs) and bool(sets)
    if okf:
        p = gcfg.find_path(hs, [gcfg.exit, gcfg.raise_exit], N, cut_nodes=sets)
        okf = p is None
        p2 = gcfg.find_path(hs, [gcfg.exit], N)
        okf = okf and p2 is None
    R.check(okf, "C17.STOP-FLAG", g1.qualname, R.site(g1), "on StopIteration the stopped flag is set and the exception is re-raised",
            "on StopIteration the stopped flag is not set on every path, or the exception is swallowed")
    sends = [c for c in q.calls(g1.node) if q.call_name(c) == "self.generator.send"]
    R.check(len(sends) == 1 and q.src(sends[0].args[0]) == q.param_names(g1.node)[1], "C17.VALUE-FLOW", g1.qualname, R.site(g1),
            "_get_one_value sends its argument into the underlying generator", "_get_one_value does not send its argument")
    # a Value that needs no await is delivered as a fresh ConstFuture around the payload object itself (identity, not equality:
    # a memo keyed by the payload would hand back an equal object produced earlier - 1.0 for True, another generator's row)
    scfg_ = cfg_of(send)
    vtests = [n for n in scfg_.nodes if n.kind == "test" and q.atom_test(n.ast)[0] == "isinstance" and q.atom_test(n.ast)[1][1].split(".")[-1] == "Value"]
    R.check(bool(vtests), "C17.VALUE-FLOW", send.qualname + ":kind", R.site(send),
            "send() recognises a ready Value by isinstance(x, Value); everything else the body yields is awaited",
            "send() no longer decides by isinstance(x, Value): a body that awaits a tuple/list/dict of futures or None is treated as having produced a Value")
    for t in vtests:
        k_, s_, pos_ = q.atom_test(t.ast)
        fv = s_[0]
        starts = [e.dst for e in scfg_.out_edges(t.id, N) if e.label == ("T" if pos_ else "F")]
        rets_ = [n for n in scfg_.nodes if n.kind == "stmt" and isinstance(n.ast, ast.Return)]
        good = [n for n in rets_ if isinstance(n.ast.value, ast.Call) and q.call_name(n.ast.value) in ("ConstFuture", "futures.ConstFuture")
                and [q.src(a) for a in n.ast.value.args] == ["%s.value" % fv] and not n.ast.value.keywords]
        p = scfg_.find_path(starts, [scfg_.exit], N, cut_nodes=good)
        R.check(p is None and good, "C17.VALUE-FLOW", send.qualname + ":const", R.site(send, t.ast),
                "a ready Value is delivered as ConstFuture(%s.value): the payload object itself" % fv,
                "a ready Value is not delivered as a fresh ConstFuture(%s.value) on every path (shared / memoised futures confuse payloads that are equal but "
                "not identical)" % fv, scfg_.fmt_path(p) if p else None)
    # VALUE-FLOW in _send_inner
    calls = [c for c in q.calls(si.node) if q.call_name(c) in ("self._get_one_value", "self.generator.send")]
    R.need(len(calls) >= 1 and all(c.args and isinstance(c.args[0], ast.Name) for c in calls) and len(set(c.args[0].id for c in calls)) == 1
           and len(set(q.call_name(c) for c in calls)) == 1,
           "idiom: _send_inner does not advance the generator (_get_one_value / generator.send of <name>) through one kind of call on one variable")
    # every advance is covered by the exhaustion handler: StopIteration leaving a generator-based task becomes RuntimeError (PEP 479), so a
    # body that ends after an await that is not its first one would fail instead of delivering END_OF_GENERATOR
    tries_ = [t for t in ast.walk(si.node) if isinstance(t, ast.Try) and any(
        h.type is None or q.src(h.type).split(".")[-1] in ("StopIteration", "Exception", "BaseException") or
        (isinstance(h.type, ast.Tuple) and any(q.src(e).split(".")[-1] == "StopIteration" for e in h.type.elts)) for h in t.handlers)]
    for c in calls:
        covered = any(any(x is c for st in t.body for x in ast.walk(st)) for t in tries_)
        R.check(covered, "C17.ENDMARK", "%s:advance-covered:%s" % (si.qualname, q.stmt_key(q.enclosing_stmt(c))[:50]), R.site(si, c),
                "this advance of the body is inside the try whose StopIteration handler delivers END_OF_GENERATOR",
                "`%s` advances the body outside the StopIteration handler: when the body ends at this point (after a second or later await behind its "
                "last Value) the StopIteration escapes the coroutine and surfaces as RuntimeError instead of END_OF_GENERATOR" % q.src(c)[:60])
    if q.call_name(calls[0]) == "self.generator.send":
        # the helper written out: then the exhaustion bookkeeping is _send_inner's own business
        sicfg0 = cfg_of(si)
        hs0 = [n for n in sicfg0.nodes if n.kind == "except" and n.ast.type is not None and q.src(n.ast.type) == "StopIteration"]
        sets0 = [n for n in kit.store_nodes(si, "is_stopped") if isinstance(n.ast, ast.Assign) and q.const_value(n.ast.value) is True]
        p0 = sicfg0.find_path(hs0, [sicfg0.exit, sicfg0.raise_exit], N, cut_nodes=sets0) if hs0 else "no handler"
        R.check(p0 is None and sets0, "C17.STOP-FLAG", si.qualname + ":direct-send", R.site(si, calls[0]),
                "_send_inner steps the generator itself and records its exhaustion (is_stopped) in the StopIteration handler",
                "_send_inner steps the generator itself but can leave the StopIteration handler without setting is_stopped: an exhausted generator is advanced again")
    argname = calls[0].args[0].id
    ys = [n for n in q.scope_nodes(si.node) if isinstance(n, ast.Yield)]
    R.need(len(ys) >= 2, "idiom: _send_inner has fewer than two yields")
    for y in ys:
        st = q.enclosing_stmt(y)
        ok = isinstance(st, ast.Assign) and st.value is y and len(st.targets) == 1 and isinstance(st.targets[0], ast.Name) and st.targets[0].id == argname
        R.check(ok, "C17.VALUE-FLOW", "%s:%s" % (si.qualname, q.stmt_key(st)[:50]), R.site(si, y),
                "the result of this yield is what is sent into the generator next (`%s`)" % argname,
                "the result of `%s` is not the value passed to _get_one_value(%s): the body receives a stale result for this await" % (q.stmt_key(st)[:50], argname))
    first = ys[0]
    R.check(q.src(first.value) == q.param_names(si.node)[1], "C17.VALUE-FLOW", si.qualname + ":first", R.site(si, first),
            "the first task yielded is the one handed in", "the first yield is not the handed-in task")
    # END marker only on exhaustion; Values unwrapped
    sicfg = cfg_of(si)
    rets = [n for n in sicfg.nodes if n.kind == "stmt" and isinstance(n.ast, ast.Return)]
    ends = [n for n in rets if q.src(n.ast.value) == "END_OF_GENERATOR"]
    hs = [n for n in sicfg.nodes if n.kind == "except" and n.ast.type is not None and q.src(n.ast.type) == "StopIteration"]
    p = sicfg.find_path([sicfg.entry], ends, N, cut_nodes=hs)
    R.check(p is None and ends and hs, "C17.ENDMARK", si.qualname, R.site(si), "END_OF_GENERATOR is produced only when the underlying generator is exhausted",
            "END_OF_GENERATOR can be produced although the generator is not exhausted (or is never produced)", sicfg.fmt_path(p) if p else None)
    vals = [n for n in rets if n not in ends]
    vname = None
    for n in q.scope_nodes(si.node):
        if isinstance(n, ast.Assign) and n.value is calls[0] and isinstance(n.targets[0], ast.Name):
            vname = n.targets[0].id
    okv = bool(vals) and all(q.src(n.ast.value) == "%s.value" % vname for n in vals)

    def is_value(nd):
        if nd.kind != "test":
            return None
        k, s, pos = q.atom_test(nd.ast)
        if k == "isinstance" and s == (vname, "Value"):
            return "T" if pos else "F"
        return None
    p = kit.path_avoiding_guard(sicfg, vals, is_value, N) if vals else None
    R.check(okv and p is None, "C17.ENDMARK", si.qualname + ":value", R.site(si), "a Value is unwrapped and returned; anything else is awaited",
            "a non-Value item can be returned as a value, or a Value is returned wrapped")
    # first-value probing in send
    fv = [c for c in q.calls(send.node) if q.call_name(c) == "ConstFuture"]
    R.check(len(fv) == 1 and q.src(fv[0].args[0]).endswith(".value"), "C17.ENDMARK", send.qualname + ":first-value", R.site(send),
            "a Value produced immediately is returned as ConstFuture(value)", "an immediately produced Value is not returned as a constant future of its value")
    # printing an async generator (e.g. as a task argument under COLLECT_PERF_STATS) must work in every state
    # ... as long as a failing repr() of a task argument can reach the computation at all: the profiler's task names (to_str) format
    # the arguments with %r; since that formatting sits in a handler covering Exception (fix F22, decided by C20.DIAG-SAFE) a raising
    # __repr__ is a matter of C18 only, and C17 must not alarm about it
    from .c18 import diag_robust
    from ..cfg import ExcHierarchy
    rp = ag.methods.get("__repr__")
    ts_ = R.repo.cls("async_task.AsyncTask").methods.get("to_str")
    contained = False
    if ts_ is not None:
        hier_ = ExcHierarchy(R.repo)
        fm = [n for n in q.scope_nodes(ts_.node) if isinstance(n, ast.BinOp) and isinstance(n.op, ast.Mod) and "self.args" in q.src(n.right)]
        contained = bool(fm) and all(any(kit.handler_covers(h, "Exception", hier_) and not kit.handler_reraises(h) for t in kit.enclosing_try_handlers(n) for h in t.handlers) for n in fm)
    if rp is not None and contained:
        R.ok("C17.REPR", R.site(rp), "the profiler's task names tolerate an argument whose repr() raises: the generator's __repr__ cannot reach a computation (C18 decides its totality)")
    elif rp is not None:
        nrob = diag_robust(R, {rp.qualname: rp}, "C17.REPR")
        fields = ag.fields()
        for recv, attr, node in q.attr_loads(rp.node):
            if recv == "self":
                R.check(attr in fields or ag.find_method(attr) is not None, "C17.REPR", "%s:self.%s" % (rp.qualname, attr), R.site(rp, node),
                        "self.%s is a field of _AsyncGenerator" % attr, "__repr__ reads self.%s, which _AsyncGenerator never defines" % attr)
    # the END marker is compared by identity and a Value by isinstance (subclasses of Value are Values)
    R.require_min("C17.END-FILTER", 4)
    # the payload of a Value is any object - also a future (an unstarted task handed out as data): _send_inner returns it as its task's
    # result, so the path that completes a task with its return value must not look at what kind of object that is.  (asynq.result()
    # asserts that its argument is not a future; mirroring that check where *every* task's return value passes breaks generators.)
    at_ = R.repo.cls("async_task.AsyncTask")
    for mname in ("_queue_exit",):
        m_ = at_.methods.get(mname)
        if m_ is None:
            continue
        ps_ = q.param_names(m_.node)
        rp_ = ps_[1] if len(ps_) > 1 else None
        typed = [x for x in q.scope_nodes(m_.node) if isinstance(x, ast.Call) and q.call_name(x) == "isinstance" and x.args and q.src(x.args[0]) == rp_]
        R.check(not typed, "C17.VALUE-FLOW", m_.qualname + ":untyped", R.site(m_, typed[0]) if typed else R.site(m_),
                "%s accepts any object as a task's result" % mname,
                "%s tests the type of the task's result (`%s`): a Value whose payload is a future, produced after an await, is the result of the generator's inner "
                "task - iteration dies with the failed check, while the same Value before any await is delivered" % (mname, q.src(typed[0])[:60] if typed else ""))
    R.require_min("C17.VALUE-FLOW", 4)


def _safe(fn, n):
    return fn(n)
