"""C07 - context activations nest; scoped overrides read and restore as in sync code."""
import ast

from ..cfg import cfg_of, N, X, ExcHierarchy
from ..roles import Roles
from .. import q, kit
from . import common

EXPLANATION = (
    "Direction, ordering and flow rules: per task, pause hooks run over the insertion-ordered context "
    "map in reverse and resume hooks forward, each hook isolated so one failure does not desynchronise "
    "the others; in both override contexts resume() saves the target's current value before writing the "
    "new one, on every path, and pause() writes the saved value back to the same location; the task "
    "handed to the blocked-task handler is the top of the stack (children are paused and popped before "
    "their parent); contexts register with the current thread's scheduler state; no task/provider/flush "
    "fault crosses a scheduler frame and an escaping exception unwinds the stack."
)


def loop_direction(it, base, fn_node=None):
    """'forward' / 'reverse' / None for an iteration expression over `base` (source text).  With fn_node, a local name that was
    assigned once (a snapshot list put into a variable first) is looked through."""
    def res(e):
        if fn_node is not None and isinstance(e, ast.Name):
            vals = common.assigned_values(fn_node, e.id)
            if len(vals) == 1 and vals[0][0] == "expr":
                return vals[0][1]
        return e
    it = res(it)
    if isinstance(it, ast.Call) and q.call_name(it) == "reversed" and it.args:
        inner = res(it.args[0])
        d_in = loop_direction(inner, base)
        return {"forward": "reverse", "reverse": "forward"}.get(d_in)
    if isinstance(it, ast.Subscript) and q.src(it.slice) == "::-1":
        d_in = loop_direction(res(it.value), base)
        return {"forward": "reverse", "reverse": "forward"}.get(d_in)
    s = q.src(it)
    fw = (base, base + ".values()", "list(%s.values())" % base, "list(%s)" % base, base + ".items()")
    if s in fw:
        return "forward"
    if isinstance(it, ast.Call) and q.call_name(it) == "reversed" and it.args:
        inner = q.src(it.args[0])
        if inner in fw:
            return "reverse"
    if isinstance(it, ast.Subscript) and q.src(it.slice) == "::-1" and q.src(it.value) in fw:
        return "reverse"
    return None


def run(R):
    R.extra["explanation"] = EXPLANATION
    ro = Roles(R)
    repo = R.repo
    at = ro.AsyncTask
    # ---- DIRECTION
    for mname, hook, want in (("_pause_contexts", "pause", "reverse"), ("_resume_contexts", "resume", "forward")):
        m = at.methods.get(mname)
        R.need(m is not None, "anchor vanished: AsyncTask.%s" % mname)
        loops = [n for n in ast.walk(m.node) if isinstance(n, ast.For) and any(q.attr_call(c)[1] == hook for c in q.calls(n))]
        R.need(len(loops) == 1, "idiom: %s does not call ctx.%s() in one loop" % (mname, hook))
        it = loops[0].iter
        if isinstance(it, ast.Name):
            # the sequence was put into a local first
            vals = common.assigned_values(m.node, it.id)
            R.need(len(vals) == 1 and vals[0][0] == "expr", "idiom: the iterated local %s of %s has several definitions" % (it.id, mname))
            local_name = it.id
            it = vals[0][1]
            one_shot = isinstance(it, ast.Call) and q.call_name(it) in ("reversed", "iter", "map", "filter", "zip") or isinstance(it, ast.GeneratorExp)
            if one_shot:
                uses = [x for x in q.scope_nodes(m.node) if isinstance(x, ast.Name) and x.id == local_name and isinstance(x.ctx, ast.Load)]
                R.check(len(uses) == 1, "C07.DIRECTION", m.qualname + ":one-shot", R.site(m, loops[0]),
                        "the one-shot iterator %s is consumed exactly once (by the hook loop)" % local_name,
                        "the one-shot iterator `%s = %s` is used %d times in %s: whatever consumes it first (e.g. a debug dump) leaves the hook loop with nothing - "
                        "no context is %sd" % (local_name, q.src(it)[:40], len(uses), mname, hook))
        d = loop_direction(it, "self._contexts", m.node)
        R.need(d is not None, "idiom: unrecognised iteration `%s` in %s" % (q.src(loops[0].iter), mname))
        R.check(d == want, "C07.DIRECTION", m.qualname, R.site(m, loops[0]),
                "%s hooks run in %s entry order" % (hook, "reverse" if want == "reverse" else ""),
                "%s hooks run in %s entry order: nested save-and-restore contexts of one task restore in the wrong order (whatever was resumed last "
                "must be paused first)" % (hook, d))
    init = at.methods.get("__init__")
    ctor = [n.value for n in ast.walk(init.node) if isinstance(n, ast.Assign) and any(q.src(t) == "self._contexts" for t in n.targets)]
    ok = bool(ctor) and ((isinstance(ctor[0], ast.Call) and q.call_name(ctor[0]) in ("OrderedDict", "collections.OrderedDict", "dict")) or isinstance(ctor[0], ast.Dict))
    R.check(ok, "C07.DIRECTION", "AsyncTask._contexts:ordered", R.site(init),
            "the per-task context map keeps entry order", "the per-task context map does not keep entry order")
    # hook isolation (shared with C06)
    hier = ExcHierarchy(repo)
    for mname, hook in (("_pause_contexts", "pause"), ("_resume_contexts", "resume")):
        m = at.methods[mname]
        lp = [n for n in ast.walk(m.node) if isinstance(n, ast.For) and any(q.attr_call(c)[1] == hook for c in q.calls(n))][0]
        for n, c in kit.call_sites(m, lambda c: q.attr_call(c)[1] == hook and isinstance(q.attr_call(c)[0], ast.Name) and q.attr_call(c)[0].id != "self"):
            trys = [t for t in kit.enclosing_try_handlers(c) if any(t is sub for sub in ast.walk(lp))]
            cov = [h for t in trys[:1] for h in t.handlers if kit.handler_covers(h, "BaseException", hier)]
            R.check(bool(cov), "C07.HOOK-ISOLATION", m.qualname, R.site(m, c),
                    "each ctx.%s() is guarded inside the loop: a failing hook does not leave the remaining contexts un-%sd" % (hook, hook),
                    "the first failing ctx.%s() stops the loop: the remaining contexts are not %sd but will still be %s later - a stale saved value "
                    "is written back" % (hook, hook, "paused" if hook == "resume" else "resumed"))
    # ---- SAVE-RESTORE
    for cname in ("_AsyncScopedValueOverrideContext", "_AsyncPropertyOverrideContext"):
        cls = repo.cls("scoped_value." + cname)
        res, pau = cls.methods.get("resume"), cls.methods.get("pause")
        R.need(res is not None and pau is not None, "anchor vanished: %s.resume/pause" % cls.qualname)
        rcfg = cfg_of(res)
        # save: self._old_value = <read of target>;  set: <write of target> = self._value
        saves, sets = [], []
        slot = None

        def target_read(v):
            s_ = q.src(v)
            return s_.startswith("self._target.") or s_.startswith("getattr(self._target")
        def reads_target(v):
            if target_read(v):
                return True
            # a local that only ever holds a read of the target (`current = getattr(self._target, ...)`)
            if isinstance(v, ast.Name):
                vals_ = common.assigned_values(res.node, v.id)
                return bool(vals_) and all(k_ == "expr" and target_read(x_) for k_, x_ in vals_)
            return False

        def read_src(v):
            if isinstance(v, ast.Name):
                vals_ = common.assigned_values(res.node, v.id)
                return q.src(vals_[0][1]) if vals_ else q.src(v)
            return q.src(v)
        for n in rcfg.nodes:
            if n.kind != "stmt":
                continue
            a = n.ast
            if isinstance(a, ast.Assign) and len(a.targets) == 1 and isinstance(a.targets[0], ast.Attribute) and q.dotted(a.targets[0].value) == "self" \
                    and reads_target(a.value):
                slot = a.targets[0].attr if slot in (None, a.targets[0].attr) else slot
                saves.append((n, read_src(a.value)))
            elif isinstance(a, ast.Assign) and q.src(a.value) == "self._value" and any(q.src(t).startswith("self._target") for t in a.targets):
                sets.append((n, q.src(a.targets[0])))
            elif isinstance(a, ast.Expr) and isinstance(a.value, ast.Call) and q.call_name(a.value) == "setattr" and len(a.value.args) == 3 \
                    and q.src(a.value.args[2]) == "self._value":
                sets.append((n, "getattr(%s, %s)" % (q.src(a.value.args[0]), q.src(a.value.args[1]))))
        slot_src = "self.%s" % slot
        site = R.site(res)
        if sets and not saves:
            # nothing in resume() reads the target at all: there is no form of "save" to recognise
            reads = [x for x in q.scope_nodes(res.node) if isinstance(x, (ast.Attribute, ast.Name)) and isinstance(getattr(x, "ctx", None), ast.Load)
                     and q.src(x).startswith("self._target") and not any(isinstance(p_, ast.Attribute) and p_.value is x and isinstance(p_.ctx, ast.Store)
                                                                         for p_ in ast.walk(res.node))]
            reads = [x for x in reads if q.src(x) != "self._target" or any(isinstance(c_, ast.Call) and q.call_name(c_) == "getattr" and c_.args and c_.args[0] is x
                                                                           for c_ in ast.walk(res.node))]
            if not reads:
                R.violation("C07.SAVE-RESTORE", cls.qualname + ".resume:save-all-paths", site,
                            "resume() establishes the override without reading the target's current value (the value pause() restores was captured at "
                            "some other time, e.g. when the context was created): what another task assigned to the target while this one was suspended "
                            "is overwritten with the stale value when this one is paused or leaves its block")
                continue
        R.need(saves and sets, "idiom: %s.resume does not save/set in the recognised forms" % cls.qualname)
        p = rcfg.find_path([rcfg.entry], [rcfg.exit], N, cut_nodes=[n for n, _ in saves])
        R.check(p is None, "C07.SAVE-RESTORE", cls.qualname + ".resume:save-all-paths", site,
                "resume() saves the target's current value on every path",
                "resume() can return without saving the target's current value, while pause() still writes the saved slot back: the enclosing "
                "override's value is replaced by a stale one", rcfg.fmt_path(p) if p else None)
        p = rcfg.find_path([rcfg.entry], [rcfg.exit], N, cut_nodes=[n for n, _ in sets])
        R.check(p is None, "C07.SAVE-RESTORE", cls.qualname + ".resume:set-all-paths", site,
                "resume() establishes the override's value on every path", "resume() can return without establishing the override's value",
                rcfg.fmt_path(p) if p else None)
        p = rcfg.find_path([rcfg.entry], [n for n, _ in sets], N, cut_nodes=[n for n, _ in saves])
        R.check(p is None, "C07.SAVE-RESTORE", cls.qualname + ".resume:order", site,
                "the old value is read before the new one is written", "resume() can overwrite the target before saving its value",
                rcfg.fmt_path(p) if p else None)
        # the saved expression reads the location that is written
        loc_w = sets[0][1]
        loc_r = saves[0][1]
        R.check(loc_r == loc_w, "C07.SAVE-RESTORE", cls.qualname + ".resume:location", site,
                "the saved value is read from the location that is overridden (%s)" % loc_w,
                "resume() saves %s but overrides %s" % (loc_r, loc_w))
        # pause writes the saved slot back to the same location, on every path
        pcfg = cfg_of(pau)
        rest = []
        for n in pcfg.nodes:
            if n.kind != "stmt":
                continue
            a = n.ast
            if isinstance(a, ast.Assign) and q.src(a.value) == slot_src:
                rest.append((n, q.src(a.targets[0])))
            elif isinstance(a, ast.Expr) and isinstance(a.value, ast.Call) and q.call_name(a.value) == "setattr" and len(a.value.args) == 3 \
                    and q.src(a.value.args[2]) == slot_src:
                rest.append((n, "getattr(%s, %s)" % (q.src(a.value.args[0]), q.src(a.value.args[1]))))
        p = pcfg.find_path([pcfg.entry], [pcfg.exit], N, cut_nodes=[n for n, _ in rest])
        R.check(p is None and rest and all(loc == loc_w for _, loc in rest), "C07.SAVE-RESTORE", cls.qualname + ".pause", R.site(pau),
                "pause() writes the saved value back to the overridden location on every path",
                "pause() does not restore the saved value to the overridden location on every path", pcfg.fmt_path(p) if p else None)
    # ---- TOP-ONLY
    drain = ro.drain_method()
    hm = ro.handle_task_method()
    sf = ro.stack_field()
    for n, c in ro.calls_to(drain, [hm]):
        arg = c.args[0] if c.args else None
        vals = common.assigned_values(drain.node, arg.id) if isinstance(arg, ast.Name) else []
        ok = bool(vals) and all(k == "expr" and q.src(v) == "self.%s[-1]" % sf for k, v in vals)
        R.check(ok, "C07.TOP-ONLY", drain.qualname, R.site(drain, c),
                "the task handed to the blocked-task handler is the top of the stack (a parent is paused only after its children were popped)",
                "the handled task is not the top of the stack")
    # ---- registration with this thread's scheduler (shared with C06.REGISTER)
    ec = repo.fn("contexts.enter_context")
    has_global = any(isinstance(n, (ast.Global, ast.Nonlocal)) for n in ast.walk(ec.node))
    reads = [q.src(n) for d, a, n in q.attr_loads(ec.node) if a == "active_task"]
    fresh = any(("_state.current" in s or "get_scheduler()" in s) for s in reads) or any((q.call_name(c) or "").endswith("get_active_task") for c in q.calls(ec.node))
    R.check(fresh and not has_global, "C07.REGISTER", ec.qualname, R.site(ec),
            "enter_context reads the active task of the thread's current scheduler at call time",
            "enter_context uses a cached scheduler/global: an override entered under another scheduler (another thread, or after scheduler.reset()) "
            "is not registered, hence not paused when its task blocks, and leaks into sibling tasks")
    # leaving the with-block always pauses (restores the override), also by result()/GeneratorExit; contexts are only attached to
    # the task that is really running
    from .c06 import enter_exit_rules
    enter_exit_rules(R, "C07")
    from .c08 import active_own
    active_own(R, ro, "C07.ACTIVE-OWN")
    common.active_task_pair(R, ro, "C07.ACTIVE-PAIR")
    # ---- ESCAPE / UNWIND
    common.escape_rule(R, ro, "C07.ESCAPE", ("step", "provider", "flush"), "otherwise suspended tasks keep their overrides active")
    common.unwind_rule(R, ro, "C07.UNWIND")
    # a task that stays in the computation after an unwind (the executing one and those below it) with a stale flag is taken for
    # "blocked, dependencies already scheduled": its contexts are paused and resumed underneath the executing task's override
    common.unwind_flag_reset(R, ro, "C07.UNWIND-FLAG")
    common.call_with_context_rule(R, "C07.DIRECTION")
    R.require_min("C07.DIRECTION", 3)
    R.require_min("C07.SAVE-RESTORE", 10)
