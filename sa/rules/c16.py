"""C16 - computations on different threads never interfere."""
import ast

from ..cfg import cfg_of, N
from ..roles import Roles
from .. import q, kit
from . import common

EXPLANATION = (
    "Exhaustive shared-state inventory of the package: every module-level binding, class-level binding "
    "and `global`-declared write in asynq/*.py is classified (immutable constant/marker, alias, "
    "function/class, logger, ContextVar, instance of a threading.local subclass, configuration, mutable); "
    "every mutable one must be thread-local, context-local, keyed by the calling thread, never mutated, "
    "or in the exemption table with its reason; threading.local holders initialise their per-thread "
    "fields in __init__ and have no class-level mutable attribute; no scheduler object obtained from the "
    "thread-local holder is cached in an object field or module global (it must be looked up on the "
    "thread that uses it); the accessors reach their state only through the holders; the deduplication "
    "key contains the calling thread evaluated per call."
)

EXEMPT = {
    "_debug.options": "process-wide debug configuration object (documented as such; C20 decides that it cannot change behaviour)",
    "debug.options": "alias of _debug.options",
    "debug.original_hook": "excepthook bookkeeping of attach/detach_exception_hook (process-wide by nature: sys.excepthook is process-wide)",
    "debug.is_attached": "excepthook bookkeeping (process-wide by nature)",
    "debug._use_original_exc_handler": "display switch for the process-wide exception hook",
    "debug._should_filter_traceback": "display switch for traceback formatting",
    "debug._use_syntax_highlighting": "display switch for traceback formatting",
    "tools.DeduplicateDecorator.tasks": "in-flight table keyed by (key, thread, function): the thread component is decided by C16.DEDUP-KEY",
    "futures.none_future": "ConstFuture(None): complete from construction, sinking event hook, never reset by the package",
}
MUTATORS = ("append", "extend", "insert", "pop", "remove", "clear", "update", "setdefault", "add", "discard", "popitem", "sort", "reverse", "__setitem__", "__delitem__")


def classify_value(R, module, v):
    repo = R.repo
    if v is None:
        return "immutable", "annotation only"
    if isinstance(v, ast.Constant):
        return "immutable", "constant"
    if isinstance(v, ast.JoinedStr):
        return "immutable", "string"
    if isinstance(v, ast.Tuple) and all(classify_value(R, module, e)[0] in ("immutable", "alias", "function") for e in v.elts):
        return "immutable", "tuple of immutables"
    if isinstance(v, (ast.Lambda,)):
        return "function", "lambda"
    if isinstance(v, (ast.Name, ast.Attribute)):
        return "alias", "alias of %s" % q.src(v)
    if isinstance(v, (ast.List, ast.Dict, ast.Set, ast.ListComp, ast.DictComp, ast.SetComp)):
        return "mutable", "container literal"
    if isinstance(v, ast.Subscript):
        return "alias", "type alias / subscript %s" % q.src(v)[:30]
    if isinstance(v, ast.Call):
        nm = q.call_name(v) or ""
        last = nm.split(".")[-1]
        if last == "MarkerObject":
            return "immutable", "marker object"
        if nm in ("logging.getLogger",):
            return "logger", "logger (thread-safe by the standard library)"
        if last == "ContextVar":
            dflt = [k.value for k in v.keywords if k.arg == "default"]
            if dflt and classify_value(R, module, dflt[0])[0] not in ("immutable", "function", "alias"):
                # the default object is handed to every context (and every thread) that never called set()
                return "mutable", "ContextVar whose default is a mutable object (%s): the one default object is shared by all threads" % q.src(dflt[0])[:30]
            return "contextvar", "context-local variable"
        if nm in ("tuple", "frozenset") and not v.args:
            return "immutable", "empty %s" % nm
        if nm in ("dict", "list", "set", "collections.OrderedDict", "OrderedDict", "collections.defaultdict"):
            return "mutable", "%s()" % nm
        r = repo.resolve_dotted(module, nm) if nm else None
        if r is not None and r[0] == "class":
            c = r[1]
            if "threading.local" in c.ext_bases():
                return "tls", "instance of %s (threading.local subclass)" % c.qualname
            if c.qualname == "_debug.DebugOptions":
                return "config", "debug options object"
            if c.qualname == "futures.ConstFuture":
                return "mutable", "ConstFuture instance"
            return "mutable", "instance of %s" % c.qualname
        if r is not None and r[0] == "func":
            return "mutable", "result of %s()" % nm
        if nm in ("TypeVar", "typing.TypeVar", "NewType"):
            return "immutable", "typing construct"
        return "mutable", "result of external call %s()" % nm
    if isinstance(v, (ast.BinOp, ast.Compare, ast.BoolOp, ast.UnaryOp, ast.IfExp)):
        return "immutable", "expression over immutables"
    return "mutable", "unclassified expression %s" % type(v).__name__


def module_level_stmts(tree):
    """Assign/AnnAssign/AugAssign statements executed at import time (descending into if/try/with)."""
    out = []
    stack = list(tree.body)
    while stack:
        s = stack.pop(0)
        if isinstance(s, (ast.Assign, ast.AnnAssign, ast.AugAssign)):
            out.append(s)
        elif isinstance(s, (ast.If, ast.Try, ast.With)):
            for fld in ("body", "orelse", "finalbody"):
                stack = list(getattr(s, fld, [])) + stack
            for h in getattr(s, "handlers", []):
                stack = list(h.body) + stack
    return out


def mutated_anywhere(R, module, name):
    """Is the module-level name `name` mutated (rebinding through `global`, item stores, mutating
    method calls) anywhere in the package?"""
    for f in R.repo.all_functions():
        refs = [name] if f.module is module else []
        # other modules reach it as <module>.<name>
        for local, imp in f.module.imports.items():
            if imp[0] == "name" and imp[1] == "asynq" and imp[2] == module.name:
                refs.append("%s.%s" % (local, name))
            if imp[0] == "name" and imp[1] == "asynq." + module.name and imp[2] == name:
                refs.append(local)
        if not refs:
            continue
        for n in q.scope_nodes(f.node):
            if isinstance(n, ast.Global) and name in n.names and f.module is module:
                for m in q.scope_nodes(f.node):
                    if isinstance(m, ast.Name) and isinstance(m.ctx, ast.Store) and m.id == name:
                        return "rebound via `global` in %s" % f.qualname
            if isinstance(n, ast.Subscript) and isinstance(n.ctx, (ast.Store, ast.Del)) and q.dotted(n.value) in refs:
                return "item store in %s" % f.qualname
            if isinstance(n, ast.Call) and q.attr_call(n)[1] in MUTATORS and q.dotted(q.attr_call(n)[0]) in refs:
                return "%s() in %s" % (q.attr_call(n)[1], f.qualname)
            if isinstance(n, ast.Attribute) and isinstance(n.ctx, ast.Store) and q.dotted(n.value) in refs:
                return "attribute store in %s" % f.qualname
            # the object escapes into a field of another object (self.hook = _shared_hook): whoever holds that object can change it -
            # an event hook subscribed to through one thread's scheduler is the same hook for every thread's scheduler
            if isinstance(n, ast.Assign) and isinstance(n.value, ast.Name) and n.value.id in refs and any(isinstance(t, ast.Attribute) for t in n.targets):
                return "handed out as %s in %s (anything done to that field is done to the one shared object)" % (q.src([t for t in n.targets if isinstance(t, ast.Attribute)][0]), f.qualname)
    return None


def shared_default_objects(R, rule):
    """A default argument is evaluated once, when the function is defined: an object constructed there (an exception instance, a
    container, a future) is one process-wide object handed to every call on every thread.  asynq records per-computation state on
    such objects (on exceptions: _task, _traceback), so threads would see each other's tasks."""
    n = 0
    for f in R.repo.all_functions():
        if f.module.name.startswith("tests"):
            continue
        a = f.node.args
        pos = a.posonlyargs + a.args
        pairs = list(zip(pos[len(pos) - len(a.defaults):], a.defaults)) + [(p_, d_) for p_, d_ in zip(a.kwonlyargs, a.kw_defaults) if d_ is not None]
        for p_, d_ in pairs:
            n += 1
            built = isinstance(d_, ast.Call) and (q.call_name(d_) or "").split(".")[-1] not in ("object", "frozenset", "tuple", "MarkerObject")
            R.check(not built, rule, "%s:default:%s" % (f.qualname, p_.arg), R.site(f, d_),
                    "the default of %s is not an object built when the function is defined" % p_.arg,
                    "the default of `%s` is `%s`, evaluated once at import: every call that omits the argument - on every thread - gets the same object "
                    "(for an exception: asynq stamps _task/_traceback on it, a handler in one thread sees the failed task and frames of another thread's "
                    "computation)" % (p_.arg, q.src(d_)))
    R.check(n >= 20, rule, "defaults", "asynq/", "%d parameter defaults examined" % n, "fewer than 20 parameter defaults found (%d)" % n)


LOCK_TYPES = ("Lock", "RLock", "Semaphore", "BoundedSemaphore", "Condition", "Event", "Barrier")


def process_wide_locks(R, rule):
    """A synchronisation object bound at module or class level is shared by all threads.  Held while user code runs (a flush body, a
    flush hook, a task step, anything that can wait for another thread) it makes one thread's computation wait for another's - or for
    ever, when that other computation needs a flush of its own: the threads are no longer independent."""
    repo = R.repo
    n = 0
    for mname, m in sorted(repo.modules.items()):
        if mname.startswith("tests"):
            continue
        locks = set()
        for targets, value, node in repo.module_assigns(m):
            if isinstance(value, ast.Call) and (q.call_name(value) or "").split(".")[-1] in LOCK_TYPES:
                locks.update(targets)
        for c in m.classes.values():
            for aname, anode in c.class_assigns.items():
                if isinstance(anode.value, ast.Call) and (q.call_name(anode.value) or "").split(".")[-1] in LOCK_TYPES:
                    locks.add(aname)
        if not locks:
            continue
        for f in m.all_functions.values():
            for w in [x for x in q.scope_nodes(f.node) if isinstance(x, (ast.With, ast.AsyncWith))]:
                held = [q.src(i.context_expr) for i in w.items if q.src(i.context_expr).split(".")[-1] in locks]
                if not held:
                    continue
                n += 1
                user = [c_ for st in w.body for c_ in q.calls(st)
                        if q.attr_call(c_)[1] in ("flush", "_flush", "_compute", "_continue", "value", "wait_for", "get_priority", "pause", "resume", "send", "throw")
                        or (q.attr_call(c_)[1] or "").startswith("on_") or (q.call_name(c_) or "").startswith("self.on_")]
                R.check(not user, rule, "%s:holds:%s" % (f.qualname, held[0]), R.site(f, w),
                        "the process-wide %s is not held while user code runs" % held[0],
                        "%s runs `%s` while holding %s, a lock shared by all threads: a flush that is slow, or that waits for another thread's computation "
                        "(which needs a flush of its own), stalls or deadlocks the other threads - a computation no longer behaves as when it runs alone"
                        % (f.qualname, q.src(user[0])[:40] if user else "", held[0]))
    if not n:
        R.ok(rule, "asynq/", "no function holds a module- or class-level synchronisation object")


def shared_table_not_iterated(R, rule):
    """The deduplication table is one dict for all threads (entries are keyed by thread).  Keyed access to one's own entries is safe;
    walking the whole dict (a loop, a comprehension, list()/sorted() over it or over its keys()/items()/values()) is not: another
    thread inserting or removing its own entry in the middle raises 'dictionary changed size during iteration' in the walking thread."""
    dd = R.repo.cls("tools.DeduplicateDecorator")
    n = 0
    for f in R.repo.all_functions():
        if f.module.name.startswith("tests"):
            continue
        for x in q.scope_nodes(f.node):
            its = []
            if isinstance(x, ast.For):
                its = [x.iter]
            elif isinstance(x, (ast.ListComp, ast.SetComp, ast.DictComp, ast.GeneratorExp)):
                its = [g.iter for g in x.generators]
            elif isinstance(x, ast.Call) and q.call_name(x) in ("list", "tuple", "sorted", "set", "len", "any", "all", "sum", "max", "min") and x.args:
                its = [x.args[0]] if q.call_name(x) != "len" else []
            for it in its:
                base = it
                if isinstance(base, ast.Call) and q.attr_call(base)[1] in ("keys", "values", "items", "copy"):
                    base = q.attr_call(base)[0]
                if isinstance(base, ast.Attribute) and base.attr == "tasks" and isinstance(base.value, ast.Name) and base.value.id in ("self", "cls", dd.name):
                    if f.cls is not None and (f.cls is dd or f.cls.is_subclass_of(dd)) or base.value.id == dd.name:
                        n += 1
                        R.violation(rule, "%s:iterates-table" % f.qualname, R.site(f, x),
                                    "%s walks the table of tasks in flight (`%s`), which all threads share: a thread that adds or removes its own entry meanwhile makes "
                                    "the walk raise RuntimeError('dictionary changed size during iteration') - a call fails only because other threads are "
                                    "running" % (f.qualname, q.src(it)[:40]))
    if not n:
        R.ok(rule, R.site(dd.module, dd.node), "the shared table of tasks in flight is only accessed by key")


def deferred_callbacks_and_tls(R, rule):
    """A callback handed to weakref.finalize / weakref.ref / atexit.register runs later, on whichever thread happens to drop the last
    reference (or at interpreter exit) - not on the thread that registered it.  If it reads a threading.local holder it sees that
    other thread's state: it acts on the wrong thread's batches, tasks or scheduler."""
    repo = R.repo
    n = 0
    for mname, m in sorted(repo.modules.items()):
        if mname.startswith("tests"):
            continue
        tls = set()
        for targets, value, node in repo.module_assigns(m):
            if isinstance(value, ast.Call):
                r = repo.resolve_dotted(m, q.call_name(value) or "")
                if r and r[0] == "class" and "threading.local" in r[1].ext_bases():
                    tls.update(targets)
        for f in m.all_functions.values():
            for c in q.calls(f.node):
                nm = q.call_name(c) or ""
                cb = None
                if nm in ("weakref.finalize", "finalize") and len(c.args) >= 2:
                    cb = c.args[1]
                elif nm in ("weakref.ref", "weakref.proxy") and len(c.args) >= 2:
                    cb = c.args[1]
                elif nm in ("atexit.register",) and c.args:
                    cb = c.args[0]
                if cb is None:
                    continue
                n += 1
                body = None
                if isinstance(cb, ast.Lambda):
                    body = cb
                elif isinstance(cb, ast.Name):
                    tgt = m.functions.get(cb.id) or (f.nested.get(cb.id) if hasattr(f, "nested") else None) or (f.parent.nested.get(cb.id) if f.parent is not None else None)
                    body = tgt.node if tgt is not None else None
                reads = sorted(set(x.id for x in ast.walk(body) if isinstance(x, ast.Name) and x.id in tls)) if body is not None else []
                R.check(not reads, rule, "%s:callback:%s" % (f.qualname, q.src(cb)[:30]), R.site(f, c),
                        "the deferred callback `%s` reads no thread-local holder" % q.src(cb)[:30],
                        "the callback `%s` registered by %s runs on whichever thread drops the last reference, and reads the thread-local holder %s there: it "
                        "acts on that thread's state (cancels its pending batches, ...) instead of the registering thread's" % (q.src(cb)[:30], f.qualname, ", ".join(reads)))
    if not n:
        R.ok(rule, "asynq/", "no deferred callback (weakref / atexit) is registered")


def run(R):
    R.extra["explanation"] = EXPLANATION
    deferred_callbacks_and_tls(R, "C16.STATE")
    ro = Roles(R)
    repo = R.repo
    shared_default_objects(R, "C16.STATE")
    process_wide_locks(R, "C16.STATE")
    shared_table_not_iterated(R, "C16.STATE")
    n_bind = 0
    classes_count = {}
    for mname, m in sorted(repo.modules.items()):
        if mname == "__init__":
            continue
        for st in module_level_stmts(m.tree):
            n_bind += 1
            site = R.site(m, st)
            if isinstance(st, ast.AugAssign):
                tgts, val = [st.target], None
            elif isinstance(st, ast.AnnAssign):
                tgts, val = [st.target], st.value
            else:
                tgts, val = st.targets, st.value
            for t in tgts:
                tsrc = q.src(t)
                # globals()["x"] = x  -> alias of the preceding binding
                if isinstance(t, ast.Subscript) and q.src(t.value) == "globals()":
                    R.ok("C16.STATE", site, "%s re-exports an existing binding" % tsrc)
                    continue
                if isinstance(t, ast.Attribute):
                    base = q.dotted(t.value) or ""
                    qual = "%s.%s" % (mname, base.split(".")[0])
                    if qual in EXEMPT or "%s.%s" % (mname, base) in EXEMPT:
                        R.ok("C16.STATE", site, "%s: configuration store (%s)" % (tsrc, EXEMPT.get(qual, "")[:60]))
                    else:
                        r = repo.resolve_dotted(m, base)
                        if r is not None and r[0] in ("func", "class"):
                            R.ok("C16.STATE", site, "%s: attribute on a function/class object set once at import" % tsrc)
                        else:
                            R.violation("C16.STATE", "%s:%s" % (mname, tsrc), site, "import-time attribute store %s on an unclassified object" % tsrc)
                    continue
                if not isinstance(t, ast.Name):
                    R.ok("C16.STATE", site, "%s: destructuring of immutables" % tsrc)
                    continue
                qual = "%s.%s" % (mname, t.id)
                kind, why = classify_value(R, m, val)
                classes_count[kind] = classes_count.get(kind, 0) + 1
                if kind in ("immutable", "function", "logger", "contextvar", "tls", "alias"):
                    # an immutable value can still be rebound through `global`: then the *binding* is shared state
                    mut = mutated_anywhere(R, m, t.id)
                    if mut and mut.startswith("rebound") and qual not in EXEMPT:
                        R.violation("C16.STATE", qual, site,
                                    "module-level name %s is %s: a process-wide variable written at run time, shared by all threads" % (qual, mut))
                    elif mut and kind == "alias" and qual not in EXEMPT and not _alias_of_exempt(m, val):
                        R.violation("C16.STATE", qual, site, "module-level alias %s is mutated (%s): shared between threads" % (qual, mut))
                    else:
                        R.ok("C16.STATE", site, "%s: %s (%s)%s" % (qual, kind, why, " - exempt: " + EXEMPT[qual][:50] if qual in EXEMPT else ""))
                elif kind == "config":
                    R.check(qual in EXEMPT, "C16.STATE", qual, site, "%s: %s" % (qual, EXEMPT.get(qual, "")), "configuration object %s is not in the exemption table" % qual)
                else:
                    if qual in EXEMPT:
                        R.ok("C16.STATE", site, "%s: mutable (%s) - exempt: %s" % (qual, why, EXEMPT[qual]))
                        continue
                    mut = mutated_anywhere(R, m, t.id)
                    R.check(mut is None, "C16.STATE", qual, site,
                            "%s: %s, never mutated anywhere in the package (constant by usage)" % (qual, why),
                            "module-level %s (%s) is mutated (%s) and is neither thread-local, context-local nor thread-keyed: every thread sees and changes the same object"
                            % (qual, why, mut))
        # class-level bindings
        for c in m.classes.values():
            for aname, anode in c.class_assigns.items():
                n_bind += 1
                val = anode.value
                qual = "%s.%s" % (c.qualname, aname)
                site = R.site(m, anode)
                kind, why = classify_value(R, m, val)
                if kind == "mutable":
                    if qual in EXEMPT:
                        R.ok("C16.STATE", site, "%s: class-level %s - exempt: %s" % (qual, why, EXEMPT[qual]))
                    else:
                        tl = "threading.local" in c.ext_bases()
                        R.violation("C16.STATE", qual, site,
                                    "class-level mutable attribute %s (%s)%s: one object shared by every instance - and therefore by every thread%s"
                                    % (qual, why, " on a threading.local subclass" if tl else "",
                                       "; per-thread state must be created in __init__, which threading.local runs once per thread" if tl else ""))
                else:
                    # immutable default shadowed by instance assignment is fine, but on a threading.local holder a class-level
                    # default that is *rebound* on the instance per thread is also fine; only mutation through the class is shared
                    R.ok("C16.STATE", site, "%s: class-level %s (%s)" % (qual, kind, why))
    R.units["bindings_classified"] = n_bind
    R.units["kinds"] = classes_count
    R.need(n_bind >= 60, "fewer module/class-level bindings than confirmed by hand (%d < 60)" % n_bind)
    # global-declared writes whose target has no module-level binding at all
    for f in repo.all_functions():
        for n in q.scope_nodes(f.node):
            if isinstance(n, ast.Global):
                for nm in n.names:
                    qual = "%s.%s" % (f.module.name, nm)
                    written = any(isinstance(x, ast.Name) and isinstance(x.ctx, ast.Store) and x.id == nm for x in q.scope_nodes(f.node))
                    if written:
                        R.check(qual in EXEMPT, "C16.GLOBAL-WRITE", "%s:%s" % (f.qualname, nm), R.site(f, n),
                                "`global %s` write in %s: %s" % (nm, f.name, EXEMPT.get(qual, "")),
                                "%s rebinds the module-level name %s at run time: process-wide state written from whichever thread gets there first" % (f.qualname, qual))
    # ---- HOLDERS
    holders = [c for c in repo.all_classes() if "threading.local" in c.ext_bases()]
    holder_role_rules(R, "C16.HOLDER")
    for c in holders:
        init = c.methods.get("__init__")
        fields = set()
        for mth in c.methods.values():
            for recv, attr, node in q.attr_stores(mth.node):
                if recv == "self":
                    fields.add(attr)
        used = set()
        for f in repo.all_functions():
            if f.cls is c:
                continue
            for d, a, n in q.attr_loads(f.node) + [(x[0], x[1], x[2]) for x in q.attr_stores(f.node)]:
                if d is None:
                    continue
        init_fields = set(a for r_, a, n in (q.attr_stores(init.node) if init else []) if r_ == "self")
        # fields initialised through a method called from __init__ (LocalTaskSchedulerState.reset)
        if init:
            for call in q.calls(init.node):
                rcv, nm = q.attr_call(call)
                if rcv is not None and q.dotted(rcv) == "self" and nm in c.methods:
                    init_fields |= set(a for r_, a, n in q.attr_stores(c.methods[nm].node) if r_ == "self")
        R.check(init is not None and fields <= init_fields, "C16.HOLDER", c.qualname, R.site(c.module, c.node),
                "%s is a threading.local subclass whose per-thread fields %s are created in __init__ (run once per thread)" % (c.name, sorted(fields)),
                "%s: fields %s are not created in __init__ - they are not per-thread" % (c.name, sorted(fields - init_fields)))
        # no __slots__ (nor any other data descriptor) for the per-thread fields: threading.local keeps per-thread values in a
        # per-thread __dict__; a slot of a threading.local subclass is ONE cell shared by all threads
        slots = [k for k in c.class_assigns if k == "__slots__"]
        R.check(not slots, "C16.HOLDER", c.qualname + ":slots", R.site(c.module, c.node),
                "%s does not declare __slots__ (its fields live in the per-thread dict)" % c.name,
                "%s declares __slots__: slot attributes of a threading.local subclass are shared by every thread, while __init__ still runs for each "
                "thread's first access - each new thread replaces the others' scheduler" % c.name)
        instances = [(t, mm) for mm in repo.modules.values() for t, v, n in repo.module_assigns(mm) if isinstance(v, ast.Call) and
                     (repo.resolve_dotted(mm, q.call_name(v) or "") or (None, None))[1] is c]
        R.check(bool(instances), "C16.HOLDER", c.qualname + ":instance", R.site(c.module, c.node), "one module-level instance holds the state", "no module-level instance of %s" % c.name)
    # ---- NO-CACHE: the thread's scheduler is looked up at the point of use
    sched_sources = ("get_scheduler()", "_state.current")
    for f in repo.all_functions():
        for n in q.scope_nodes(f.node):
            if isinstance(n, ast.Assign):
                vs = q.src(n.value)
                if any(vs.endswith(s_) or (s_ + ")") in vs for s_ in sched_sources) and (vs.endswith("get_scheduler()") or vs.endswith("_state.current")):
                    for t in n.targets:
                        is_field = isinstance(t, ast.Attribute)
                        is_global = isinstance(t, ast.Name) and any(isinstance(g, ast.Global) and t.id in g.names for g in q.scope_nodes(f.node))
                        if f.cls is not None and f.cls.qualname == "scheduler.LocalTaskSchedulerState":
                            continue
                        R.check(not (is_field or is_global), "C16.NO-CACHE", "%s:%s" % (f.qualname, q.stmt_key(n)), R.site(f, n),
                                "%s keeps the scheduler in a local only" % f.name,
                                "%s stores the thread's scheduler in %s: it will be used later from whichever thread touches the object, not necessarily the one it "
                                "belongs to (tasks then run on another thread's scheduler)" % (f.qualname, q.src(t)))
    # every wait_for / active_task access goes through a fresh lookup
    for f in repo.all_functions():
        if f.cls is not None and f.cls.qualname == "scheduler.TaskScheduler":
            continue
        for c in q.calls(f.node):
            if q.attr_call(c)[1] == "wait_for":
                recv = q.src(q.attr_call(c)[0])
                ok = recv.endswith("get_scheduler()") or recv.endswith("_state.current")
                if not ok and isinstance(q.attr_call(c)[0], ast.Name):
                    vals = common.assigned_values(f.node, recv)
                    ok = bool(vals) and all(k == "expr" and (q.src(v).endswith("get_scheduler()") or q.src(v).endswith("_state.current")) for k, v in vals)
                R.check(ok, "C16.NO-CACHE", "%s:wait_for" % f.qualname, R.site(f, c),
                        "wait_for is called on the scheduler looked up in this call (%s)" % recv,
                        "wait_for is called on `%s`, not on the scheduler of the thread making the call" % recv)
    R.require_min("C16.NO-CACHE", 1)
    # ---- ACCESS
    from .c08 import getters
    getters(R, ro)
    pm = repo.modules["profiler"]
    for fn in ("flush", "append", "reset", "incr_counter"):
        f = pm.functions.get(fn)
        R.need(f is not None, "anchor vanished: profiler.%s" % fn)
        loads = [d for d, a, n in q.attr_loads(f.node)] + [d for d, a, n in q.attr_stores(f.node)]
        names = q.names_loaded(f.node) - set(q.param_names(f.node)) - set(["reset", "_state"])
        R.check(all(d == "_state" or d.startswith("_state.") for d in loads if d), "C16.ACCESS", f.qualname, R.site(f),
                "profiler.%s touches only the thread-local _state" % fn, "profiler.%s reaches state other than the thread-local holder" % fn)
    bm = repo.modules["batching"]
    for fq in ("batching.DebugBatchItem.__init__", "batching.DebugBatch._try_switch_active_batch"):
        f = repo.fn(fq)
        uses = [q.src(n) for n in ast.walk(f.node) if isinstance(n, ast.Attribute) and q.src(n).startswith("_debug_batch_state.")]
        R.check(bool(uses), "C16.ACCESS", fq, R.site(f), "%s uses the thread-local _debug_batch_state" % f.name, "%s no longer goes through the thread-local debug-batch state" % f.name)
    # ---- DEDUP-KEY thread component
    from .c12 import dedup_key_rule
    dedup_key_rule(R, "C16.DEDUP-KEY")
    # ---- a threading.local subclass is instantiated without arguments (or with constants): the arguments are evaluated once, kept,
    # and __init__ is re-run with the very same objects in every thread that touches the holder - a mutable argument (a pre-built
    # batch, a dict) is one object shared by all threads
    n_tls = 0
    for mname, m in sorted(repo.modules.items()):
        for c in [x for x in ast.walk(m.tree) if isinstance(x, ast.Call)]:
            nm = q.call_name(c)
            r = repo.resolve_dotted(m, nm) if nm else None
            if r is None or r[0] != "class" or "threading.local" not in r[1].ext_bases():
                continue
            n_tls += 1
            shared = [q.src(a)[:40] for a in list(c.args) + [k.value for k in c.keywords] if classify_value(R, m, a.value if isinstance(a, ast.Starred) else a)[0] not in ("immutable", "function")]
            R.check(not shared, "C16.HOLDER", "%s:%s:ctor-args" % (mname, nm), R.site(m, c),
                    "%s() is created without per-process objects as arguments" % nm,
                    "%s(...) is given %s: threading.local keeps the constructor arguments and re-runs __init__ with the same objects in every thread, so "
                    "what they build is shared between threads (e.g. one pre-built debug batch that items of all threads join)" % (nm, ", ".join(shared)))
    R.need(n_tls >= 2, "fewer instantiations of threading.local holders than confirmed by hand (%d < 2)" % n_tls)
    # ---- the process-wide configuration object is read-only for the library: no function of the package assigns an option.  A
    # save / force / restore of an option around some call is visible to every other thread for its duration (and overlapping
    # restores can leave the forced value behind)
    for f in repo.all_functions():
        if f.module.name in ("debug", "_debug"):
            continue        # the configuration interface itself (enable/disable_complex_assertions, ...): called by the program, not by the machinery
        for recv, attr, node in q.attr_stores(f.node):
            if recv is None:
                continue
            is_cfg = recv in ("_debug_options", "options", "debug.options", "_debug.options") or recv.endswith(".options")
            if not is_cfg:
                continue
            R.violation("C16.STATE", "%s:%s.%s" % (f.qualname, recv, attr), R.site(f, node),
                        "%s assigns the process-wide option %s.%s: every thread's scheduler reads the forced value for as long as it is in place (its per-step "
                        "dependency reset, what its batches keep), and two overlapping save/restore pairs can leave it set" % (f.qualname, recv, attr))
    # ---- a task (or any future) belongs to the thread whose scheduler created it.  A table that outlives the call - a closure variable of
    # a decorator, a field - may hold tasks only under a key that contains the calling thread (the deduplicate table; decided above);
    # an in-flight table keyed by the arguments alone hands one thread's suspended task to another thread, whose scheduler then
    # continues it and flushes the first thread's batches
    tm = repo.modules.get("tools")
    n_tab = 0
    if tm is not None:
        for f0 in tm.functions.values():
            stack = [f0]
            while stack:
                f = stack.pop()
                stack += list(f.nested.values())
                local_stores = set(x.id for x in q.scope_nodes(f.node) if isinstance(x, ast.Name) and isinstance(x.ctx, ast.Store)) | set(q.param_names(f.node))
                # names in f bound (here or in an enclosing function) to `<something>.asynq`: calling them creates a task
                makers = set()
                g = f
                while g is not None:
                    for x in q.scope_nodes(g.node):
                        if isinstance(x, ast.Assign) and isinstance(x.value, ast.Attribute) and x.value.attr == "asynq":
                            makers.update(t.id for t in x.targets if isinstance(t, ast.Name))
                    g = g.parent

                def makes_task(v):
                    return isinstance(v, ast.Call) and ((isinstance(v.func, ast.Name) and v.func.id in makers) or (isinstance(v.func, ast.Attribute) and v.func.attr == "asynq"))
                for x in q.scope_nodes(f.node):
                    if not isinstance(x, ast.Assign):
                        continue
                    subs = [t for t in x.targets if isinstance(t, ast.Subscript) and isinstance(t.value, ast.Name) and t.value.id not in local_stores]
                    if not subs:
                        continue
                    v = x.value
                    task_like = makes_task(v) or (isinstance(v, ast.Name) and any(k_ == "expr" and makes_task(e_) for k_, e_ in common.assigned_values(f.node, v.id)))
                    n_tab += 1
                    if not task_like:
                        continue
                    keysrc = q.src(subs[0].slice)
                    keyvals = [q.src(e_) for k_, e_ in common.assigned_values(f.node, keysrc)] if keysrc.isidentifier() else [keysrc]
                    threaded = any("current_thread" in kv or "get_ident" in kv for kv in keyvals)
                    R.check(threaded, "C16.NO-CACHE", "%s:%s" % (f.qualname, q.src(subs[0])[:30]), R.site(f, x),
                            "a task is stored in the shared table %s only under a key that contains the calling thread" % subs[0].value.id,
                            "%s stores a task in `%s`, a table shared by all threads that call the decorated function, under a key without the calling thread: a second "
                            "thread asking for the same key is handed the first thread's suspended task - its scheduler continues it and flushes the first thread's "
                            "batches on the wrong thread" % (f.qualname, q.src(subs[0])[:40]))
    R.require_min("C16.STATE", 60)
    R.require_min("C16.HOLDER", 6)


def _alias_of_exempt(module, val):
    s = q.src(val) if val is not None else ""
    return s.endswith("options") or s.endswith("_debug.options")


def holder_role_rules(R, rule, only=None):
    repo = R.repo
    # the three pieces of per-thread state the property names must each live in a threading.local instance
    for mod, var, what in (("scheduler", "_state", "the thread's scheduler and active task"), ("batching", "_debug_batch_state", "the debug-batch registry"),
                           ("profiler", "_state", "the profiler buffer and counter")):
        if only is not None and mod not in only:
            continue
        m = repo.modules[mod]
        val = repo.var_value(m, var)
        kind, why = classify_value(R, m, val) if val is not None else ("missing", "no module-level binding")
        R.check(kind == "tls", rule, "%s.%s:tls" % (mod, var), m.relpath,
                "%s.%s (%s) is an instance of a threading.local subclass" % (mod, var, what),
                "%s.%s, which holds %s, is no longer a threading.local instance (%s): every thread sees the same state" % (mod, var, what, why))
        if kind == "tls":
            r = repo.resolve_dotted(m, q.call_name(val))
            hc = r[1]
            init = hc.methods.get("__init__")
            init_fields = set(a for r_, a, n in (q.attr_stores(init.node) if init else []) if r_ == "self")
            if init:
                for call in q.calls(init.node):
                    rcv, nm = q.attr_call(call)
                    if rcv is not None and q.dotted(rcv) == "self" and nm in hc.methods:
                        init_fields |= set(a for r_, a, n in q.attr_stores(hc.methods[nm].node) if r_ == "self")
            # every attribute of the holder instance that the module touches exists on a fresh thread
            used = set()
            for f in m.all_functions.values():
                if f.cls is hc:
                    continue
                for d, a, n in q.attr_loads(f.node) + q.attr_stores(f.node):
                    if d == var:
                        used.add(a)
            methods = set(hc.methods)
            missing = sorted(a for a in used if a not in init_fields and a not in methods)
            R.check(not missing, rule, "%s.%s:fields" % (mod, var), m.relpath,
                    "every field of %s.%s the module uses (%s) is created by __init__, which threading.local runs in each thread" % (mod, var, ", ".join(sorted(used))),
                    "%s.%s.%s is used but not created in %s.__init__: it exists only in the thread that happened to assign it (import-time initialisation covers the "
                    "importing thread only) - other threads get AttributeError or share nothing" % (mod, var, "/".join(missing), hc.name))
