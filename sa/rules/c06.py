"""C06 - an AsyncContext is active exactly while its task, or work it awaits, runs."""
import ast

from ..cfg import cfg_of, N, X, ExcHierarchy
from ..roles import Roles
from .. import q, kit
from . import common

EXPLANATION = (
    "Must-call/once, dominance and ownership rules over contexts.py, AsyncTask's context methods and "
    "the scheduler: __enter__ resumes exactly once and registers with the active task, __exit__ pauses "
    "exactly once on every path and unregisters; every task step is dominated by _resume_contexts(); "
    "leaving a task blocked pauses its contexts and scheduling its dependencies resumes them on every "
    "path; _pause_contexts/_resume_contexts are guard-and-flip on a flag that only they write (strict "
    "alternation); each hook call is isolated in its own handler covering Exception whose error reaches "
    "the task; NonAsyncContext.pause/resume raise AssertionError on every path; register/unregister use "
    "the same key; the context classes declare the field holding their task for the compiled build."
)


def _calls_on_self(fi, name):
    return kit.call_sites(fi, lambda c: q.call_name(c) == "self." + name)


def run(R):
    R.extra["explanation"] = EXPLANATION
    ro = Roles(R)
    repo = R.repo
    hier = ExcHierarchy(repo)
    AC = repo.cls("contexts.AsyncContext")
    NAC = repo.cls("contexts.NonAsyncContext")
    enter_exit_rules(R, "C06")
    from .c08 import active_own
    active_own(R, ro, "C06.ACTIVE-OWN")
    # enter_context registers with the active task of *this thread's* scheduler
    ec = repo.fn("contexts.enter_context")
    lc = repo.fn("contexts.leave_context")
    has_global = any(isinstance(n, (ast.Global, ast.Nonlocal)) for n in ast.walk(ec.node))
    reads = [d for d, a, n in q.attr_loads(ec.node) if a == "active_task"]
    fresh = any(d in ("asynq.scheduler._state.current", "scheduler._state.current", "_state.current") for d in reads) or \
        any(q.call_name(c) in ("asynq.scheduler.get_active_task", "get_active_task", "scheduler.get_active_task") for c in q.calls(ec.node)) or \
        any(q.src(n).startswith(("asynq.scheduler.get_scheduler()", "get_scheduler()")) for d, a, n in q.attr_loads(ec.node) if a == "active_task")
    R.check(fresh and not has_global, "C06.REGISTER", ec.qualname, R.site(ec),
            "enter_context reads the active task from the thread's current scheduler on every call",
            "enter_context does not read the current thread's scheduler state at call time (cached scheduler / module global): a context entered "
            "under another scheduler is not registered with its task and is never paused")
    for f, meth in ((ec, "_enter_context"), (lc, "_leave_context")):
        sites = kit.call_sites(f, lambda c: q.attr_call(c)[1] == meth and q.src(c.args[0]) == q.param_names(f.node)[0] if c.args else False)
        cfg = cfg_of(f)

        def no_task(nd):
            if nd.kind != "test":
                return None
            k, s, pos = q.atom_test(nd.ast)
            if k == "isnone" and s == "active_task":
                return "T" if pos else "F"
            return None

        def keep(e, cfg=cfg):
            lab = no_task(cfg.nodes[e.src])
            return not (lab is not None and e.label == lab)
        p = cfg.find_path([cfg.entry], [cfg.exit], N, cut_nodes=[n for n, c in sites], keep_edge=keep)
        R.check(p is None and sites, "C06.REGISTER", "%s:%s" % (f.qualname, meth), R.site(f),
                "%s calls active_task.%s(context) whenever there is an active task" % (f.name, meth),
                "%s can skip %s although a task is active" % (f.name, meth), cfg.fmt_path(p) if p else None)

    # ---- REGISTRY key agreement
    at = ro.AsyncTask
    ent, lev = at.methods.get("_enter_context"), at.methods.get("_leave_context")
    R.need(ent is not None and lev is not None, "anchor vanished: AsyncTask._enter_context/_leave_context")
    ins = [n for n in ast.walk(ent.node) if isinstance(n, ast.Assign) and isinstance(n.targets[0], ast.Subscript) and q.src(n.targets[0].value) == "self._contexts"]
    dels = [n for n in ast.walk(lev.node) if isinstance(n, ast.Delete) and isinstance(n.targets[0], ast.Subscript) and q.src(n.targets[0].value) == "self._contexts"]
    pops = [c for c in q.calls(lev.node) if q.call_name(c) == "self._contexts.pop"]
    k_in = q.src(ins[0].targets[0].slice) if ins else None
    k_out = q.src(dels[0].targets[0].slice) if dels else (q.src(pops[0].args[0]) if pops else None)
    pi, po = q.param_names(ent.node)[1], q.param_names(lev.node)[1]
    norm = lambda k, p: k.replace(p, "<ctx>") if k else None
    R.check(ins and k_out is not None and norm(k_in, pi) == norm(k_out, po) and ins and q.src(ins[0].value) == pi,
            "C06.REGISTRY", "AsyncTask._contexts", R.site(ent),
            "_enter_context stores the context under the key _leave_context removes (%s)" % norm(k_in, pi),
            "register and unregister disagree on the key (%s vs %s) or the stored object is not the context" % (norm(k_in, pi), norm(k_out, po)))
    # the map is insertion ordered
    init = at.methods.get("__init__")
    ctor = [n.value for n in ast.walk(init.node) if isinstance(n, ast.Assign) and any(q.src(t) == "self._contexts" for t in n.targets)]
    ok = bool(ctor) and ((isinstance(ctor[0], ast.Call) and q.call_name(ctor[0]) in ("OrderedDict", "collections.OrderedDict", "dict")) or isinstance(ctor[0], ast.Dict))
    R.check(ok, "C06.REGISTRY", "AsyncTask._contexts:ordered", R.site(init),
            "the per-task context map is insertion ordered (OrderedDict/dict)", "the per-task context map is not an insertion-ordered mapping")

    # ... and is changed by registration and unregistration only: a context stays registered as long as its block is open - also
    # after its task has completed (a with-block of an async generator's body outlives the task it was entered under; leaving it
    # then unregisters from that task)
    allowed_w = set([init.qualname, ent.qualname, lev.qualname])
    nw = 0
    for f in repo.all_functions():
        if f.module.name.startswith("tests"):
            continue
        for node in q.scope_nodes(f.node):
            hit = None
            if isinstance(node, (ast.Assign, ast.AugAssign, ast.Delete)):
                tg = node.targets if isinstance(node, (ast.Assign, ast.Delete)) else [node.target]
                for t in tg:
                    base = t.value if isinstance(t, ast.Subscript) else t
                    if isinstance(base, ast.Attribute) and base.attr == "_contexts":
                        hit = node
            elif isinstance(node, ast.Call) and q.attr_call(node)[1] in ("clear", "pop", "popitem", "update", "setdefault", "__setitem__", "__delitem__") \
                    and isinstance(q.attr_call(node)[0], ast.Attribute) and q.attr_call(node)[0].attr == "_contexts":
                hit = node
            if hit is None:
                continue
            nw += 1
            R.check(f.qualname in allowed_w, "C06.REGISTRY", "%s:writes:%s" % (f.qualname, q.stmt_key(q.enclosing_stmt(hit))[:40]), R.site(f, hit),
                    "the context map is changed by %s" % f.name,
                    "%s changes a task's context map (`%s`) outside registration/unregistration: a context whose block is still open - the body of an async "
                    "generator keeps one open across Values, under a task that has completed meanwhile - is gone from the map, and leaving the block raises "
                    "KeyError inside the body" % (f.qualname, q.src(q.enclosing_stmt(hit))[:50]))
    R.check(nw >= 3, "C06.REGISTRY", "AsyncTask._contexts:writers", R.site(init), "%d writes to the context map examined" % nw, "fewer than 3 writes to the context map found")
    # ---- RESUME-DOM
    ct = ro.continue_task_method()
    st = ro.step_method_task()
    cfg = cfg_of(ct)
    tp = q.param_names(ct.node)[1]
    steps = [n for n, c in ro.calls_to(ct, [st])]
    res = [n for n, c in kit.call_sites(ct, lambda c: q.call_name(c) == "%s._resume_contexts" % tp)]
    p = cfg.find_path([cfg.entry], steps, N, cut_nodes=res)
    if p is not None:
        # the resume may have been moved to the callers: then every call of the stepping method is preceded, in its caller, by
        # <argument>._resume_contexts()
        sites = common.caller_sites(R, ro, ct, tp)
        ok_callers = bool(sites)
        for cf, cn, cc, arg in sites:
            ccfg = cfg_of(cf)
            cres = [n for n, c in kit.call_sites(cf, lambda c: q.call_name(c) == "%s._resume_contexts" % arg)]
            if ccfg.find_path([ccfg.entry], [cn], N, cut_nodes=cres) is not None or not cres:
                ok_callers = False
        if ok_callers:
            p, res = None, [True]
    R.check(p is None and res, "C06.RESUME-DOM", ct.qualname, R.site(ct),
            "every step of a task is preceded by %s._resume_contexts()" % tp,
            "a task can be stepped with its contexts still paused", cfg.fmt_path(p) if p else None)
    # ---- PAUSE-LEAVE
    hm = ro.handle_task_method()
    hcfg = cfg_of(hm)
    hp = q.param_names(hm.node)[1]

    def flag(nd, want):
        if nd.kind != "test":
            return None
        k, s, pos = q.atom_test(nd.ast)
        if k == "truth" and s == "%s._dependencies_scheduled" % hp:
            return ("T" if pos else "F") if want else ("F" if pos else "T")
        return None
    tests = [n for n in hcfg.nodes if flag(n, True) is not None]
    R.need(tests, "idiom: %s no longer tests the dependencies-scheduled flag" % hm.qualname)
    pauses = [n for n, c in kit.call_sites(hm, lambda c: q.call_name(c) == "%s._pause_contexts" % hp)]
    resumes = [n for n, c in kit.call_sites(hm, lambda c: q.call_name(c) == "%s._resume_contexts" % hp)]
    for t in tests:
        starts = [e.dst for e in hcfg.out_edges(t.id, N) if e.label == flag(t, True)]
        cflag = contexts_active_flag(R)

        def paused_already(e):
            # `if task.<flag>: task._pause_contexts()` : the skipping edge is the one on which the contexts are paused already
            nd = hcfg.nodes[e.src]
            if nd.kind != "test":
                return False
            k, s, pos = q.atom_test(nd.ast)
            return k == "truth" and s == "%s.%s" % (hp, cflag) and e.label == ("F" if pos else "T")
        p = hcfg.find_path(starts, [hcfg.exit], N, cut_nodes=pauses, keep_edge=lambda e: not paused_already(e))
        R.check(p is None and pauses, "C06.PAUSE-LEAVE", hm.qualname + ":pause", R.site(hm, t.ast),
                "a task that is left blocked (second visit) gets its contexts paused on every path",
                "a task can be left blocked with its contexts active: they stay active while unrelated tasks run and while batches are flushed",
                hcfg.fmt_path(p) if p else None)
        starts = [e.dst for e in hcfg.out_edges(t.id, N) if e.label == flag(t, False)]
        p = hcfg.find_path(starts, [hcfg.exit], N, cut_nodes=resumes)
        R.check(p is None and resumes, "C06.PAUSE-LEAVE", hm.qualname + ":resume", R.site(hm, t.ast),
                "when a task's dependencies are scheduled its contexts are resumed on every path (the work it awaits runs inside them)",
                "dependencies can be scheduled without resuming the awaiting task's contexts: tasks that only it awaits run with its contexts paused",
                hcfg.fmt_path(p) if p else None)
    # ---- ALTERNATE
    flagname = "_contexts_active"
    for mname, hook, test_pos, newval in (("_pause_contexts", "pause", False, False), ("_resume_contexts", "resume", True, True)):
        m = at.methods.get(mname)
        R.need(m is not None, "anchor vanished: AsyncTask.%s" % mname)
        mcfg = cfg_of(m)
        hooks = [n for n, c in kit.call_sites(m, lambda c: q.attr_call(c)[1] == hook and isinstance(q.attr_call(c)[0], ast.Name) and q.attr_call(c)[0].id != "self")]
        R.need(hooks, "idiom: %s no longer calls ctx.%s()" % (mname, hook))

        def go(nd, test_pos=test_pos):
            # edge on which the flag has the value that requires work: pause needs active(True), resume needs inactive(False)
            if nd.kind != "test":
                return None
            k, s, pos = q.atom_test(nd.ast)
            if k == "truth" and s == "self." + flagname:
                want_true = not test_pos
                return ("T" if pos else "F") if want_true else ("F" if pos else "T")
            return None
        p = kit.path_avoiding_guard(mcfg, hooks, go, N)
        R.check(p is None, "C06.ALTERNATE", m.qualname + ":guard", R.site(m),
                "%s calls the hooks only when the flag says the contexts are %s" % (mname, "active" if hook == "pause" else "paused"),
                "%s can call ctx.%s() although the contexts are already %s (double %s)" % (mname, hook, "paused" if hook == "pause" else "active", hook),
                mcfg.fmt_path(p) if p else None)
        flips = [n for n in kit.store_nodes(m, flagname) if isinstance(n.ast, ast.Assign) and isinstance(n.ast.value, ast.Constant) and n.ast.value.value is newval]
        p = mcfg.find_path([mcfg.entry], hooks, N, cut_nodes=flips)
        R.check(p is None and flips, "C06.ALTERNATE", m.qualname + ":flip", R.site(m),
                "the flag is flipped before the first hook runs (a hook that re-enters the scheduler sees the new state)",
                "a hook can run before the flag is flipped", mcfg.fmt_path(p) if p else None)
        # ... and whenever the flag says there is work to do, it is done: the flag is the only reason to return early (a computed task's
        # contexts are resumed once more before its generator is closed, a task being dropped is paused whatever its state)
        def idle(e, mcfg=mcfg, go=go):
            lab = go(mcfg.nodes[e.src])
            return not (lab is not None and e.label in ("T", "F") and e.label != lab)
        p = mcfg.find_path([mcfg.entry], [mcfg.exit], N, cut_nodes=flips, keep_edge=idle)
        R.check(p is None, "C06.ALTERNATE", m.qualname + ":always", R.site(m),
                "%s does its work whenever the contexts are %s" % (mname, "active" if hook == "pause" else "paused"),
                "%s can return without touching the contexts although they are %s (an early return that depends on something else than the flag): "
                "%s" % (mname, "active" if hook == "pause" else "paused",
                        "a task completed while it was suspended has its generator closed - its finally blocks and __exit__ methods run - with its contexts paused"
                        if hook == "resume" else "a task that is suspended keeps its contexts in effect for the tasks that run next"),
                mcfg.fmt_path(p) if p else None)
        wrong = [n for n in kit.store_nodes(m, flagname) if n not in flips]
        R.check(not wrong, "C06.ALTERNATE", m.qualname + ":only-flip", R.site(m),
                "%s writes the flag only to %s" % (mname, newval), "%s writes the flag to another value" % mname)
        # every registered context gets the hook: the loop is over all of self._contexts, no break/return
        loops = [n for n in ast.walk(m.node) if isinstance(n, ast.For) and any(q.attr_call(c)[1] == hook for c in q.calls(n))]
        R.need(len(loops) == 1, "idiom: %s does not call the hooks in one loop" % mname)
        lp = loops[0]
        early = [n for n in ast.walk(lp) if isinstance(n, (ast.Break, ast.Return))]
        inner_raise = [n for n in ast.walk(lp) if isinstance(n, ast.Raise)]
        R.check(not early and not inner_raise, "C06.HOOK-ALL", m.qualname + ":all", R.site(m, lp),
                "every registered context receives %s() (no break/return/raise inside the loop)" % hook,
                "the loop over the contexts can stop early: some contexts miss their %s()" % hook)
        # hook isolation: the try that guards the hook is inside the loop and covers Exception
        for n, c in kit.call_sites(m, lambda c: q.attr_call(c)[1] == hook and isinstance(q.attr_call(c)[0], ast.Name) and q.attr_call(c)[0].id != "self"):
            trys = kit.enclosing_try_handlers(c)
            inside = [t for t in trys if any(t is sub for sub in ast.walk(lp))]
            cov = [h for t in inside[:1] for h in t.handlers if kit.handler_covers(h, "BaseException", hier)]
            R.check(bool(cov), "C06.HOOK-ALL", m.qualname + ":isolated", R.site(m, c),
                    "each ctx.%s() runs in its own handler (covering Exception) inside the loop: one failing context does not stop the others" % hook,
                    "ctx.%s() is not individually guarded inside the loop: the first failing %s() skips the remaining contexts, which are later "
                    "paused/resumed out of step" % (hook, hook))
        # "phase" flags of a resume loop written in two phases (up to the first failure / after it): a boolean local that starts False,
        # is set True only inside a handler of the loop that records the caught exception (after the record), and is never set False
        # in the loop.  Behind the flag's true edge a failure has been recorded already: a hook failing there is a *later* failure.
        phase_flags = set()
        if hook == "resume":
            for nm_ in set(t_.id for a_ in ast.walk(m.node) if isinstance(a_, ast.Assign) for t_ in a_.targets if isinstance(t_, ast.Name)):
                sets_ = [a_ for a_ in ast.walk(m.node) if isinstance(a_, ast.Assign) and any(isinstance(t_, ast.Name) and t_.id == nm_ for t_ in a_.targets)]
                if not sets_ or not all(isinstance(a_.value, ast.Constant) and isinstance(a_.value.value, bool) for a_ in sets_):
                    continue
                inside_ = [a_ for a_ in sets_ if any(a_ is y for y in ast.walk(lp))]
                outside_ = [a_ for a_ in sets_ if a_ not in inside_]
                if not inside_ or not all(a_.value.value is True for a_ in inside_) or not outside_ or not all(a_.value.value is False for a_ in outside_):
                    continue
                good_ = True
                for a_ in inside_:
                    hs_ = [x for x in q.ancestors(a_) if isinstance(x, ast.ExceptHandler) and any(x is y for y in ast.walk(lp))]
                    if not hs_ or not hs_[0].name:
                        good_ = False
                        break
                    h_ = hs_[0]
                    recs_ = [x for x in h_.body if isinstance(x, ast.Assign) and isinstance(x.value, ast.Name) and x.value.id == h_.name]
                    # the record comes first in the handler, the flag is set in the handler's own statement list after it
                    if not recs_ or not any(a_ is x for x in h_.body) or h_.body.index(recs_[0]) > [i for i, x in enumerate(h_.body) if x is a_][0]:
                        good_ = False
                if good_:
                    phase_flags.add(nm_)

        def later_phase(node_ast):
            """is this construct of the loop reachable only behind the true edge of a phase flag?"""
            child = node_ast
            for a_ in q.ancestors(node_ast):
                if isinstance(a_, ast.If):
                    k_, s_, pos_ = q.atom_test(a_.test)
                    if k_ == "truth" and s_ in phase_flags:
                        in_body = any(child is x for x in a_.body)
                        if (pos_ and in_body) or (not pos_ and not in_body):
                            return True
                if a_ is lp:
                    break
                child = a_
            return False
        # the handler records the exception (for the first one at least) and the recorded value is what the task is failed with
        for n, c in kit.call_sites(m, lambda c: q.attr_call(c)[1] == hook and isinstance(q.attr_call(c)[0], ast.Name) and q.attr_call(c)[0].id != "self"):
            trys = [t for t in kit.enclosing_try_handlers(c) if any(t is sub for sub in ast.walk(lp))]
            for h in [h for t in trys[:1] for h in t.handlers if kit.handler_covers(h, "Exception", hier)]:
                if phase_flags and later_phase(trys[0]):
                    # a later failure: it must NOT replace the recorded one - the handler records nothing and completes nothing
                    stores_ = [x for x in ast.walk(h) if isinstance(x, ast.Assign) and h.name and isinstance(x.value, ast.Name) and x.value.id == h.name]
                    R.check(not stores_ and not any(isinstance(x, (ast.Raise, ast.Return, ast.Break)) for x in ast.walk(h)), "C06.HOOK-ALL", m.qualname + ":which-error:later", R.site(m, h),
                            "a resume() that fails after the first failure was recorded is dropped (the first one is kept)",
                            "a later resume() failure can replace the first one")
                    continue
                hn = kit.one(mcfg.nodes_for(h), "handler node")
                recs = [x for x in mcfg.nodes if x.kind == "stmt" and isinstance(x.ast, ast.Assign) and isinstance(x.ast.value, ast.Name) and x.ast.value.id == h.name
                        and any(x.ast is y for y in ast.walk(h))]
                errs0 = set(t.id for x in recs for t in x.ast.targets if isinstance(t, ast.Name))
                # path-sensitive in the accumulator: its first value (None) decides `if error is None:`
                reach = mcfg.find_path_flags([mcfg.entry], recs, errs0, N) if recs else None
                errs = set(t.id for x in recs for t in x.ast.targets if isinstance(t, ast.Name))
                comp_nodes = [nn for nn, cc, kind, v in ro.completing_calls(m) if kind == "error" and isinstance(v, ast.Name) and v.id in errs]
                flow = None
                for r_ in recs:
                    flow = flow or mcfg.find_path([e.dst for e in mcfg.out_edges(r_.id, N)], comp_nodes, N)
                # which failure the task gets when several hooks fail: pausing walks the contexts innermost first and keeps the LAST
                # failure (the outermost context's - what leaving the same nested with-blocks through __exit__ raises); resuming
                # walks them outermost first and keeps the FIRST
                tested = [x for x in mcfg.nodes if x.kind == "test" and any(x.ast is y or x.stmt is y for y in ast.walk(h))
                          and q.atom_test(x.ast)[0] == "isnone" and q.atom_test(x.ast)[1] in errs0]
                if hook == "pause":
                    R.check(not tested and bool(recs), "C06.HOOK-ALL", m.qualname + ":which-error", R.site(m, h),
                            "every failing pause() replaces the recorded error: the last one (the outermost context's) is what the task fails with",
                            "the pause loop keeps the first failure (`%s`): with two nested contexts whose pause() both fail the task gets the innermost "
                            "context's error, where leaving the same blocks through __exit__ - and sequential evaluation - raises the outermost one (a NonAsyncContext's "
                            "AssertionError is masked by an inner context's error)" % (q.src(tested[0].ast) if tested else ""))
                else:
                    def first_only(nd, errs0=errs0):
                        if nd.kind != "test":
                            return None
                        k_, s_, pos_ = q.atom_test(nd.ast)
                        if k_ == "isnone" and s_ in errs0:
                            return "T" if pos_ else "F"
                        return None
                    pf_ = kit.path_avoiding_guard(mcfg, recs, first_only, N, sources=[hn]) if recs else None
                    if pf_ is not None and phase_flags and not later_phase(trys[0]):
                        # first phase of a two-phase loop: this handler runs at most once (it ends the phase), so what it records is the first failure
                        ends_phase = any(isinstance(x, ast.Assign) and any(isinstance(t_, ast.Name) and t_.id in phase_flags for t_ in x.targets) for x in h.body)
                        under_flag = any(isinstance(a_, ast.If) and q.atom_test(a_.test)[0] == "truth" and q.atom_test(a_.test)[1] in phase_flags for a_ in q.ancestors(trys[0]))
                        if ends_phase and under_flag:
                            pf_ = None
                    R.check(pf_ is None and bool(recs), "C06.HOOK-ALL", m.qualname + ":which-error", R.site(m, h),
                            "the first failing resume() is the one that is kept", "a later resume() failure can replace the first one", mcfg.fmt_path(pf_) if pf_ else None)
                if comp_nodes:
                    def recorded(nd, errs=errs):
                        if nd.kind != "test":
                            return None
                        k_, s_, pos_ = q.atom_test(nd.ast)
                        if k_ == "isnone" and s_ in errs:
                            return "F" if pos_ else "T"
                        return None
                    pg = kit.path_avoiding_guard(mcfg, comp_nodes, recorded, N)
                    R.check(pg is None, "C06.HOOK-ALL", m.qualname + ":error-only", R.site(m, h),
                            "the task is failed only when a hook did raise", "the task can be completed with the error accumulator while it is still None "
                            "(no hook raised): a task whose contexts switched cleanly would be ended", mcfg.fmt_path(pg) if pg else None)
                R.check(reach is not None and flow is not None, "C06.HOOK-ALL", m.qualname + ":error-flow", R.site(m, h),
                        "a %s() that raises is recorded and the task is failed with that exception" % hook,
                        "an exception raised by ctx.%s() is never recorded / never reaches the task's error: it is silently swallowed (a NonAsyncContext would no longer "
                        "fail the task that yields inside it)" % hook)
        # the collected error reaches the task
        acc = [c for n_, c, kind, v in ro.completing_calls(m) if kind == "error"]
        R.check(bool(acc), "C06.HOOK-ALL", m.qualname + ":error", R.site(m),
                "an exception from a hook is routed to the task's error (_accept_error)", "an exception from a hook is no longer routed to the task's error")
    # ownership of the flag
    writers = []
    for f in repo.all_functions():
        for recv, attr, node in q.attr_stores(f.node):
            if attr == flagname:
                writers.append((f, node))
    allowed = ("async_task.AsyncTask.__init__", "async_task.AsyncTask._pause_contexts", "async_task.AsyncTask._resume_contexts")
    for f, node in writers:
        R.check(f.qualname in allowed, "C06.ALTERNATE-OWN", "%s:%s" % (f.qualname, q.stmt_key(q.enclosing_stmt(node))), R.site(f, node),
                "the contexts-active flag is written by %s" % f.qualname.split(".")[-1],
                "%s writes the contexts-active flag outside the pause/resume pair: the guard-and-flip alternation no longer matches what the contexts saw "
                "(e.g. a second resume without a pause in between)" % f.qualname)
    # ---- CLOSE-RESUMED: closing a live generator runs the __exit__ of its with-blocks, each of which
    # pauses its context: the contexts must be active at that point
    g = "self." + ro.generator_field()
    driver = ro.step_method_task()
    for m in at.methods.values():
        for n, c in kit.call_sites(m, lambda c: q.attr_call(c)[1] == "close" and q.dotted(q.attr_call(c)[0]) == g):
            mcfg = cfg_of(m)
            resumed = [x for x, cc in kit.call_sites(m, lambda cc: q.call_name(cc) == "self._resume_contexts")]
            p = mcfg.find_path([mcfg.entry], [n], N, cut_nodes=resumed)
            callers = [f for f, call, k in R.res.callers_of(m, kinds=("resolved",))]
            only_in_step = (bool(callers) and all(f is driver for f in callers)) or m is driver
            R.check(p is None or only_in_step, "C06.CLOSE-RESUMED", "%s:%s" % (m.qualname, q.stmt_key(c)), R.site(m, c),
                    "the generator is closed with the task's contexts active (%s)" % (
                        "only called from the step driver, which runs after _resume_contexts" if only_in_step and p is not None
                        else "self._resume_contexts() precedes close() on every path"),
                    "a suspended task's generator can be closed while its contexts are paused: the __exit__ of each with-block pauses its "
                    "context a second time (pause, pause without a resume in between)", mcfg.fmt_path(p) if p else None)
    R.require_min("C06.CLOSE-RESUMED", 1)
    # ---- NONASYNC
    for hook in ("pause", "resume"):
        m = NAC.methods.get(hook)
        R.need(m is not None, "anchor vanished: NonAsyncContext.%s" % hook)
        mcfg = cfg_of(m)
        p = mcfg.find_path([mcfg.entry], [mcfg.exit], N)
        ras = [n for n in mcfg.nodes if (n.kind == "assert_fail") or (n.kind == "stmt" and isinstance(n.ast, ast.Raise) and n.ast.exc is not None and
               (q.call_name(n.ast.exc) if isinstance(n.ast.exc, ast.Call) else q.dotted(n.ast.exc)) == "AssertionError")]
        R.check(p is None and ras, "C06.NONASYNC", m.qualname, R.site(m),
                "NonAsyncContext.%s raises AssertionError on every path" % hook,
                "NonAsyncContext.%s can return normally: a task suspended inside a NonAsyncContext is not failed" % hook,
                mcfg.fmt_path(p) if p else None)
    # ---- FIELDS (compiled build)
    for cls in (AC, NAC):
        if cls.pxd is None:
            R.info("%s is not declared in the .pxd (Python class in the compiled build)" % cls.qualname)
            continue
        used = set()
        for m in cls.methods.values():
            for recv, attr, node in q.attr_stores(m.node):
                if recv == "self":
                    used.add(attr)
        declared = set(cls.fields().keys()) & set(n for c in cls.mro() if hasattr(c, "pxd") and c.pxd for n in c.pxd.fields)
        for a in sorted(used):
            R.check(a in declared, "C06.FIELDS", "%s.%s" % (cls.qualname, a), "asynq/contexts.pxd %s" % cls.qualname,
                    "cdef class %s declares the field %s it assigns" % (cls.name, a),
                    "cdef class %s assigns self.%s but the .pxd does not declare it: in the compiled build entering the context raises AttributeError" % (cls.name, a))
    R.require_min("C06.ENTER-EXIT", 8)
    R.require_min("C06.ALTERNATE", 6)
    R.require_min("C06.FIELDS", 2)


def contexts_active_flag(R):
    """Name of the AsyncTask field that says whether the task's contexts are currently resumed: the flag _pause_contexts
    tests first and clears, and _resume_contexts sets."""
    at = R.repo.cls("async_task.AsyncTask")
    pc, rc = at.methods.get("_pause_contexts"), at.methods.get("_resume_contexts")
    R.need(pc is not None and rc is not None, "anchor vanished: AsyncTask._pause_contexts/_resume_contexts")
    off = set(q.src(t)[5:] for n in q.scope_nodes(pc.node) if isinstance(n, ast.Assign) and isinstance(n.value, ast.Constant) and n.value.value is False
              for t in n.targets if q.src(t).startswith("self."))
    on = set(q.src(t)[5:] for n in q.scope_nodes(rc.node) if isinstance(n, ast.Assign) and isinstance(n.value, ast.Constant) and n.value.value is True
             for t in n.targets if q.src(t).startswith("self."))
    both = off & on
    R.need(len(both) == 1, "role: the flag recording whether a task's contexts are resumed was not found (%s)" % sorted(both))
    return both.pop()


def pause_typestate(R, P):
    """pause() and resume() of a registered context strictly alternate.  The scheduler-driven loops are guarded by the task's
    flag; the remaining pause() - the one __exit__ issues - must not run when the flag says the contexts are already paused,
    which is the state a suspended task is in when its generator is finalised from outside (a computation that was abandoned
    after an error, then garbage collected)."""
    flag = contexts_active_flag(R)
    AC = R.repo.cls("contexts.AsyncContext")
    ex = AC.methods.get("__exit__")
    cfg = cfg_of(ex)
    pauses = [n for n, c in _calls_on_self(ex, "pause")]

    def resumed(nd):
        if nd.kind != "test":
            return None
        k, s, pos = q.atom_test(nd.ast)
        if k == "call" and s == "is_asyncio_mode":
            return "T" if pos else "F"           # asyncio mode: no scheduler, no suspension
        if k == "isnone" and isinstance(s, str) and ("active_task" in s or s.endswith("_task")):
            return "T" if pos else "F"           # not registered with any task
        if k == "truth" and isinstance(s, str) and s.endswith("." + flag):
            return "T" if pos else "F"
        return None
    if pauses:
        p = kit.path_avoiding_guard(cfg, pauses, resumed, N)
        R.check(p is None, P + ".PAUSE-TYPESTATE", ex.qualname, R.site(ex),
                "__exit__ pauses the context only when its task's contexts are resumed (or it belongs to no task)",
                "__exit__ calls pause() without consulting the task's %s flag: when the block is left because the generator of a suspended task is finalised "
                "(an abandoned computation being garbage collected), the context is paused a second time and writes stale saved state back - "
                "a scoped override of a failed computation comes back after it ended" % flag, cfg.fmt_path(p) if p else None)
    # the two scheduler-driven loops are guarded by the same flag
    at = R.repo.cls("async_task.AsyncTask")
    for mname, hook, want in (("_pause_contexts", "pause", True), ("_resume_contexts", "resume", False)):
        m = at.methods[mname]
        mcfg = cfg_of(m)
        hooks = [n for n, c in kit.call_sites(m, lambda c: q.attr_call(c)[1] == hook and isinstance(q.attr_call(c)[0], ast.Name) and q.attr_call(c)[0].id != "self")]

        def g(nd, want=want):
            if nd.kind != "test":
                return None
            k, s, pos = q.atom_test(nd.ast)
            if k == "truth" and s == "self." + flag:
                return ("T" if pos else "F") if want else ("F" if pos else "T")
            return None
        if hooks:
            p = kit.path_avoiding_guard(mcfg, hooks, g, N)
            R.check(p is None, P + ".PAUSE-TYPESTATE", m.qualname, R.site(m), "%s() hooks run only when the flag says the contexts are %s" % (hook, "resumed" if want else "paused"),
                    "%s() hooks can run although the contexts are already %sd" % (hook, hook), mcfg.fmt_path(p) if p else None)


def enter_exit_rules(R, P):
    repo = R.repo
    AC = repo.cls("contexts.AsyncContext")
    NAC = repo.cls("contexts.NonAsyncContext")
    # ---- ENTER / EXIT
    for cls, hook_enter, hook_exit in ((AC, "resume", "pause"), (NAC, None, None)):
        en, ex = cls.methods.get("__enter__"), cls.methods.get("__exit__")
        R.need(en is not None and ex is not None, "anchor vanished: %s.__enter__/__exit__" % cls.qualname)
        for m, hook, reg in ((en, hook_enter, "enter_context"), (ex, hook_exit, "leave_context")):
            cfg = cfg_of(m)
            if hook:
                sites = [n for n, c in _calls_on_self(m, hook)]
                flag = contexts_active_flag(R)

                def already_paused(nd, flag=flag):
                    # the one legitimate way to leave the block without pause(): the owning task is suspended, i.e. the scheduler
                    # has paused its contexts already (<task>.<flag> is false)
                    if nd.kind != "test" or hook != "pause":
                        return None
                    k_, s_, pos_ = q.atom_test(nd.ast)
                    if k_ == "truth" and isinstance(s_, str) and s_.endswith("." + flag) and not s_.startswith("self."):
                        return "F" if pos_ else "T"
                    return None
                flags_ = set(t.id for x in ast.walk(m.node) if isinstance(x, ast.Assign) and isinstance(x.value, ast.Constant) and isinstance(x.value.value, bool)
                             for t in x.targets if isinstance(t, ast.Name))
                p = cfg.find_path_flags([cfg.entry], [cfg.exit], flags_, N, cut_nodes=sites,
                                        keep_edge=lambda e, cfg=cfg: not (already_paused(cfg.nodes[e.src]) is not None and e.label == already_paused(cfg.nodes[e.src])))
                R.check(p is None and sites, P + ".ENTER-EXIT", "%s:%s" % (m.qualname, hook), R.site(m),
                        "%s calls self.%s() on every path" % (m.name, hook),
                        "%s can return without calling self.%s(): %s" % (m.name, hook,
                        "the context is never activated" if hook == "resume" else "the context stays active after the block is left (e.g. when it is left by an early result / GeneratorExit)"),
                        cfg.fmt_path(p) if p else None)
                p = kit.at_most_once(m, sites, N)
                R.check(p is None, P + ".ENTER-EXIT", "%s:%s:once" % (m.qualname, hook), R.site(m),
                        "self.%s() at most once per %s" % (hook, m.name), "self.%s() can be called twice by %s" % (hook, m.name),
                        cfg.fmt_path(p) if p else None)
            inner = "_enter_context" if reg == "enter_context" else "_leave_context"
            regs = kit.call_sites(m, lambda c: (q.call_name(c) == reg and c.args and q.src(c.args[0]) == "self") or
                                  (q.attr_call(c)[1] == inner and c.args and q.src(c.args[0]) == "self"))
            written_out = any(q.attr_call(c)[1] == inner for n_, c in regs)

            def asyncio_mode(nd):
                if nd.kind != "test":
                    return None
                k, s, pos = q.atom_test(nd.ast)
                if k == "call" and s == "is_asyncio_mode":
                    return "T" if pos else "F"
                return None

            reg_args = set(q.src(a) for n_, c in regs for a in c.args[1:2]) | set(q.src(q.attr_call(c)[0]) for n_, c in regs if q.attr_call(c)[1] == inner)

            def no_task(nd):
                # nothing to (un)register when there is no active task: written-out form, or an explicit test of the very task
                # that is handed to leave_context()
                if nd.kind != "test":
                    return None
                if not written_out:
                    k, s_, pos = q.atom_test(nd.ast)
                    if k == "isnone" and s_ in reg_args:
                        return "T" if pos else "F"
                    return None
                k, s_, pos = q.atom_test(nd.ast)
                if k == "isnone" and ("active_task" in s_ or s_.endswith("_task")):
                    return "T" if pos else "F"
                return None

            def keep(e, cfg=cfg):
                lab = asyncio_mode(cfg.nodes[e.src])
                if lab is not None and e.label == lab:
                    return False
                lab2 = no_task(cfg.nodes[e.src])
                return not (lab2 is not None and e.label == lab2)
            p = cfg.find_path([cfg.entry], [cfg.exit], N, cut_nodes=[n for n, c in regs], keep_edge=keep)
            R.check(p is None and regs, P + ".ENTER-EXIT", "%s:%s" % (m.qualname, reg), R.site(m),
                    "outside asyncio mode %s calls %s(self, ...) on every path" % (m.name, reg),
                    "outside asyncio mode %s can skip %s(self): the scheduler does not know about the context (no pause when the task is suspended) "
                    "or keeps pausing a context that was left" % (m.name, reg), cfg.fmt_path(p) if p else None)
    # ---- the block is left on the task it was entered under (remembered by __enter__), whichever task happens to be active then:
    # a with-block of an async generator's body is entered inside the consumer's next(gen) and left inside the generator's own task
    exm = AC.methods["__exit__"]
    for c in q.calls(exm.node):
        targ = None
        if q.call_name(c) == "leave_context" and len(c.args) >= 2 and q.src(c.args[0]) == "self":
            targ = c.args[1]
        elif q.attr_call(c)[1] == "_leave_context" and c.args and q.src(c.args[0]) == "self":
            targ = q.attr_call(c)[0]
        if targ is None:
            continue
        srcs = [targ]
        if isinstance(targ, ast.Name):
            srcs = [v for k_, v in common.assigned_values(exm.node, targ.id) if k_ == "expr"] or [targ]
        okt = all(q.src(v) == "self._active_task" for v in srcs)
        R.check(okt, P + ".ENTER-EXIT", exm.qualname + ":remembered-task", R.site(exm, c),
                "__exit__ unregisters the context from the task __enter__ registered it with (self._active_task)",
                "__exit__ unregisters the context from `%s`, not from the task remembered by __enter__: a block that is entered under one task and left "
                "under another (the body of an async generator: entered inside the consumer's next(gen), left inside the generator's own task) raises KeyError "
                "on leaving, or stays registered with the first task for ever" % "; ".join(q.src(v) for v in srcs))
    # ---- a failing resume() on entry leaves nothing registered: the block is not entered, so __exit__ will not run
    en = AC.methods["__enter__"]
    cfg = cfg_of(en)
    regs = [n for n, c in kit.call_sites(en, lambda c: (q.call_name(c) == "enter_context" or q.attr_call(c)[1] == "_enter_context") and c.args and q.src(c.args[0]) == "self")]
    unregs = [n for n, c in kit.call_sites(en, lambda c: (q.call_name(c) == "leave_context" or q.attr_call(c)[1] == "_leave_context") and c.args and q.src(c.args[0]) == "self")]
    after_reg = cfg.reachable(regs, N) if regs else set()
    for n, c in _calls_on_self(en, "resume"):
        if n.id not in after_reg:
            continue            # (asyncio mode: nothing is registered)
        recvs = set(q.src(q.attr_call(c2)[0]) for n2, c2 in kit.call_sites(en, lambda c2: q.attr_call(c2)[1] == "_leave_context") if q.attr_call(c2)[0] is not None)

        def registered(e, recvs=recvs):
            # written-out form: nothing to unregister when there was no active task
            nd = cfg.nodes[e.src]
            if nd.kind != "test":
                return True
            k_, s_, pos_ = q.atom_test(nd.ast)
            return not (k_ == "isnone" and s_ in recvs and e.label == ("T" if pos_ else "F"))
        px = cfg.find_path([n], [cfg.raise_exit], X, cut_nodes=unregs, keep_edge=registered, include_source_check=False)
        R.check(px is None, P + ".ENTER-EXIT", en.qualname + ":resume-fails", R.site(en, c),
                "when self.resume() raises on entry, __enter__ unregisters the context before the exception leaves",
                "when self.resume() raises here the context stays registered with the task although the block is never entered and __exit__ never runs: "
                "the scheduler goes on pausing and resuming it at every suspension of the task (e.g. async_override of a missing attribute)",
                cfg.fmt_path(px) if px else None)
    pause_typestate(R, P)
    from ..roles import Roles as _Roles
    common.unwind_pauses(R, _Roles(R), P + ".UNWIND-PAUSE")
    # (a task kept across an unwind with a stale dependencies-scheduled flag is taken for blocked on a flush: its contexts get a spurious pause/resume
    # pair, a NonAsyncContext fails it although it was never suspended for a flush)
    common.unwind_flag_reset(R, _Roles(R), P + ".UNWIND-FLAG")
    common.typed_stack_elements(R, _Roles(R), P + ".UNWIND-TYPED")
    # the pause loop walks a copy of the task's context table: a pause() hook may leave a context of the same task (a context that
    # delegates to others and exits them when it is paused), which removes an entry - over the live table the next iteration step
    # raises "OrderedDict mutated during iteration" out of the scheduler and the remaining (outer) contexts are never paused
    pm_ = _Roles(R).AsyncTask.methods.get("_pause_contexts")
    if pm_ is not None:
        for lp_ in [n for n in ast.walk(pm_.node) if isinstance(n, ast.For) and any(q.attr_call(c)[1] == "pause" for c in q.calls(n))]:
            exprs_ = [lp_.iter]
            for x in ast.walk(lp_.iter):
                if isinstance(x, ast.Name):
                    exprs_ += [v for k_, v in common.assigned_values(pm_.node, x.id) if k_ == "expr"]
            copied = any(isinstance(x, ast.Call) and q.call_name(x) in ("list", "tuple", "sorted") for e_ in exprs_ for x in ast.walk(e_)) or \
                any(isinstance(x, (ast.ListComp,)) for e_ in exprs_ for x in ast.walk(e_))
            R.check(copied, P + ".HOOK-ALL", pm_.qualname + ":snapshot", R.site(pm_, lp_),
                    "the pause loop iterates a copy of the context table",
                    "the pause loop iterates the live context table (`%s`): a pause() hook that leaves a context of this task changes the table under the "
                    "iterator - RuntimeError (mutated during iteration) escapes from the scheduler and the contexts not reached yet stay active" % q.src(lp_.iter)[:60])
    from .c12 import running_on_every_step
    running_on_every_step(R, _Roles(R), P + ".UNWIND-PAUSE")
    # __exit__ unregisters before it pauses: if pause() raises, the context is nevertheless no longer known to the task
    ex = AC.methods.get("__exit__")
    cfg = cfg_of(ex)
    leaves = [n for n, c in kit.call_sites(ex, lambda c: q.call_name(c) == "leave_context" or q.attr_call(c)[1] == "_leave_context")]
    if any(q.attr_call(c)[1] == "_leave_context" for n, c in kit.call_sites(ex, lambda c: q.attr_call(c)[1] == "_leave_context")):
        # written-out form: with no active task there is nothing to unregister
        def _no_task(nd):
            if nd.kind != "test":
                return None
            k, s_, pos = q.atom_test(nd.ast)
            if k == "isnone" and ("active_task" in s_ or s_.endswith("_task")):
                return "T" if pos else "F"
            return None
    else:
        _leave_args = set(q.src(c.args[1]) for n, c in kit.call_sites(ex, lambda c: q.call_name(c) == "leave_context" and len(c.args) > 1))

        def _no_task(nd):
            if nd.kind != "test":
                return None
            k, s_, pos = q.atom_test(nd.ast)
            if k == "isnone" and s_ in _leave_args:
                return "T" if pos else "F"
            return None
    pauses = [n for n, c in _calls_on_self(ex, "pause")]

    def asyncio_mode(nd):
        if nd.kind != "test":
            return None
        k, s_, pos = q.atom_test(nd.ast)
        if k == "call" and s_ == "is_asyncio_mode":
            return "T" if pos else "F"
        return None

    def keep(e):
        lab = asyncio_mode(cfg.nodes[e.src])
        if lab is not None and e.label == lab:
            return False
        lab2 = _no_task(cfg.nodes[e.src])
        return not (lab2 is not None and e.label == lab2)
    p = cfg.find_path([cfg.entry], pauses, N, cut_nodes=leaves, keep_edge=keep)
    R.check(p is None and leaves and pauses, P + ".EXIT-ORDER", ex.qualname, R.site(ex),
            "outside asyncio mode __exit__ unregisters the context from its task before calling pause()",
            "__exit__ can call pause() before the context is unregistered: if pause() raises, the context stays registered with the task although its block "
            "was left, and the scheduler keeps pausing and resuming it (pause, pause; calls after the exit)", cfg.fmt_path(p) if p else None)
