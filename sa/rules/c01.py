"""C01 - async execution returns exactly what sequential evaluation would."""
import ast

from ..cfg import cfg_of, N, X, ExcHierarchy
from ..roles import Roles
from .. import q, kit
from . import common
from .structs import unwrap_rules, extract_rules, agree_rule

EXPLANATION = (
    "Structure, value-flow and build-agreement rules: unwrap and extract_futures dispatch on the same "
    "kinds of yielded values, unwrap preserves the container kind and applies itself to every element in "
    "source order; the value sent into a task's generator is unwrap(self._last_value) on the path where "
    "no error was caught; the generator's yield result is stored in _last_value and searched for "
    "futures; StopIteration.value, AsyncTaskResult.result and any other exception each end in exactly one "
    "completion of the task with that value/error; result(v) carries v unchanged; every calling "
    "convention routes to the same task construction with the same arguments (the C09 rules), contexts "
    "are paused innermost-first, and the scheduler captures failures of inline-computed futures; the "
    ".pxd declarations agree with the .py sources (fields assigned in cdef classes are declared, declared "
    "methods exist with the same arity, cdef-only methods are called only from compiled modules) so the "
    "compiled and the pure-Python build run the same program."
)


def run(R):
    R.extra["explanation"] = EXPLANATION
    ro = Roles(R)
    repo = R.repo
    hier = ExcHierarchy(repo)
    # ---- AGREE-STRUCT + SHAPE
    uk = unwrap_rules(R, "C01")
    ek, direction, efi = extract_rules(R, "C01")
    agree_rule(R, "C01", uk, ek, "value")
    agree_rule(R, "C01", uk, ek, "await")
    # ---- FLOW-SEND
    step = ro.generator_step_fn()
    driver = ro.step_method_task()
    scfg = cfg_of(step)
    sends = [(n, c) for n, c in ro.step_sites(step) if q.attr_call(c)[1] == "send"]
    R.need(sends, "idiom: no .send() on the task's generator")
    params = q.param_names(step.node)
    for n, c in sends:
        a = c.args[0] if c.args else None
        okp = isinstance(a, ast.Name) and a.id in params and not [v for v in common.assigned_values(step.node, a.id) if v[0] != "param"]
        R.check(okp, "C01.FLOW-SEND", step.qualname + ":param", R.site(step, c), "send() receives the stepper's value parameter unchanged",
                "send() receives `%s`, not the value handed to the stepper" % (q.src(a) if a is not None else None))
        vparam = a.id if isinstance(a, ast.Name) else None
        # send only when no error is pending
        ep = [p for p in params[1:] if p != vparam]

        def no_error(nd):
            if nd.kind != "test":
                return None
            k, s, pos = q.atom_test(nd.ast)
            if k == "isnone" and s in ep:
                return "T" if pos else "F"
            return None
        p = kit.path_avoiding_guard(scfg, [n], no_error, N)
        R.check(p is None, "C01.FLOW-SEND", step.qualname + ":no-error", R.site(step, c), "send() happens only when no error is pending",
                "send() can happen although an error is pending (the error is lost)", scfg.fmt_path(p) if p else None)
        for dn, dc in ro.calls_to(driver, [step]):
            arg = common.arg_for_param(dc, step, vparam) if vparam else None
            R.need(isinstance(arg, ast.Name), "idiom: the value argument of the stepper call is not a plain name")
            vals = common.assigned_values(driver.node, arg.id)
            srcs = sorted(set(q.src(v) if k == "expr" else k for k, v in vals))
            R.check(srcs == ["None", "unwrap(self._last_value)"], "C01.FLOW-SEND", driver.qualname + ":value", R.site(driver, dc),
                    "the value handed to the stepper is unwrap(self._last_value) (or None when unwrap failed)",
                    "the value handed to the stepper comes from %s, not from unwrap(self._last_value)" % srcs)
            # the None definition is the one paired with the caught error
            for k, v in vals:
                if k == "expr" and q.is_none(v):
                    st = q.enclosing_stmt(v)
                    R.check(q.enclosing(st, ast.ExceptHandler) is not None, "C01.FLOW-SEND", driver.qualname + ":paired", R.site(driver, st),
                            "value = None only together with the caught error", "the value can be None without an error having been caught")
    # ---- FLOW-ACCEPT
    acc_calls = [c for c in q.calls(driver.node) if q.call_name(c) == "self._accept_yield_result"]
    okc = len(acc_calls) == 1 and len(acc_calls[0].args) == 1 and any(acc_calls[0].args[0] is dc for dn, dc in ro.calls_to(driver, [step]))
    R.check(okc, "C01.FLOW-ACCEPT", driver.qualname, R.site(driver), "what the generator yields is handed to _accept_yield_result unchanged",
            "the generator's yield result is not passed unchanged to _accept_yield_result")
    ay = ro.AsyncTask.methods.get("_accept_yield_result")
    R.need(ay is not None, "anchor vanished: AsyncTask._accept_yield_result")
    rp = q.param_names(ay.node)[1]
    st = [n for n in q.scope_nodes(ay.node) if isinstance(n, ast.Assign) and q.src(n.targets[0]) == "self._last_value"]
    ex = [c for c in q.calls(ay.node) if q.call_name(c) == "extract_futures"]
    R.check(len(st) == 1 and q.src(st[0].value) == rp, "C01.FLOW-ACCEPT", ay.qualname + ":store", R.site(ay), "the yielded value is remembered in _last_value",
            "_last_value is not the yielded value")
    R.check(len(ex) == 1 and [q.src(a) for a in ex[0].args] == [rp, "self._dependencies"], "C01.FLOW-ACCEPT", ay.qualname + ":extract", R.site(ay),
            "its futures are collected into self._dependencies", "extract_futures is not applied to the yielded value / self._dependencies")
    # the steps return what send/throw return
    for n, c in ro.step_sites(step):
        stt = q.enclosing_stmt(c)
        R.check(isinstance(stt, ast.Return) and stt.value is c, "C01.FLOW-ACCEPT", step.qualname + ":" + q.stmt_key(c)[:30], R.site(step, c),
                "the stepper returns what the generator yielded", "the stepper does not return the generator's yield result unchanged")
    # _last_value is cleared before a step (so a stale structure is never unwrapped twice)
    # ---- FLOW-RESULT
    dcfg = cfg_of(driver)
    for dn, dc in ro.calls_to(driver, [step]):
        trs = kit.enclosing_try_handlers(dc)
        R.need(trs, "idiom: the step is not in a try")
        tr = trs[0]
        arms = {}
        for h in tr.handlers:
            arms[q.src(h.type) if h.type is not None else "<bare>"] = h
        R.check("StopIteration" in arms and "GeneratorExit" in arms, "C01.FLOW-RESULT", driver.qualname + ":arms", R.site(driver, tr),
                "the step's outcome is dispatched on StopIteration, GeneratorExit (AsyncTaskResult) and other exceptions",
                "the step's handlers are %s" % sorted(arms))
        all_comp = ro.completing_calls(driver)
        for name, h in arms.items():
            hn = kit.one(dcfg.nodes_for(h), "handler node")
            comp = [n for n, c, kind, v in all_comp if any(c is x for x in ast.walk(h))]
            # every path through the handler passes a completing call; none passes two
            after = [n for n in dcfg.nodes if n.kind in ("stmt", "test") and n.ast is not None and not any(n.ast is x for x in ast.walk(tr)) and n.lineno and n.lineno > tr.end_lineno]
            p = dcfg.find_path([hn], after, N, cut_nodes=comp)
            R.check(p is None and comp, "C01.FLOW-RESULT", "%s:%s:completes" % (driver.qualname, name), R.site(driver, h),
                    "every path through the %s arm completes the task (value or error)" % name, "the %s arm can be left without completing the task" % name,
                    dcfg.fmt_path(p) if p else None)
            bad = None
            for cnode in comp:
                starts = [e.dst for e in dcfg.out_edges(cnode.id, N)]
                pp = dcfg.find_path(starts, comp, N, cut_nodes=[n for n in dcfg.nodes if n.kind == "loop"])
                bad = bad or pp
            R.check(bad is None, "C01.FLOW-RESULT", "%s:%s:once" % (driver.qualname, name), R.site(driver, h), "at most one completion per step", "two completions on one path")
        h = arms.get("StopIteration")
        if h is not None:
            vals_ = [v for n, c, kind, v in all_comp if kind == "value" and any(c is x for x in ast.walk(h))]
            okv = len(vals_) == 1 and isinstance(vals_[0], ast.Name)
            if okv:
                vals = common.assigned_values(driver.node, vals_[0].id)
                srcs = sorted(set(q.src(v) if k == "expr" else k for k, v in vals))
                okv = srcs == sorted(["%s.value" % h.name, "None"]) or srcs == ["getattr(%s, 'value', None)" % h.name]
            elif len(vals_) == 1:
                okv = q.src(vals_[0]) in ("%s.value" % h.name, "getattr(%s, 'value', None)" % h.name)
            R.check(okv, "C01.FLOW-RESULT", driver.qualname + ":return-value", R.site(driver, h), "`return x` completes the task with x (StopIteration.value)",
                    "the task's value is not StopIteration.value")
        h = arms.get("GeneratorExit")
        if h is not None:
            vals_ = [q.src(v) for n, c, kind, v in all_comp if kind == "value" and any(c is x for x in ast.walk(h))]
            R.check("%s.result" % h.name in vals_, "C01.FLOW-RESULT", driver.qualname + ":result-value", R.site(driver, h),
                    "result(x) completes the task with x (AsyncTaskResult.result)", "AsyncTaskResult.result is not the task's value")
            tst = [n for n in ast.walk(h) if isinstance(n, ast.Compare) and "AsyncTaskResult" in q.src(n)]
            R.check(bool(tst), "C01.FLOW-RESULT", driver.qualname + ":result-type", R.site(driver, h), "the AsyncTaskResult case is recognised by its type", "AsyncTaskResult is no longer recognised")

            def is_result(nd):
                if nd.kind != "test":
                    return None
                k, s, pos = q.atom_test(nd.ast)
                if (k == "is" and any(x.split(".")[-1] == "AsyncTaskResult" for x in s)) or (k == "isinstance" and s[1].split(".")[-1] == "AsyncTaskResult"):
                    return "T" if pos else "F"
                return None
            rnodes = [n for n, c, kind, v in all_comp if kind == "value" and q.src(v) == "%s.result" % h.name and any(c is x for x in ast.walk(h))]
            if rnodes:
                p = kit.path_avoiding_guard(dcfg, rnodes, is_result, N)
                R.check(p is None, "C01.FLOW-RESULT", driver.qualname + ":result-guard", R.site(driver, h),
                        "`.result` is read only from an exception that is an AsyncTaskResult", "`.result` can be read from a GeneratorExit that is not an AsyncTaskResult (and result(x) is then treated as a plain exit)",
                        dcfg.fmt_path(p) if p else None)
    ur = repo.fn("utils.result")
    rs = [n for n in q.scope_nodes(ur.node) if isinstance(n, ast.Raise)]
    R.check(len(rs) == 1 and q.src(rs[0].exc) == "async_task.AsyncTaskResult(%s)" % q.param_names(ur.node)[0], "C01.FLOW-RESULT", ur.qualname, R.site(ur),
            "result(v) raises AsyncTaskResult(v)", "result(v) does not raise AsyncTaskResult(v)")
    atr = repo.cls("async_task.AsyncTaskResult")
    ini = atr.methods.get("__init__")
    okr = ini is not None and any(isinstance(n, ast.Assign) and q.src(n.targets[0]) == "self.result" and q.src(n.value) == q.param_names(ini.node)[1] for n in ast.walk(ini.node))
    R.check(okr and atr.bases == [("ext", "GeneratorExit")], "C01.FLOW-RESULT", atr.qualname, R.site(atr.module, atr.node),
            "AsyncTaskResult stores its argument in .result and is a GeneratorExit", "AsyncTaskResult no longer carries its argument in .result as a GeneratorExit")
    fw = repo.fn("decorators.PureAsyncDecorator._fn_wrapper")
    rs = [n for n in q.scope_nodes(fw.node) if isinstance(n, ast.Raise)]
    R.check(len(rs) == 1 and q.src(rs[0].exc) == "async_task.AsyncTaskResult(self.fn(*args, **kwargs))" and q.has_yield(fw.node), "C01.FLOW-RESULT", fw.qualname, R.site(fw),
            "a plain function's return value becomes the task's value (generator wrapper raising AsyncTaskResult(fn(*args, **kwargs)))",
            "the wrapper for plain functions no longer delivers fn(*args, **kwargs) as the task's value lazily")
    # ---- calling conventions, contexts, inline futures (supporting rules decided by their own properties too)
    from . import c09
    c09.run(R, "C01.CALLCONV")
    from .c02 import capture_guard
    capture_guard(R, ro, "C01.INLINE-FUTURE")
    common.escape_rule(R, ro, "C01.ESCAPE", ("step", "provider", "flush"), "delivered as the awaiting task's input")
    from .c07 import loop_direction
    for mname, hook, want in (("_pause_contexts", "pause", "reverse"), ("_resume_contexts", "resume", "forward")):
        m = ro.AsyncTask.methods.get(mname)
        R.need(m is not None, "anchor vanished: AsyncTask.%s" % mname)
        loops = [n for n in ast.walk(m.node) if isinstance(n, ast.For) and any(q.attr_call(c)[1] == hook for c in q.calls(n))]
        R.need(len(loops) == 1, "idiom: %s does not call ctx.%s() in one loop" % (mname, hook))
        d = loop_direction(loops[0].iter, "self._contexts", m.node)
        R.need(d is not None, "idiom: unrecognised iteration `%s` in %s" % (q.src(loops[0].iter), mname))
        R.check(d == want, "C01.CONTEXT-ORDER", m.qualname, R.site(m, loops[0]), "%s hooks run %s" % (hook, want),
                "%s hooks run %s: nested overrides of one task restore in the wrong order and a sibling reads a leaked value" % (hook, d))
    common.blocked_all(R, ro, "C01.BLOCKED-ALL")
    common.unwrap_capture(R, ro, "C01.CAPTURE-ALL")
    common.wait_for_exits(R, ro, "C01.WAIT-FOR")
    # ---- BUILD
    build_rules(R, ro)
    if R.tier == "thorough":
        from ..cyir import compile_witness
        compile_witness(R)
    common.call_with_context_rule(R, "C01.SHAPE")
    R.require_min("C01.SHAPE", 7)
    R.require_min("C01.FLOW-RESULT", 10)
    R.require_min("C01.BUILD", 40)


PY_SUBCLASS_ONLY = {
    # classes only ever instantiated through qcore.decorators.decorate(), whose wrapper is a Python-level subclass
    # (instances have a __dict__), so undeclared attributes are legal in the compiled build
    "decorators.PureAsyncDecorator", "decorators.AsyncDecorator", "decorators.AsyncAndSyncPairDecorator",
    "decorators.AsyncProxyDecorator", "decorators.AsyncAndSyncPairProxyDecorator",
}


def noexcept_rule(R, rule):
    """No function of the mechanism is declared `noexcept`: an exception raised inside a noexcept cdef function is printed to stderr and
    dropped, and the function returns a default value - a failure that should become a task's error or end the computation vanishes
    (only in the compiled build)."""
    n = 0
    for mname in sorted(R.repo.cython_modules):
        m = R.repo.modules[mname]
        if m.pxd is None:
            continue
        fns = [(None, f) for f in m.pxd.functions.values()] + [(c.name, f) for c in m.pxd.classes.values() for f in c.methods.values()]
        for cname, pf in fns:
            n += 1
            R.check(pf.exc != "noexcept", rule, "%s.%s%s:noexcept" % (mname, cname + "." if cname else "", pf.name), "%s:%d" % (m.pxd_path.split("/")[-1], pf.line),
                    "%s propagates exceptions" % pf.name,
                    "%s%s is declared noexcept: whatever is raised inside it (a context hook's error, a task's failure on its way out, KeyboardInterrupt) is "
                    "printed and swallowed in the compiled build, and the caller goes on with a default return value" % (cname + "." if cname else "", pf.name))
    return n


def build_rules(R, ro):
    repo = R.repo
    noexcept_rule(R, "C01.BUILD")
    for mname in repo.cython_modules:
        m = repo.modules[mname]
        if m.pxd is None:
            R.ok("C01.BUILD", m.relpath, "%s is compiled without a .pxd (pure Python semantics, no C typing)" % mname)
            continue
        for cname, pc in m.pxd.classes.items():
            c = m.classes.get(cname)
            R.check(c is not None, "C01.BUILD", "%s.%s:exists" % (mname, cname), "%s:%d" % (m.pxd_path.split("/")[-1], pc.line),
                    "cdef class %s has a Python definition" % cname, "the .pxd declares cdef class %s which %s.py does not define" % (cname, mname))
            if c is None:
                continue
            # (b) fields
            declared = set()
            for k in c.mro():
                if hasattr(k, "pxd") and k.pxd is not None:
                    declared |= set(k.pxd.fields)
            ext = c.ext_bases()
            used = {}
            for meth in c.methods.values():
                for recv, attr, node in q.attr_stores(meth.node):
                    if recv == "self":
                        used.setdefault(attr, (meth, node))
            for attr, (meth, node) in sorted(used.items()):
                if c.qualname in PY_SUBCLASS_ONLY:
                    continue
                if ext and attr not in declared:
                    R.info("%s.%s may be declared by external base %s" % (c.qualname, attr, ext))
                    continue
                R.check(attr in declared, "C01.BUILD", "%s.%s:field" % (c.qualname, attr), R.site(meth, node),
                        "cdef class %s declares the field %s it assigns" % (cname, attr),
                        "cdef class %s assigns self.%s, which no .pxd declares: works in the pure-Python build, AttributeError in the compiled one" % (cname, attr))
            # (d) methods
            for pm_name, pm in pc.methods.items():
                meth = c.methods.get(pm_name)
                if meth is None and pm_name in m.inlined.get(cname, ()):
                    R.ok("C01.BUILD", "%s:%d" % (m.pxd_path.split("/")[-1], pm.line), "%s.%s is a new private helper, analysed inlined at its call sites" % (cname, pm_name))
                    continue
                R.check(meth is not None, "C01.BUILD", "%s.%s:method" % (c.qualname, pm_name), "%s:%d" % (m.pxd_path.split("/")[-1], pm.line),
                        "%s.%s declared in the .pxd is defined in the .py" % (cname, pm_name), "the .pxd declares %s.%s, which the .py does not define" % (cname, pm_name))
                if meth is None:
                    continue
                a = meth.node.args
                npy = len(a.posonlyargs) + len(a.args)
                R.check(npy == len(pm.params), "C01.BUILD", "%s.%s:arity" % (c.qualname, pm_name), R.site(meth),
                        "%s.%s takes %d parameters in both .py and .pxd" % (cname, pm_name, npy),
                        "%s.%s takes %d parameters in the .py but %d in the .pxd" % (cname, pm_name, npy, len(pm.params)))
        for fname, pf in m.pxd.functions.items():
            f = m.functions.get(fname)
            if f is None and fname in m.inlined.get(None, ()):
                continue
            R.check(f is not None, "C01.BUILD", "%s.%s:function" % (mname, fname), "%s:%d" % (m.pxd_path.split("/")[-1], pf.line),
                    "%s.%s declared in the .pxd is defined in the .py" % (mname, fname), "the .pxd declares %s.%s, which the .py does not define" % (mname, fname))
    # (c) cdef-only methods are not called from modules that are not compiled
    cdef_only = {}
    for mname in repo.cython_modules:
        m = repo.modules[mname]
        if m.pxd is None:
            continue
        for cname, pc in m.pxd.classes.items():
            for pm_name, pm in pc.methods.items():
                if pm.kind == "cdef":
                    cdef_only.setdefault(pm_name, []).append("%s.%s" % (mname, cname))
        for fname, pf in m.pxd.functions.items():
            if pf.kind == "cdef":
                cdef_only.setdefault(fname, []).append(mname)
    for mname, m in repo.modules.items():
        if mname in repo.cython_modules or mname == "__init__":
            continue
        for f in m.all_functions.values():
            for call, tg, kind in R.res.callees(f):
                if kind != "resolved":
                    continue
                for t in tg:
                    px = t.pxd()
                    if px is not None and px.kind == "cdef" and t.module.name in repo.cython_modules:
                        R.violation("C01.BUILD", "%s->%s" % (f.qualname, t.qualname), R.site(f, call),
                                    "%s (not compiled) calls %s, which the .pxd declares cdef: invisible from Python in the compiled build" % (f.qualname, t.qualname))
    R.ok("C01.BUILD", "asynq/*.py", "no module outside CYTHON_MODULES calls a cdef-only function (%d cdef-only names)" % len(cdef_only))
