"""C08 - active task is always the running one; scheduler is clean after any outcome."""
import ast

from ..cfg import cfg_of, N, X
from ..roles import Roles
from .. import q, kit
from . import common

EXPLANATION = (
    "Pairing, stack-effect and reset rules over TaskScheduler: active_task is saved before it is set, "
    "is the task while it is stepped and is restored on every exit of the continue-task method "
    "(exceptional exits and early returns included); the drain records its entry height before pushing, "
    "pops at most once per iteration, and every exceptional exit truncates the stack to the entry "
    "height without touching enclosing computations; the runaway-recursion guard resets the scheduler "
    "(stack, pending batches, active task) before raising RuntimeError; a task that a context hook may "
    "have completed is not stepped; faults of task steps, value providers and flush bodies never cross "
    "a scheduler frame; the getters read the per-thread state."
)


def run(R):
    R.extra["explanation"] = EXPLANATION
    ro = Roles(R)
    stack_not_aliased(R, ro, "C08.UNWIND.SCOPE")
    common.pop_after_user_code(R, ro, "C08.LIMIT-RESET")
    reset_callers(R, ro)
    common.active_task_pair(R, ro, "C08.ACTIVE-PAIR")
    common.unwind_rule(R, ro, "C08.UNWIND")
    common.typed_stack_elements(R, ro, "C08.UNWIND-TYPED")
    common.step_live(R, ro, "C08.STEP-LIVE")
    common.escape_rule(R, ro, "C08.ESCAPE", ("step", "provider", "flush"), "so the scheduler keeps running")
    from .c02 import capture_guard
    capture_guard(R, ro, "C08.CAPTURE-GUARD")
    active_own(R, ro)
    stack_effect(R, ro)
    reset_rules(R, ro)
    batch_residue(R, ro)
    getters(R, ro)
    R.require_min("C08.ACTIVE-PAIR", 3)
    R.require_min("C08.RESET", 4)


def stack_effect(R, ro):
    drain = ro.drain_method()
    hm = ro.handle_task_method()
    sf = ro.stack_field()
    for m in (drain, hm):
        cfg = cfg_of(m)
        pops = [n for n, c in kit.call_sites(m, lambda c: q.call_name(c) == "self.%s.pop" % sf)]
        loops = [n for n in cfg.nodes if n.kind == "loop"] if m is drain else []
        # no path pops twice within one iteration / one call
        bad = None
        for pnode in pops:
            starts = [e.dst for e in cfg.out_edges(pnode.id, N)]
            p = cfg.find_path(starts, pops, N, cut_nodes=loops)
            if p is not None:
                bad = [pnode] + p
        R.check(bad is None, "C08.STACK-EFFECT", m.qualname + ":pop-once", R.site(m),
                "no path pops the task stack twice in one %s" % ("iteration of the drain loop" if m is drain else "call"),
                "two pops on one path: a task of the enclosing computation (or of the caller) is removed from the stack",
                cfg.fmt_path(bad) if bad else None)
    # a pop in the drain only removes the entry that was examined: between reading the top and the pop
    # nothing else is pushed by the drain itself (pushes happen in the handle method, which does not pop after pushing)
    hcfg = cfg_of(hm)
    pushes = [n for n, c in kit.call_sites(hm, lambda c: q.call_name(c) == "self.%s.append" % sf)]
    hpops = [n for n, c in kit.call_sites(hm, lambda c: q.call_name(c) == "self.%s.pop" % sf)]
    bad = None
    for pu in pushes:
        starts = [e.dst for e in hcfg.out_edges(pu.id, N)]
        p = hcfg.find_path(starts, hpops, N)
        if p is not None:
            bad = [pu] + p
    R.check(bad is None, "C08.STACK-EFFECT", hm.qualname + ":push-then-pop", R.site(hm),
            "after pushing dependencies the handler does not pop (it would remove a dependency instead of the task)",
            "the handler can pop after pushing: the popped entry is a just-scheduled dependency", hcfg.fmt_path(bad) if bad else None)


def reset_rules(R, ro):
    ts = ro.TS
    rs = ts.methods.get("reset")
    R.need(rs is not None, "anchor vanished: TaskScheduler.reset")
    sf, bf = ro.stack_field(), ro.batches_field()
    cfg = cfg_of(rs)

    def fresh(val, kinds):
        if isinstance(val, ast.List) and not val.elts:
            return "list" in kinds
        if isinstance(val, ast.Call) and q.call_name(val) in kinds and not val.args:
            return True
        return False

    want = {sf: ("list",), bf: ("set",), "active_task": ()}
    for field, kinds in want.items():
        stores = [n for n in kit.store_nodes(rs, field) if isinstance(n.ast, ast.Assign)]
        good = []
        for n in stores:
            v = n.ast.value
            if field == "active_task":
                if q.is_none(v):
                    good.append(n)
            elif fresh(v, kinds):
                good.append(n)
        clears = [n for n, c in kit.call_sites(rs, lambda c: q.call_name(c) == "self.%s.clear" % field)]
        good += clears
        p = cfg.find_path([cfg.entry], [cfg.exit], N, cut_nodes=good)
        R.check(p is None and good, "C08.RESET", "%s:%s" % (rs.qualname, field), R.site(rs),
                "reset() re-initialises self.%s on every path" % field,
                "reset() can return without re-initialising self.%s: the next computation on this thread starts with leftovers" % field,
                cfg.fmt_path(p) if p else None)
    # the runaway guard resets before raising
    drain = ro.drain_method()
    dcfg = cfg_of(drain)
    guards = []
    for n in dcfg.nodes:
        if n.kind == "test":
            k, s, pos = q.atom_test(n.ast)
            if k == "lt" and "MAX_TASK_STACK_SIZE" in (s[0] + s[1]) and any(x in s for x in common.stack_height_names(ro)[1]):
                # lt(a, b): a < b ; exceeded when MAX < len
                exceeded = "T" if (s[0].endswith("MAX_TASK_STACK_SIZE")) == pos else "F"
                guards.append((n, exceeded))
    R.check(bool(guards), "C08.RESET", drain.qualname + ":guard-present", R.site(drain),
            "the drain compares the stack height with MAX_TASK_STACK_SIZE",
            "the runaway-recursion guard (stack height vs MAX_TASK_STACK_SIZE) is gone")
    resets = [n for n, c in kit.call_sites(drain, lambda c: q.call_name(c) == "self.reset")]
    for g, lab in guards:
        starts = [e.dst for e in dcfg.out_edges(g.id, N) if e.label == lab]
        # (a fault of some other statement of the branch is not "the RuntimeError that stops runaway recursion"; the exits that
        # matter are the RuntimeError raise itself and leaving the branch normally)
        rt_raises = [n for n in dcfg.nodes if n.kind == "stmt" and isinstance(n.ast, ast.Raise) and n.ast.exc is not None and
                     (q.call_name(n.ast.exc) if isinstance(n.ast.exc, ast.Call) else q.dotted(n.ast.exc)) == "RuntimeError"]
        ends_ = rt_raises + [dcfg.exit] + [n for n in dcfg.nodes if n.kind == "loop"]
        noexc_ = lambda e: not (e.implicit and dcfg.nodes[e.dst].kind == "except")
        p = dcfg.find_path(starts, ends_, N, cut_nodes=resets, keep_edge=noexc_)
        if p is not None or not resets:
            # reset() written out: the stack and the set of pending batches are both given fresh empty containers (or cleared)
            sfq, bfq = "self." + ro.stack_field(), "self." + ro.batches_field()

            def reinit(field):
                out = []
                for x in dcfg.nodes:
                    if x.kind == "stmt" and isinstance(x.ast, ast.Assign) and any(q.src(t) == field for t in x.ast.targets):
                        v = x.ast.value
                        if (isinstance(v, (ast.List, ast.Set, ast.Dict)) and not getattr(v, "elts", getattr(v, "keys", []))) or \
                                (isinstance(v, ast.Call) and q.call_name(v) in ("list", "set", "dict") and not v.args):
                            out.append(x)
                out += [x for x, c_ in kit.call_sites(drain, lambda c_: q.call_name(c_) == field + ".clear")]
                return out
            rs_, rb_ = reinit(sfq), reinit(bfq)
            if rs_ and rb_:
                p1 = dcfg.find_path(starts, ends_, N, cut_nodes=rs_ + resets, keep_edge=noexc_)
                p2 = dcfg.find_path(starts, ends_, N, cut_nodes=rb_ + resets, keep_edge=noexc_)
                p = p1 or p2
                if p is None:
                    resets = resets or (rs_ + rb_)
        R.check(p is None and resets, "C08.RESET", drain.qualname + ":guard-resets", R.site(drain, g.ast),
                "when the stack limit is exceeded the scheduler is reset before RuntimeError is raised",
                "the stack-limit branch raises without resetting the scheduler: batches scheduled by the runaway computation stay pending "
                "and are flushed by the next computation on this thread", dcfg.fmt_path(p) if p else None)
        raises = [n for n in dcfg.nodes if n.kind == "stmt" and isinstance(n.ast, ast.Raise) and n.ast.exc is not None and
                  (q.call_name(n.ast.exc) if isinstance(n.ast.exc, ast.Call) else q.dotted(n.ast.exc)) == "RuntimeError"]
        p = dcfg.find_path(starts, [dcfg.exit] + [e.dst for e in dcfg.out_edges(g.id, N) if e.label != lab], N, cut_nodes=raises)
        p2 = dcfg.find_path(starts, [n for n in dcfg.nodes if n.kind == "loop"], N, cut_nodes=raises)
        R.check(p2 is None and raises, "C08.RESET", drain.qualname + ":guard-raises", R.site(drain, g.ast),
                "exceeding the stack limit raises RuntimeError", "exceeding the stack limit no longer raises RuntimeError on every path",
                dcfg.fmt_path(p2) if p2 else None)
        # reset() also clears the active task, but the limit can be hit inside a synchronous call made by a task: that task is still
        # executing when the RuntimeError reaches it (it may handle it and go on) - the active task is put back after the reset
        rs_fn = ro.TS.methods.get("reset")
        clears_active = rs_fn is not None and any(attr == "active_task" for recv, attr, nd in q.attr_stores(rs_fn.node) if recv == "self")
        reset_calls = [n for n, c in kit.call_sites(drain, lambda c: q.call_name(c) == "self.reset")]
        if clears_active and reset_calls:
            resets = reset_calls
            restores = []
            for x in dcfg.nodes:
                if x.kind == "stmt" and isinstance(x.ast, ast.Assign) and any(q.src(t) == "self.active_task" for t in x.ast.targets) and isinstance(x.ast.value, ast.Name):
                    vals_ = common.assigned_values(drain.node, x.ast.value.id)
                    svn = [y for y in dcfg.nodes if y.kind == "stmt" and isinstance(y.ast, ast.Assign) and any(isinstance(t, ast.Name) and t.id == x.ast.value.id for t in y.ast.targets)]
                    if vals_ and all(k_ == "expr" and q.src(v_) == "self.active_task" for k_, v_ in vals_) and svn \
                            and all(dcfg.find_path(svn, [r_], N) is not None and dcfg.find_path([r_], svn, N, cut_nodes=[n for n in dcfg.nodes if n.kind == "loop"]) is None for r_ in resets):
                        restores.append(x)
            after = [e.dst for r_ in resets for e in dcfg.out_edges(r_.id, N) if e.label != "exc"]
            pa = dcfg.find_path(after, rt_raises, N, cut_nodes=restores)
            R.check(pa is None and restores, "C08.RESET", drain.qualname + ":guard-keeps-active", R.site(drain, g.ast),
                    "the task that was active before the reset (the caller of a nested synchronous call, or none) is active again when RuntimeError is raised",
                    "reset() clears active_task and the stack-limit branch does not put it back: a task that made the synchronous call which ran away, and that "
                    "handles the RuntimeError, goes on with get_active_task() returning None - contexts it enters afterwards are not registered with it",
                    dcfg.fmt_path(pa) if pa else None)


def reset_callers(R, ro, rule="C08.RESET"):
    """reset() clears the active task.  Outside the constructor it may therefore run only where the task that is executing (a
    caller of a nested synchronous call) is put back afterwards - the stack-limit branch of the drain does that.  The end of
    wait_for() is such a place, too: the stack can be empty while a task is still executing (after the limit branch emptied it)."""
    rs_fn = ro.TS.methods.get("reset")
    if rs_fn is None or not any(attr == "active_task" for recv, attr, nd in q.attr_stores(rs_fn.node) if recv == "self"):
        R.ok(rule, R.site(ro.TS.module, ro.TS.node), "reset() does not touch the active task (or is written out)")
        return
    for m in ro.ts_methods():
        if m.name in ("__init__", "reset"):
            continue
        cfg = cfg_of(m)
        for n, c in kit.call_sites(m, lambda c: q.call_name(c) == "self.reset"):
            restores = []
            for x in cfg.nodes:
                if x.kind == "stmt" and isinstance(x.ast, ast.Assign) and any(q.src(t) == "self.active_task" for t in x.ast.targets) and isinstance(x.ast.value, ast.Name):
                    vals_ = common.assigned_values(m.node, x.ast.value.id)
                    if vals_ and all(k_ == "expr" and q.src(v_) == "self.active_task" for k_, v_ in vals_):
                        restores.append(x)
            after = [e.dst for e in cfg.out_edges(n.id, N) if e.label != "exc"]
            pa = cfg.find_path(after, [cfg.exit, cfg.raise_exit], N, cut_nodes=restores)
            R.check(pa is None and restores, rule, "%s:reset-keeps-active" % m.qualname, R.site(m, c),
                    "after self.reset() in %s the task that was active is active again" % m.name,
                    "%s calls self.reset(), which also clears active_task, and does not put the active task back: when the stack is empty while a task is "
                    "still executing (a nested synchronous call hit the stack limit), that task goes on with get_active_task() returning None - the tasks "
                    "it creates have no creator, the contexts it enters are not registered with it" % m.name, cfg.fmt_path(pa) if pa else None)


def batch_residue(R, ro, rule="C08.UNWIND.BATCHES"):
    """When an exception leaves wait_for and no computation is left on the stack, the pending batches (scheduled by the tasks
    that are being abandoned) are dropped: otherwise the next computation on the thread flushes them - it does not behave as
    on a fresh scheduler."""
    wf = ro.wait_for()
    cfg = cfg_of(wf)
    sf, bf = "self." + ro.stack_field(), "self." + ro.batches_field()
    drops = [n for n in cfg.nodes if n.kind == "stmt" and (
        (isinstance(n.ast, ast.Assign) and any(q.src(t) == bf for t in n.ast.targets) and
         ((isinstance(n.ast.value, ast.Call) and q.call_name(n.ast.value) == "set" and not n.ast.value.args) or (isinstance(n.ast.value, ast.Set) and not n.ast.value.elts)))
        or any(q.call_name(c) in (bf + ".clear", "self.reset") for c in kit.node_calls(n)))]

    def enclosing_left(e):
        nd = cfg.nodes[e.src]
        if nd.kind != "test":
            return False
        k, s, pos = q.atom_test(nd.ast)
        if k == "truth" and s == sf:
            return e.label == ("T" if pos else "F")          # the stack is not empty: an enclosing computation goes on
        if k in ("eq", "lt") and "len(%s)" % sf in s and "0" in s:
            # len(stack) == 0 -> F edge is "not empty";  0 < len(stack) -> T edge
            return e.label == (("F" if pos else "T") if k == "eq" else ("T" if pos else "F"))
        return False
    p = cfg.find_path([cfg.entry], [cfg.raise_exit], X, cut_nodes=drops, keep_edge=lambda e: not enclosing_left(e))
    R.check(p is None and drops, rule, wf.qualname, R.site(wf),
            "an exception leaves wait_for only after the pending batches were dropped, unless an enclosing computation is still on the stack",
            "an exception can leave wait_for with the batches of the abandoned computation still pending in %s: the next computation on this thread "
            "flushes them (it does not behave as on a fresh scheduler)" % bf, cfg.fmt_path(p) if p else None)
    # ... and so does a normal return: the awaited task may have been failed while it was waiting for a batch (a NonAsyncContext,
    # a context whose pause() raised), which ends the computation without any exception passing through wait_for
    p = cfg.find_path([cfg.entry], [cfg.exit], N, cut_nodes=drops, keep_edge=lambda e: not enclosing_left(e))
    R.check(p is None and drops, rule, wf.qualname + ":normal", R.site(wf),
            "wait_for returns only after the pending batches were dropped, unless an enclosing computation is still on the stack",
            "wait_for can return with batches still pending in %s although no computation is left: a task that was failed while waiting (by a context) "
            "leaves its batch to be flushed by the next computation" % bf, cfg.fmt_path(p) if p else None)


def getters(R, ro):
    sm = R.repo.modules["scheduler"]
    # the per-thread holder
    holder = None
    for targets, value, node in R.repo.module_assigns(sm):
        if isinstance(value, ast.Call):
            r = R.repo.resolve_dotted(sm, q.call_name(value) or "")
            if r and r[0] == "class" and "threading.local" in r[1].ext_bases() and targets:
                holder = (targets[0], r[1])
    R.check(holder is not None, "C08.GETTER", "scheduler:_state", "asynq/scheduler.py",
            "the scheduler module keeps its state in an instance of a threading.local subclass",
            "the scheduler's module-level state is no longer thread-local")
    if holder is None:
        return
    hname = holder[0]
    for fn, attr in (("get_scheduler", None), ("get_active_task", "active_task")):
        f = sm.functions.get(fn)
        R.need(f is not None, "anchor vanished: scheduler.%s" % fn)
        reads = [d for d, a, n in q.attr_loads(f.node) if d == hname and a == "current"]
        ok = bool(reads)
        if attr:
            ok = ok and any(a == attr for d, a, n in q.attr_loads(f.node))
        R.check(ok, "C08.GETTER", f.qualname, R.site(f),
                "%s() reads %s.current%s" % (fn, hname, "." + attr if attr else ""),
                "%s() no longer reads the per-thread scheduler state" % fn)
        # ... on every call, and from nowhere else: what it returns is the holder's scheduler (or its field), not something a
        # module-level name remembered from an earlier call (on whichever thread made that call)
        mod_names = set(t for tg, v_, nd_ in R.repo.module_assigns(sm) for t in tg) - set([hname])
        stores_g = [n for n in q.scope_nodes(f.node) if isinstance(n, (ast.Assign, ast.AugAssign)) and (q.names_stored(n) & mod_names)
                    and any(isinstance(g, ast.Global) and (set(g.names) & q.names_stored(n)) for g in ast.walk(f.node))]
        loads_g = [x for x in q.scope_nodes(f.node) if isinstance(x, ast.Name) and isinstance(x.ctx, ast.Load) and x.id in mod_names
                   and x.id not in ("_state",) and not x.id[0].isupper() and any(isinstance(g, ast.Global) and x.id in g.names for g in ast.walk(f.node))]
        R.check(not stores_g and not loads_g, "C08.GETTER", f.qualname + ":uncached", R.site(f, (stores_g or loads_g or [f.node])[0]),
                "%s() keeps nothing between calls" % fn,
                "%s() remembers a scheduler in the module-level name `%s`: the name is shared by all threads, so a thread that calls it after another thread "
                "did gets that thread's scheduler - inside its own tasks get_active_task() is None (the other scheduler is idle)"
                % (fn, ", ".join(sorted(set([t for n in stores_g for t in q.names_stored(n) & mod_names] + [x.id for x in loads_g])))))

    # ---- the scheduler object holds tasks in its stack only: a field that keeps what was dropped from the stack (for a dump, "for
    # debugging") retains every task of the ended computation - generators, arguments and all - across later computations
    sf = ro.stack_field()
    for m in ro.ts_methods():
        derived = set()
        for n in q.scope_nodes(m.node):
            if isinstance(n, ast.Assign) and len(n.targets) == 1 and isinstance(n.targets[0], ast.Name):
                if ("self." + sf) in q.src(n.value) or (q.names_loaded(n.value) & derived):
                    derived.add(n.targets[0].id)
        for n in q.scope_nodes(m.node):
            if isinstance(n, ast.Assign):
                for t in n.targets:
                    if isinstance(t, ast.Attribute) and q.src(t.value) == "self" and t.attr != sf:
                        from_stack = ("self." + sf) in q.src(n.value) or bool(q.names_loaded(n.value) & derived)
                        R.check(not from_stack, "C08.UNWIND", "%s:retains:%s" % (m.qualname, t.attr), R.site(m, n),
                                "self.%s does not hold entries of the task stack" % t.attr,
                                "%s stores entries of the task stack in self.%s: the tasks of a computation that has ended (dropped from the stack by an "
                                "exception or the stack limit) stay referenced by the scheduler across later computations" % (m.qualname, t.attr))


def stack_not_aliased(R, ro, rule):
    """The task stack is a field that methods of the scheduler replace (reset() binds a new list; unwinding may rebind it): a local
    bound to the list object and used across calls goes on working on the old list after such a replacement - tasks it pushes or pops
    are not the scheduler's any more, and what the replacement kept stays on the scheduler for ever.  (A local that is only read before
    anything else can run has been replaced by the field read by the normaliser and does not count.)"""
    ts = ro.TS
    sf = ro.stack_field()
    rebinders = sorted(set(m.name for m in ts.methods.values() if m.name != "__init__" for n in q.scope_nodes(m.node)
                           if isinstance(n, ast.Assign) and any(q.src(t) == "self." + sf or (isinstance(t, ast.Tuple) and any(q.src(e) == "self." + sf for e in t.elts)) for t in n.targets)))
    R.need(rebinders, "idiom: no method rebinds self.%s (reset() used to)" % sf)
    n = 0
    for m in ts.methods.values():
        for st in q.scope_nodes(m.node):
            if isinstance(st, ast.Assign) and q.src(st.value) == "self." + sf and any(isinstance(t, ast.Name) for t in st.targets):
                n += 1
                R.violation(rule, "%s:alias:%s" % (m.qualname, q.src(st.targets[0])), R.site(m, st),
                            "%s keeps working on `%s`, a local bound to the list object in self.%s, across calls, while %s rebind%s the field: after a "
                            "nested computation was unwound (or the scheduler reset) the local is a different list than the scheduler's - the loop drains a "
                            "dead list and the scheduler keeps the outer tasks for ever" % (m.qualname, q.src(st.targets[0]), sf, ", ".join(rebinders), "s" if len(rebinders) == 1 else ""))
    if not n:
        R.ok(rule, R.site(ts.module, ts.node), "no method works on a local alias of self.%s across calls (rebound by %s)" % (sf, ", ".join(rebinders)))


def active_own(R, ro, rule="C08.ACTIVE-OWN"):
    """self.active_task is written only by the continue-task method (save/set/restore) and by
    reset(): any other writer changes what get_active_task() reports while a task's code runs."""
    ct = ro.continue_task_method()
    allowed = set([ct.qualname, "scheduler.TaskScheduler.reset", "scheduler.TaskScheduler.__init__"])
    n = 0
    for f in R.repo.all_functions():
        for recv, attr, node in q.attr_stores(f.node):
            if attr != "active_task":
                continue
            rc = R.res.expr_class(f, node.value) if recv != "self" else ({f.cls} if f.cls is not None else None)
            if rc is not None and not any(c is not None and c.is_subclass_of(ro.TS) for c in rc):
                continue
            n += 1
            st_ = q.enclosing_stmt(node)
            # putting back what was read from the same field around a reset() that clears it (the stack-limit branch keeps the task that
            # made the synchronous call active) leaves the reported task unchanged: not a writer in the sense of this rule
            if recv == "self" and isinstance(st_, ast.Assign) and isinstance(st_.value, ast.Name) and f.qualname not in allowed:
                vals_ = common.assigned_values(f.node, st_.value.id)
                if vals_ and all(k_ == "expr" and q.src(v_) == "self.active_task" for k_, v_ in vals_):
                    cfg_ = cfg_of(f)
                    saves = [x for x in cfg_.nodes if x.kind == "stmt" and isinstance(x.ast, ast.Assign) and any(isinstance(t, ast.Name) and t.id == st_.value.id for t in x.ast.targets)]
                    here = cfg_.nodes_for(st_)
                    between_ok = True
                    for x in cfg_.nodes:
                        # anything between the save and the restore, other than self.reset(), that could change the field?
                        if x in saves or x in here:
                            continue
                        if cfg_.find_path(saves, [x], N) is not None and cfg_.find_path([x], here, N, cut_nodes=saves) is not None:
                            calls_ = [cc for cc in kit.node_calls(x)]
                            if any(q.call_name(cc) != "self.reset" for cc in calls_) or (x.kind == "stmt" and isinstance(x.ast, (ast.Assign, ast.AugAssign)) and x not in saves and not calls_ and "active_task" in q.src(x.ast)):
                                between_ok = False
                    if saves and between_ok:
                        R.ok(rule, R.site(f, node), "%s puts back the active task it read before reset()" % f.name)
                        continue
            R.check(f.qualname in allowed, rule, "%s:%s" % (f.qualname, q.stmt_key(q.enclosing_stmt(node))), R.site(f, node),
                    "%s writes the scheduler's active_task (the save/set/restore pair or reset)" % f.name,
                    "%s overwrites the scheduler's active_task outside the save/set/restore pair of the continue-task method: the task whose code is running "
                    "(e.g. one that made a nested synchronous call) is no longer reported by get_active_task(), and contexts it enters are not registered" % f.qualname)
    R.need(n >= 3, "fewer writers of active_task than confirmed by hand (%d < 3)" % n)
