"""C03 - a task resumes exactly once per yield, only when all it awaits is done."""
import ast

from ..cfg import cfg_of, N, X
from ..roles import Roles
from ..resolve import fmt_chain
from .. import q, kit
from . import common
from .structs import unwrap_rules, extract_rules, agree_rule, dispatch_chain

EXPLANATION = (
    "Dominance, typestate and call-graph rules over the scheduler's drain and AsyncTask's stepper: "
    "a step happens only on the not-blocked edge of is_blocked() and is_blocked waits for every "
    "dependency; every future inside a yielded structure is recorded as a dependency (recursively); "
    "send/throw are reached only with a live generator and every exceptional exit of the stepper "
    "disposes the generator; the drain dispatches a stack entry only when it is not computed; a task "
    "possibly completed by a context hook is not stepped; traversal directions compose so the "
    "leftmost member of a yielded list starts first; nothing on a task-creation path steps the "
    "generator and the wrapper for plain functions is itself a generator; the drain does not recurse "
    "through itself (explicit stack), and it pushes every uncomputed dependency."
)


def run(R):
    R.extra["explanation"] = EXPLANATION
    ro = Roles(R)
    # ---- STEP-UNBLOCKED
    common.blocked_all(R, ro, "C03.STEP-UNBLOCKED")
    common.step_only_unblocked(R, ro, "C03.STEP-UNBLOCKED")
    # every future in the structure is a dependency
    uk = unwrap_kinds_only(R)
    ek, direction, efi = extract_rules(R, "C03")
    agree_rule(R, "C03", uk, ek, "await")
    # the extracted list is the one is_blocked reads
    acc_rule(R, ro)

    # ---- GEN-TYPESTATE
    step = ro.generator_step_fn()
    cfg = cfg_of(step)
    gf = ro.generator_field()

    def alive(nd):
        if nd.kind != "test":
            return None
        k, s, pos = q.atom_test(nd.ast)
        if k == "isnone" and s == "self." + gf:
            return "F" if pos else "T"
        return None

    sites = ro.step_sites(step)
    for n, c in sites:
        p = kit.path_avoiding_guard(cfg, [n], alive, N)
        R.check(p is None, "C03.GEN-TYPESTATE", "%s:%s" % (step.qualname, q.stmt_key(c)[:40]), R.site(step, c),
                "%s is reached only over the generator-is-not-None edge" % q.src(c)[:40],
                "the generator can be stepped after it has been disposed (a completed task would run again / AttributeError on None)",
                cfg.fmt_path(p) if p else None)
        # exceptional exits dispose the generator
        clears = [x for x in kit.store_nodes(step, gf) if isinstance(x.ast, ast.Assign) and q.is_none(x.ast.value)]
        escp, _caps, p = common.Escape(R, ro).escapes_function(step, n, "BaseException", cut_nodes=clears)
        R.check(not escp, "C03.GEN-TYPESTATE", "%s:dispose:%s" % (step.qualname, q.stmt_key(c)[:40]), R.site(step, c),
                "when the step raises (StopIteration included) the generator field is cleared before the exception leaves the stepper",
                "the stepper can be left by an exception with the finished generator still in place: the task could be stepped again",
                cfg.fmt_path(p) if p else None)
    # the dead-generator side of the guard raises (no silent return of a value)
    for gnode in kit.guard_edges_exist(cfg, alive):
        dead = "T" if alive(gnode) == "F" else "F"
        starts = [e.dst for e in cfg.out_edges(gnode.id, N) if e.label == dead]
        p = cfg.find_path(starts, [cfg.exit], N)
        R.check(p is None, "C03.GEN-TYPESTATE", "%s:dead:%s" % (step.qualname, gnode.lineno - step.lineno), R.site(step, gnode.ast),
                "with a disposed generator the stepper raises instead of returning a yield result",
                "with a disposed generator the stepper can return normally", cfg.fmt_path(p) if p else None)

    # ---- the drain works on the scheduler's own stack (a local alias goes stale when an unwind or reset rebinds the field: the
    # loop then walks abandoned entries again)
    from .c08 import stack_not_aliased
    stack_not_aliased(R, ro, "C03.DRAIN-STACK")
    # ---- drain: dispatch only when not computed
    drain = ro.drain_method()
    dcfg = cfg_of(drain)
    sf = ro.stack_field()
    tops = []
    for n in dcfg.nodes:
        if n.kind == "stmt" and isinstance(n.ast, ast.Assign) and q.src(n.ast.value) in ("self.%s[-1]" % sf,):
            for t in n.ast.targets:
                if isinstance(t, ast.Name):
                    tops.append((t.id, n))
    R.need(len(tops) == 1, "idiom: the drain does not read the top of the stack into one local (self.%s[-1])" % sf)
    tv, topnode = tops[0]
    dispatch = []
    for n in dcfg.nodes:
        for c in kit.node_calls(n):
            nm = q.call_name(c) or ""
            if nm.startswith("self._") and any(q.src(a).startswith(tv) for a in c.args) and not nm.startswith("self.%s" % sf):
                dispatch.append((n, c))
            elif q.attr_call(c)[0] is not None and q.dotted(q.attr_call(c)[0]) == tv and q.attr_call(c)[1] not in ("is_computed",):
                dispatch.append((n, c))

    def unc(nd):
        if nd.kind != "test":
            return None
        k, s, pos = q.atom_test(nd.ast)
        if k == "call" and s == "%s.is_computed" % tv:
            return "F" if pos else "T"
        return None

    R.need(len(dispatch) >= 3, "idiom: fewer than 3 dispatch calls in the drain (%d)" % len(dispatch))
    live = dcfg.reachable([dcfg.entry], N)
    for n, c in dispatch:
        R.check(n.id in live, "C03.DISPATCH-UNCOMPUTED", "%s:live:%s" % (drain.qualname, q.stmt_key(c)[:50]), R.site(drain, c),
                "%s is reachable" % q.src(c)[:40],
                "the dispatch arm %s is unreachable: stack entries of that kind (tasks / batch items / plain futures) are mishandled by another arm" % q.src(c)[:40])
    for n, c in dispatch:
        if n.id not in live:
            continue
        starts = [e.dst for e in dcfg.out_edges(topnode.id, N)]
        p = kit.path_avoiding_guard(dcfg, [n], unc, N, sources=starts)
        R.check(p is None, "C03.DISPATCH-UNCOMPUTED", "%s:%s" % (drain.qualname, q.stmt_key(c)[:50]), R.site(drain, c),
                "%s is reached only for an entry that is not computed" % q.src(c)[:40],
                "a stack entry that is already computed can be dispatched again (%s): a completed future would be computed / run a second time" % q.src(c)[:40],
                dcfg.fmt_path(p) if p else None)
    # an entry leaves the stack only when it is computed or has just been handed on (scheduled with its batch, computed): an
    # uncomputed entry that is simply dropped is never completed, and the task awaiting it never wakes up
    pops_ = [n for n, c in kit.call_sites(drain, lambda c: q.call_name(c) == "self.%s.pop" % sf)]
    starts_ = [e.dst for e in dcfg.out_edges(topnode.id, N)]

    def via_computed(e):
        lab = unc(dcfg.nodes[e.src])
        return not (lab is not None and e.label in ("T", "F") and e.label != lab)
    for pn in pops_:
        pp = dcfg.find_path(starts_, [pn], N, cut_nodes=[n for n, c in dispatch if n is not pn], keep_edge=via_computed)
        R.check(pp is None, "C03.DISPATCH-UNCOMPUTED", "%s:pop:%s" % (drain.qualname, pn.lineno - drain.lineno), R.site(drain, pn.ast),
                "an entry is popped only when it is computed or has just been dispatched (scheduled with its batch / computed)",
                "an entry that is not computed can be popped without having been scheduled or computed (e.g. a yielded batch that has no items yet): "
                "nothing will ever complete it, and the task that awaits it stays blocked - the computation spins or ends without its result",
                dcfg.fmt_path(pp) if pp else None)
    # ---- STEP-LIVE
    common.step_live(R, ro, "C03.STEP-LIVE")
    from .c12 import running_on_every_step
    running_on_every_step(R, ro, "C03.STEP-LIVE")

    # a task handed to another thread's scheduler is resumed while it is running there: the deduplication scope is per thread
    from .c12 import dedup_key_rule
    dedup_key_rule(R, "C03.DEDUP-KEY")
    # printing a task (str/repr/dump, debug options, tracebacks) never starts it: "a task that was created but never yielded or
    # waited on never starts"
    from .c18 import diag_closure, diag_purity
    _roots, allm_ = diag_closure(R)
    diag_purity(R, ro, allm_, "C03.DIAG-PURE")
    # ---- ORDER-PARITY
    hm = ro.handle_task_method()
    hp = q.param_names(hm.node)[1]
    push_loops = [n for n in ast.walk(hm.node) if isinstance(n, ast.For) and any(q.call_name(c) == "self.%s.append" % sf for c in q.calls(n))]
    R.need(len(push_loops) == 1, "idiom: expected one loop pushing dependencies in %s" % hm.qualname)
    pl = push_loops[0]
    it = pl.iter
    if q.src(it) == "%s._dependencies" % hp:
        push_dir = "forward"
    elif isinstance(it, ast.Call) and q.call_name(it) == "reversed" and q.src(it.args[0]) == "%s._dependencies" % hp:
        push_dir = "reverse"
    elif q.src(it) == "%s._dependencies[::-1]" % hp:
        push_dir = "reverse"
    else:
        R.need(False, "idiom: unrecognised iteration `%s` in the push loop" % q.src(it))
    pops = [c for m in ro.ts_methods() for c in q.calls(m.node) if q.call_name(c) == "self.%s.pop" % sf]
    lifo = all(not c.args or q.src(c.args[0]) == "-1" for c in pops) and q.src(topnode.ast.value) == "self.%s[-1]" % sf
    fifo = all(c.args and q.src(c.args[0]) == "0" for c in pops) if pops else False
    R.need(lifo or fifo, "idiom: the stack is neither consistently LIFO nor FIFO")
    R.need(direction in ("forward", "reverse"), "idiom: extract_futures traverses sequences in mixed directions")
    rev = (1 if direction == "reverse" else 0) + (1 if push_dir == "reverse" else 0) + (1 if lifo else 0)
    R.check(rev % 2 == 0, "C03.ORDER-PARITY", "parity", R.site(efi),
            "extract_futures walks sequences %s, dependencies are pushed %s, the stack is %s: the leftmost member of a yielded list/tuple starts first"
            % (direction, push_dir, "LIFO" if lifo else "FIFO"),
            "extract_futures walks sequences %s, dependencies are pushed %s and the stack is %s: tasks yielded together start in reverse order"
            % (direction, push_dir, "LIFO" if lifo else "FIFO"))

    # ---- PUSH-ALL
    hcfg = cfg_of(hm)
    head = kit.one(hcfg.nodes_for(pl), "push loop header")
    lv = pl.target.id
    pushes = [n for n, c in kit.call_sites(hm, lambda c: q.call_name(c) == "self.%s.append" % sf and c.args and q.src(c.args[0]) == lv)]
    R.need(pushes, "idiom: the push loop does not push its loop variable")

    def computed_edge(nd):
        if nd.kind != "test":
            return None
        k, s, pos = q.atom_test(nd.ast)
        if k == "call" and s == "%s.is_computed" % lv:
            return "T" if pos else "F"
        return None

    starts = [e.dst for e in hcfg.out_edges(head.id, N) if e.label == "iter"]

    def keep(e):
        lab = computed_edge(hcfg.nodes[e.src])
        return not (lab is not None and e.label == lab)

    p = hcfg.find_path(starts, [head, hcfg.exit], N, cut_nodes=pushes, keep_edge=keep)
    R.check(p is None, "C03.PUSH-ALL", hm.qualname + ":every", R.site(hm, pl),
            "every uncomputed dependency is pushed (an iteration ends without a push only over the is_computed() edge)",
            "an uncomputed dependency can be skipped by the push loop: the task waits for something nobody runs",
            hcfg.fmt_path(p) if p else None)
    after = [e.dst for e in hcfg.out_edges(head.id, N) if e.label == "done"]
    # leaving the loop other than by exhaustion (break/return)
    body_nodes = [n for n in hcfg.nodes_in(pl) if n is not head]
    early = [n for n in body_nodes if n.kind == "stmt" and isinstance(n.ast, (ast.Break, ast.Return))]
    R.check(not early, "C03.PUSH-ALL", hm.qualname + ":no-early-exit", R.site(hm, pl),
            "the push loop has no break/return", "the push loop can stop before all dependencies were pushed")

    # ---- ROOT-PUSHED: the drain always puts the task it was asked for on the stack before it starts to loop
    dm = ro.drain_method()
    dcfg = cfg_of(dm)
    rootp = q.param_names(dm.node)[1]
    rpush = [n for n, c in kit.call_sites(dm, lambda c: q.call_name(c) == "self.%s.append" % sf and c.args and q.src(c.args[0]) == rootp)]
    dloops = [x for x in dcfg.nodes if x.kind == "loop"]
    R.need(dloops, "idiom: the drain's loop was not found")
    p = dcfg.find_path([dcfg.entry], dloops, N, cut_nodes=rpush)
    R.check(p is None and bool(rpush), "C03.ROOT-PUSHED", dm.qualname, R.site(dm),
            "the task to wait for is pushed on every path to the drain loop",
            "the drain loop can be reached without the requested task having been pushed (e.g. when it is on the stack already, lower down): the "
            "loop above the entry height is empty, nothing runs the task, and the caller's `while not computed` spins forever - a nested value() "
            "on a sibling that was yielded but has not started never returns", dcfg.fmt_path(p) if p else None)

    # ---- LAZY
    stm = ro.step_method_task()
    callers = R.res.callers_of(stm, kinds=("resolved",)) + [x for x in R.res.callers_of(stm, kinds=("cha",))]
    ct = ro.continue_task_method()
    for f, call, k in callers:
        if f is ct:
            R.ok("C03.LAZY", R.site(f, call), "the scheduler's continue-task method is the only caller that steps a task")
            continue
        creation = f.module.name in ("decorators", "tools", "generator", "utils") or f.name == "__init__"
        if creation:
            R.violation("C03.LAZY", "%s:%s" % (f.qualname, q.stmt_key(call)), R.site(f, call),
                        "%s steps a task on a creation path: a task that is created but never awaited would start running" % f.qualname)
        else:
            R.info("additional caller of %s: %s" % (stm.qualname, f.qualname))
    # creation paths do not reach the generator step
    gstep = ro.generator_step_fn()
    creation_roots = [ro.AsyncTask.methods.get("__init__")]
    for qn in ("decorators.PureAsyncDecorator._call_pure", "decorators.PureAsyncDecorator.__call__", "decorators.AsyncDecorator.asynq"):
        f = R.repo.fn_opt(qn)
        R.need(f is not None, "anchor vanished: %s" % qn)
        creation_roots.append(f)
    for root in creation_roots:
        R.need(root is not None, "anchor vanished: AsyncTask.__init__")

        def pred(fi, call, tg, kind):
            if kind == "callback" and q.attr_call(call)[1] in ("send", "throw", "__next__"):
                return True
            nm = q.call_name(call)
            if nm == "next":
                return True
            return any(t is gstep or t is stm for t in tg) and kind == "resolved"

        def stop(fi):
            return fi.qualname in ("futures.FutureBase.value", "futures.FutureBase.error", "scheduler.TaskScheduler.wait_for") or fi.module.name == "debug"
        chain = R.res.reaches(root, pred, kinds=("resolved",), stop=stop)
        R.check(chain is None, "C03.LAZY", "%s:reach" % root.qualname, R.site(root),
                "creating a task through %s does not reach a step of its generator" % root.qualname,
                "creating a task reaches a generator step", fmt_chain(chain) if chain else None)
    fw = R.repo.fn("decorators.PureAsyncDecorator._fn_wrapper")
    R.check(q.has_yield(fw.node), "C03.LAZY", fw.qualname + ":generator", R.site(fw),
            "the wrapper for non-generator functions is a generator function: the wrapped body runs at the first step, not at creation",
            "the wrapper for non-generator functions is no longer a generator: the wrapped function runs when the task is created")
    cp = R.repo.fn("decorators.PureAsyncDecorator._call_pure")
    # the wrapped function is only called directly when it is itself a generator function
    direct = [c for c in q.calls(cp.node) if q.call_name(c) == "self.fn"]
    ccfg = cfg_of(cp)

    def needs_wrapper(nd):
        if nd.kind != "test":
            return None
        k, s, pos = q.atom_test(nd.ast)
        if k == "truth" and s == "self.needs_wrapper":
            return "T" if pos else "F"
        return None
    for c in direct:
        nodes = [n for n in ccfg.nodes if c in kit.node_calls(n)]
        p = kit.path_avoiding_guard(ccfg, nodes, needs_wrapper, N)
        R.check(p is None, "C03.LAZY", cp.qualname + ":direct-call", R.site(cp, c),
                "self.fn(...) is called at creation only when it is a generator function (calling it just creates the generator)",
                "a plain function can be called at task creation", ccfg.fmt_path(p) if p else None)

    common.unwrap_capture(R, ro, "C03.CAPTURE-ALL")
    common.wait_for_exits(R, ro, "C03.WAIT-FOR")
    stack_limit(R)
    # ---- NO-RECURSION
    no_recursion(R, ro)
    # ---- termination: a finished batch is never flushed again (BatchingError would leave wait_for
    # with the awaited task uncomputed)
    from .c05 import selection_rules
    selection_rules(R, ro, "C03.TERMINATE")
    # ---- progress: once a pending batch has been selected it is flushed -- the only way out of the flush-one step without a
    # flush is "nothing is pending".  wait_for loops (walk, flush one) until the awaited task is done; a step that can decline to
    # flush the batch the blocked tasks wait for, although one was selected, lets that loop spin forever on a finite computation
    fo = ro.flush_one_method()
    focfg = cfg_of(fo)
    sel = ro.select_method()
    selcalls = ro.calls_to(fo, [sel])
    R.need(len(selcalls) == 1 and isinstance(selcalls[0][0].ast, ast.Assign) and isinstance(selcalls[0][0].ast.targets[0], ast.Name),
           "idiom: %s does not bind the selected batch to one local" % fo.qualname)
    bv = selcalls[0][0].ast.targets[0].id
    fms = ro.flush_method()
    flushes = [n for n, c in ro.calls_to(fo, fms) if c.args and q.src(c.args[0]) == bv] + [n for n, c in ro.flush_sites_in(fo)]

    def none_edge(nd):
        if nd.kind != "test":
            return None
        k, s_, pos = q.atom_test(nd.ast)
        if k == "isnone" and s_ == bv:
            return "T" if pos else "F"
        if k == "truth" and s_ == bv:
            return "F" if pos else "T"
        return None
    starts = [e.dst for e in focfg.out_edges(selcalls[0][0].id, N) if e.label != "exc"]
    p = focfg.find_path(starts, [focfg.exit], N, cut_nodes=flushes,
                        keep_edge=lambda e: not (none_edge(focfg.nodes[e.src]) is not None and e.label == none_edge(focfg.nodes[e.src])))
    R.check(p is None and flushes, "C03.PROGRESS", fo.qualname, R.site(fo),
            "a selected batch is always flushed: the flush-one step returns without flushing only when no batch is pending",
            "%s can return without flushing although a pending batch was selected: the tasks blocked on it stay blocked, wait_for walks, re-schedules and "
            "skips again - value() of a finite computation never returns" % fo.qualname, focfg.fmt_path(p) if p else None)
    R.require_min("C03.GEN-TYPESTATE", 5)
    R.require_min("C03.DISPATCH-UNCOMPUTED", 3)
    R.require_min("C03.LAZY", 5)


def unwrap_kinds_only(R):
    fi = R.repo.fn("async_task.unwrap")
    _, chain, _ = dispatch_chain(R, fi)
    ks = set()
    for k, body, node in chain:
        ks |= k
    return ks


def acc_rule(R, ro):
    """_accept_yield_result stores the step result and extracts its futures into the list that
    is_blocked reads."""
    at = ro.AsyncTask
    driver = ro.step_method_task()
    acc = None
    for m in at.methods.values():
        for c in q.calls(m.node):
            if q.call_name(c) == "extract_futures":
                acc = (m, c)
    R.need(acc is not None, "idiom: AsyncTask no longer calls extract_futures")
    m, c = acc
    ok = len(c.args) == 2 and q.src(c.args[1]) == "self._dependencies"
    R.check(ok, "C03.DEPS", m.qualname, R.site(m, c),
            "futures of the yielded value are collected into self._dependencies, the list is_blocked() examines",
            "extract_futures no longer fills self._dependencies")
    # ... and nothing else rewrites that list: between extract_futures and the push loop its order IS the start order.  The only
    # other writes are resets to an empty list.
    for mm_ in list(at.methods.values()) + ro.ts_methods():
        for st in q.scope_nodes(mm_.node):
            tg = []
            if isinstance(st, ast.Assign):
                tg = [t for t in st.targets if isinstance(t, ast.Attribute) and t.attr == "_dependencies"]
                fresh = isinstance(st.value, (ast.List, ast.Tuple)) and not st.value.elts
            elif isinstance(st, ast.AugAssign) and isinstance(st.target, ast.Attribute) and st.target.attr == "_dependencies":
                tg, fresh = [st.target], False
            for t in tg:
                R.check(fresh, "C03.DEPS", "%s:rewrite:%s" % (mm_.qualname, q.stmt_key(st)[:40]), R.site(mm_, st),
                        "%s only resets the dependency list" % mm_.name,
                        "%s rebuilds the dependency list (`%s`): the order in which extract_futures recorded the yielded futures - the order tasks yielded "
                        "together are started in - is no longer what the scheduler pushes" % (mm_.name, q.src(st)[:70]))
        for c2 in q.calls(mm_.node):
            recv, name = q.attr_call(c2)
            if recv is not None and q.src(recv).endswith("._dependencies") and name in ("sort", "reverse", "insert", "remove", "pop", "extend", "append", "clear"):
                R.check(name == "clear", "C03.DEPS", "%s:mutate:%s" % (mm_.qualname, name), R.site(mm_, c2),
                        "the dependency list is only cleared", "%s reorders or edits the dependency list (`%s`)" % (mm_.name, q.src(c2)[:60]))
    p0 = q.param_names(m.node)
    if len(p0) >= 2:
        R.check(q.src(c.args[0]) == p0[1], "C03.DEPS", m.qualname + ":value", R.site(m, c),
                "the value searched for futures is the step's result", "extract_futures is applied to something other than the step result")


def no_recursion(R, ro):
    drain = ro.drain_method()
    wf = ro.wait_for()
    dcfg = cfg_of(drain)
    inline = kit.call_sites(drain, lambda c: q.attr_call(c)[1] == "_compute")
    excluded_task = False
    for n, c in inline:
        recv = q.dotted(q.attr_call(c)[0])

        def g(nd, recv=recv):
            if nd.kind != "test":
                return None
            k, s, pos = q.atom_test(nd.ast)
            if k == "isinstance" and s[0] == recv and s[1].split(".")[-1] == "AsyncTask":
                return "F" if pos else "T"
            return None
        p = kit.path_avoiding_guard(dcfg, [n], g, N)
        R.check(p is None, "C03.NO-RECURSION", drain.qualname + ":inline", R.site(drain, c),
                "the inline _compute() excludes AsyncTask (whose _compute re-enters wait_for): awaiting chains use the explicit stack",
                "an AsyncTask can reach the inline _compute(): every awaiting level adds Python frames (deep chains overflow the C stack)",
                dcfg.fmt_path(p) if p else None)
        excluded_task = p is None
    stop_names = set(["futures.FutureBase.value", "futures.FutureBase.error", "futures.FutureBase.__call__"])
    seen = {}
    stack = [(drain, [])]
    hit = None
    while stack and hit is None:
        fi, chain = stack.pop()
        if fi.qualname in seen:
            continue
        seen[fi.qualname] = True
        for call, tg, kind in R.res.callees(fi):
            if kind not in ("resolved", "cha"):
                continue
            for t in tg:
                if fi is drain and q.attr_call(call)[1] == "_compute" and excluded_task and t.cls is not None and t.cls.is_subclass_of(ro.AsyncTask):
                    continue
                if fi is drain and q.attr_call(call)[1] == "_compute" and t.cls is not None and (
                        t.cls.is_subclass_of(ro.BatchItemBase) or t.cls.is_subclass_of(ro.BatchBase)):
                    continue  # decided by C04.WHO-FLUSH
                if t.qualname in stop_names or t.module.name == "debug":
                    continue
                if t is drain or t is wf:
                    hit = chain + [(fi, call)]
                    break
                stack.append((t, chain + [(fi, call)]))
            if hit:
                break
    R.check(hit is None, "C03.NO-RECURSION", drain.qualname + ":cycle", R.site(drain),
            "the drain's call tree (%d functions; user callbacks, value()/error() cut) does not re-enter the drain or wait_for" % len(seen),
            "the drain re-enters itself: awaiting depth is bounded by the interpreter's recursion limit", fmt_chain(hit) if hit else None)


def stack_limit(R):
    """The runaway-recursion limit must not be reachable by a legitimate chain 'tens of thousands of
    tasks deep': the default has to be at least 100000 (the upper end of that range)."""
    dm = R.repo.modules["debug"]
    vals = []
    for st in dm.tree.body:
        if isinstance(st, ast.Assign) and any(q.src(t).endswith(".MAX_TASK_STACK_SIZE") for t in st.targets):
            vals.append((st, q.const_value(st.value)))
    R.need(vals, "anchor vanished: the default of MAX_TASK_STACK_SIZE in debug.py")
    for st, v in vals:
        R.check(isinstance(v, int) and v >= 100000, "C03.STACK-LIMIT", "debug.MAX_TASK_STACK_SIZE", R.site(dm, st),
                "the default stack limit (%s) is above any chain 'tens of thousands' of tasks deep" % v,
                "the default MAX_TASK_STACK_SIZE is %s: a finite chain of a few tens of thousands of awaiting tasks hits the runaway-recursion guard and "
                "value() raises RuntimeError instead of returning" % v)
