"""Rules shared by several properties (C01-C08): each takes the Run, the Roles and the rule id
prefix under which its obligations are recorded."""
import ast

from ..cfg import cfg_of, N, X, handler_type_names, ExcHierarchy
from ..errors import AnalysisError
from .. import q, kit


# ------------------------------------------------------------------------------------------
# small data-flow helpers
# ------------------------------------------------------------------------------------------

def assigned_values(fn_node, name):
    """Values assigned to local `name` in fn_node: list of ('expr', ast) | ('handler', handler)
    | ('for', loop) | ('param', None) | ('other', node)."""
    out = []
    a = fn_node.args
    for p in a.posonlyargs + a.args + a.kwonlyargs:
        if p.arg == name:
            out.append(("param", None))
    if (a.vararg and a.vararg.arg == name) or (a.kwarg and a.kwarg.arg == name):
        out.append(("param", None))
    for n in q.scope_nodes(fn_node):
        if isinstance(n, ast.Assign):
            for t in n.targets:
                if isinstance(t, ast.Name) and t.id == name:
                    out.append(("expr", n.value))
                elif isinstance(t, (ast.Tuple, ast.List)):
                    for i, e in enumerate(t.elts):
                        if isinstance(e, ast.Name) and e.id == name:
                            if isinstance(n.value, (ast.Tuple, ast.List)) and len(n.value.elts) == len(t.elts):
                                out.append(("expr", n.value.elts[i]))
                            else:
                                out.append(("other", n))
        elif isinstance(n, (ast.AugAssign, ast.AnnAssign)) and isinstance(n.target, ast.Name) and n.target.id == name:
            out.append(("other", n) if isinstance(n, ast.AugAssign) else ("expr", n.value))
        elif isinstance(n, ast.ExceptHandler) and n.name == name:
            out.append(("handler", n))
        elif isinstance(n, (ast.For, ast.AsyncFor)) and name in q.names_stored(n.target):
            out.append(("for", n))
        elif isinstance(n, (ast.With, ast.AsyncWith)):
            for it in n.items:
                if it.optional_vars is not None and name in q.names_stored(it.optional_vars):
                    out.append(("other", n))
        elif isinstance(n, ast.NamedExpr) and isinstance(n.target, ast.Name) and n.target.id == name:
            out.append(("expr", n.value))
    return out


def arg_for_param(call, callee_fi, param):
    """The argument expression bound to `param` of callee at this call (positional/keyword)."""
    names = q.param_names(callee_fi.node)
    if callee_fi.cls is not None and callee_fi.parent is None and names and names[0] in ("self", "cls"):
        if isinstance(call.func, ast.Attribute):
            names = names[1:]
    for kw in call.keywords:
        if kw.arg == param:
            return kw.value
    if param in names:
        i = names.index(param)
        if i < len(call.args) and not any(isinstance(a, ast.Starred) for a in call.args[: i + 1]):
            return call.args[i]
    return None


# ------------------------------------------------------------------------------------------
# BLOCKED-ALL  (C02, C03, C04)
# ------------------------------------------------------------------------------------------

def blocked_all(R, ro, rule):
    at = ro.AsyncTask
    ib = at.methods.get("is_blocked")
    R.need(ib is not None, "anchor vanished: AsyncTask.is_blocked")
    cfg = cfg_of(ib)
    site = R.site(ib)
    key = ib.qualname
    # form 1: return any(not d.is_computed() for d in self._dependencies)
    body = [s for s in ib.node.body if not (isinstance(s, ast.Expr) and isinstance(s.value, ast.Constant))]
    if len(body) == 1 and isinstance(body[0], ast.Return) and isinstance(body[0].value, ast.Call) and q.call_name(body[0].value) == "any":
        gen = body[0].value.args[0] if body[0].value.args else None
        ok = False
        if isinstance(gen, (ast.GeneratorExp, ast.ListComp)) and len(gen.generators) == 1 and not gen.generators[0].ifs:
            g = gen.generators[0]
            if q.dotted(g.iter) == "self._dependencies" and isinstance(g.target, ast.Name):
                k, s, pos = q.atom_test(gen.elt)
                ok = k == "call" and s == "%s.is_computed" % g.target.id and not pos
        R.check(ok, rule, key, site, "is_blocked == any(dependency not computed) over all of self._dependencies",
                "is_blocked is not 'some dependency is uncomputed' over the whole dependency list")
        return
    def is_deps(e):
        if q.dotted(e) == "self._dependencies":
            return True
        if isinstance(e, ast.Name):
            vals_ = assigned_values(ib.node, e.id)
            return bool(vals_) and all(k_ == "expr" and q.dotted(v_) == "self._dependencies" for k_, v_ in vals_)
        return False
    # fast paths for short lists (`if length == 2: return <expr over deps[0], deps[1]>`): each is decided by its truth table over
    # "deps[i] is computed" - it has to equal "some dependency is uncomputed"
    len_names = set(t.id for n in q.scope_nodes(ib.node) if isinstance(n, ast.Assign) and isinstance(n.value, ast.Call) and q.call_name(n.value) == "len"
                    and n.value.args and is_deps(n.value.args[0]) for t in n.targets if isinstance(t, ast.Name))

    def fast_k(test):
        if isinstance(test, ast.Compare) and len(test.ops) == 1 and isinstance(test.ops[0], ast.Eq):
            a, b = test.left, test.comparators[0]
            for x, y in ((a, b), (b, a)):
                if isinstance(y, ast.Constant) and isinstance(y.value, int) and ((isinstance(x, ast.Name) and x.id in len_names) or
                                                                               (isinstance(x, ast.Call) and q.call_name(x) == "len" and x.args and is_deps(x.args[0]))):
                    return y.value
        return None

    def ev(e, env):
        if isinstance(e, ast.Constant) and isinstance(e.value, bool):
            return e.value
        if isinstance(e, ast.UnaryOp) and isinstance(e.op, ast.Not):
            v = ev(e.operand, env)
            return None if v is None else not v
        if isinstance(e, ast.BoolOp):
            vs = [ev(v, env) for v in e.values]
            if any(v is None for v in vs):
                return None
            return all(vs) if isinstance(e.op, ast.And) else any(vs)
        if isinstance(e, ast.Call) and q.attr_call(e)[1] == "is_computed" and isinstance(q.attr_call(e)[0], ast.Subscript):
            sub = q.attr_call(e)[0]
            if is_deps(sub.value) and isinstance(sub.slice, ast.Constant) and isinstance(sub.slice.value, int) and sub.slice.value in env:
                return env[sub.slice.value]
        return None
    import itertools
    fast_returns = set()
    for st in [n for n in ast.walk(ib.node) if isinstance(n, ast.If)]:
        k_ = fast_k(st.test)
        if k_ is None or not (0 <= k_ <= 4):
            continue
        rets_ = [x for x in st.body if isinstance(x, ast.Return)]
        fast_returns.update(id(x) for x in rets_)
        if len(rets_) != 1 or len(st.body) != 1:
            raise AnalysisError("idiom: the short-list arm of is_blocked (`%s`) is not a single return" % q.src(st.test))
        bad_env = None
        for bits in itertools.product([True, False], repeat=k_):
            env = dict(enumerate(bits))
            got = ev(rets_[0].value, env) if rets_[0].value is not None else False
            if got is None:
                raise AnalysisError("idiom: the short-list arm of is_blocked returns an expression that is not a boolean combination of is_computed() tests")
            if got != any(not b for b in bits):
                bad_env = bits
                break
        R.check(bad_env is None, rule, key + ":fast:%d" % k_, R.site(ib, st),
                "for %d dependencies is_blocked() is true exactly when one of them is uncomputed" % k_,
                "the fast path of is_blocked() for %d dependencies returns %s when the dependencies are %s: a task that still waits for something counts as "
                "runnable, is continued, and unwrap() computes the missing future by a nested synchronous evaluation (a batch is flushed early)"
                % (k_, not any(not b for b in (bad_env or ())), ", ".join("computed" if b else "uncomputed" for b in (bad_env or ()))))
    loops = [n for n in ast.walk(ib.node) if isinstance(n, ast.For) and is_deps(n.iter) and isinstance(n.target, ast.Name)]
    if len(loops) != 1:
        R.violation(rule, key + ":examines-all", R.site(ib),
                    "is_blocked() does not go through all of self._dependencies (no loop over the list, no any(...)): a task that still waits for one of the futures it "
                    "yielded counts as runnable as soon as the one it looks at is done - it is continued early, unwrap() computes the stragglers by nested synchronous "
                    "evaluation, and a failure is delivered while siblings are still pending")
        return
    loop = loops[0]
    lv = loop.target.id
    head = kit.one(cfg.nodes_for(loop), "loop header")
    rets = [n for n in cfg.nodes if n.kind == "stmt" and isinstance(n.ast, ast.Return) and id(n.ast) not in fast_returns]
    truthy, falsy = [], []
    for n in rets:
        v = n.ast.value
        if isinstance(v, ast.Constant) and v.value is True:
            truthy.append(n)
        elif v is None or (isinstance(v, ast.Constant) and not v.value):
            falsy.append(n)
        elif isinstance(v, ast.Name):
            # accumulator form: flag = False; for ...: if not d.is_computed(): flag = True; return flag
            vals = assigned_values(ib.node, v.id)
            if not vals or not all(k == "expr" and isinstance(e, ast.Constant) and isinstance(e.value, bool) for k, e in vals):
                raise AnalysisError("idiom: is_blocked returns %s whose values are not boolean constants" % v.id)
            falsy.append(n)
            for st in cfg.nodes:
                if st.kind == "stmt" and isinstance(st.ast, ast.Assign) and v.id in q.names_stored(st.ast):
                    if st.ast.value.value is True:
                        truthy.append(st)
                    elif any(st.ast is sub for sub in ast.walk(loop)):
                        raise AnalysisError("idiom: is_blocked resets its accumulator inside the loop")
        else:
            raise AnalysisError("idiom: is_blocked returns a non-constant (%s)" % q.src(n.ast))

    def unc(node):
        if node.kind != "test":
            return None
        k, s, pos = q.atom_test(node.ast)
        if k == "call" and s == "%s.is_computed" % lv:
            return "F" if pos else "T"
        return None

    R.need(truthy, "idiom: is_blocked never returns True")
    p = kit.path_avoiding_guard(cfg, truthy, unc, N)
    R.check(p is None, rule, key + ":true", site,
            "is_blocked() returns True only after finding an uncomputed dependency",
            "is_blocked() can report 'blocked' without an uncomputed dependency", cfg.fmt_path(p) if p else None)
    # "not blocked" only after the whole list was examined: cut the loop's `done` edge
    targets = falsy + [cfg.exit]
    flag_names = set(n.ast.value.id for n in falsy if n.ast.value is not None and isinstance(n.ast.value, ast.Name))

    def really_falsy(node, known):
        v = getattr(node.ast, "value", None) if node.kind == "stmt" else None
        if isinstance(v, ast.Name) and known.get(v.id) is True:
            return False      # `return flag` with flag == True on this path reports "blocked"
        return True
    p = cfg.find_path_flags([cfg.entry], targets, flag_names, N,
                            keep_edge=lambda e: not (e.src == head.id and e.label == "done") and e.label != "ret", target_ok=really_falsy)
    # (ret edges lead to exit from return nodes; falsy return nodes themselves are targets)
    R.check(p is None, rule, key + ":false", site,
            "is_blocked() reports 'not blocked' only after every dependency has been examined",
            "is_blocked() can report 'not blocked' while a dependency is still uncomputed (early exit from the scan): "
            "the task would be resumed before everything it awaits is done",
            cfg.fmt_path(p) if p else None)
    # and an uncomputed dependency always leads to True: from the uncomputed edge no path to loop head / falsy
    for g in kit.guard_edges_exist(cfg, unc):
        starts = [e.dst for e in cfg.out_edges(g.id, N) if e.label == unc(g)]
        p = cfg.find_path_flags(starts, falsy + [head], flag_names, N, cut_nodes=[t for t in truthy if isinstance(t.ast, ast.Return)],
                                target_ok=really_falsy)
        if p is None:
            # falling off the end (implicit `return None`) without a return statement
            p = cfg.find_path_flags(starts, [cfg.exit], flag_names, N, cut_nodes=rets)
        R.check(p is None, rule, key + ":uncomputed", site,
                "an uncomputed dependency always makes is_blocked() return True",
                "an uncomputed dependency can be skipped by is_blocked()", cfg.fmt_path(p) if p else None)


def step_only_unblocked(R, ro, rule):
    """Every scheduler call of the task-stepping method is dominated by the false edge of
    is_blocked() on the same task."""
    ct = ro.continue_task_method()
    hm = ro.handle_task_method()
    callers = [(f, c) for f, c, k in R.res.callers_of(ct) if k == "resolved"]
    R.need(callers, "role: nobody calls %s" % ct.qualname)
    st_ = ro.step_method_task()
    own_tests = [n for n in cfg_of(ct).nodes if n.kind == "test" and q.atom_test(n.ast)[0] == "call" and str(q.atom_test(n.ast)[1]).endswith(".is_blocked")]
    if own_tests:
        # the stepping method is (after a helper was expanded into it) the one that asks is_blocked() itself: the step call is
        # guarded inside it, its callers hand it tasks in any state
        ccfg = cfg_of(ct)
        for sn, sc in ro.calls_to(ct, [st_]):
            recv = q.attr_call(sc)[0]
            arg = q.dotted(recv) if recv is not None else None

            def unblocked_own(nd, arg=arg):
                if nd.kind != "test":
                    return None
                k, s_, pos = q.atom_test(nd.ast)
                if k == "call" and s_ == "%s.is_blocked" % arg:
                    return "F" if pos else "T"
                return None
            p = kit.path_avoiding_guard(ccfg, [sn], unblocked_own, N)
            R.check(p is None, rule, "%s:%s" % (ct.qualname, q.stmt_key(sc)[:40]), R.site(ct, sc),
                    "the task is continued only on the not-blocked edge of %s.is_blocked()" % arg,
                    "a task can be continued while one of the futures it yielded is still uncomputed", ccfg.fmt_path(p) if p else None)
        callers = []
    for f, call in callers:
        cfg = cfg_of(f)
        arg = q.dotted(call.args[0]) if call.args else None
        node = [n for n in cfg.nodes if call in kit.node_calls(n)]
        R.need(node and arg, "idiom: call of %s not found in CFG of %s" % (ct.qualname, f.qualname))

        def unblocked(nd, arg=arg):
            if nd.kind != "test":
                return None
            k, s, pos = q.atom_test(nd.ast)
            if k == "call" and s == "%s.is_blocked" % arg:
                return "F" if pos else "T"
            return None

        p = kit.path_avoiding_guard(cfg, node, unblocked, N)
        R.check(p is None, rule, "%s->%s" % (f.qualname, ct.name), R.site(f, call),
                "the task is continued only on the not-blocked edge of %s.is_blocked()" % arg,
                "a task can be continued while one of the futures it yielded is still uncomputed",
                cfg.fmt_path(p) if p else None)
    # inside the task's own driver a further step (the loop around the stepper) is taken only when the task yielded nothing to wait
    # for: with a non-empty dependency list the driver hands control back to the scheduler.  "Some of them are computed already" is
    # not enough: the next unwrap() would compute the others by nested synchronous evaluation (a batch flushed out of turn)
    drv = ro.step_method_task()
    dcfg = cfg_of(drv)
    stepper = ro.generator_step_fn()
    step_nodes = [n for n, c in ro.calls_to(drv, [stepper])]
    heads = [x for x in dcfg.nodes if x.kind == "loop"]
    if step_nodes and heads:
        def no_deps_edge(e):
            nd = dcfg.nodes[e.src]
            if nd.kind != "test":
                return False
            k, s_, pos = q.atom_test(nd.ast)
            txt = " ".join(s_) if isinstance(s_, tuple) else str(s_)
            if "self._dependencies" not in txt:
                return False
            if k == "lt" and isinstance(s_, tuple) and s_[0] == "0" and s_[1] == "len(self._dependencies)":      # 0 < len(deps)
                return e.label == ("F" if pos else "T")
            if k == "truth" and s_ in ("self._dependencies", "len(self._dependencies)"):
                return e.label == ("F" if pos else "T")
            if k == "eq" and isinstance(s_, tuple) and set(s_) == set(["0", "len(self._dependencies)"]):
                return e.label == ("T" if pos else "F")
            return False
        after = [e.dst for n in step_nodes for e in dcfg.out_edges(n.id, N) if e.label != "exc"]
        flag_names = set(t.id for x in ast.walk(drv.node) if isinstance(x, ast.Assign) and isinstance(x.value, ast.Constant) and isinstance(x.value.value, bool)
                         for t in x.targets if isinstance(t, ast.Name))
        p = dcfg.find_path_flags(after, step_nodes, flag_names, N, keep_edge=lambda e: not no_deps_edge(e), cut_nodes=[dcfg.exit])
        # completion also allows another round? no: a computed task returns; only the no-dependencies edge may loop
        R.check(p is None, rule, "%s:restep" % drv.qualname, R.site(drv),
                "the driver takes another step on its own only when the dependency list is empty",
                "the driver can loop back and step the generator again although the task just yielded futures (the test is not `no dependencies`): the "
                "pending ones are computed by unwrap() through nested synchronous evaluation - their batches are flushed while other tasks could still run",
                dcfg.fmt_path(p) if p else None)
    # the step itself happens on the task the method was given
    st = ro.step_method_task()
    for n, c in ro.calls_to(ct, [st]):
        recv = q.dotted(q.attr_call(c)[0])
        params = q.param_names(ct.node)
        R.check(len(params) > 1 and recv == params[1], rule, "%s:step-recv" % ct.qualname, R.site(ct, c),
                "the stepped task is the method's parameter", "the stepped task is not the task that was tested")


# ------------------------------------------------------------------------------------------
# STEP-LIVE (C08, C03): no step on a task that a preceding call may have completed
# ------------------------------------------------------------------------------------------

def may_complete_self(R, ro, fi, _seen=None):
    """Can calling method fi (on a task) complete that task (set_value/set_error on self)?"""
    seen = _seen if _seen is not None else set()
    if fi.qualname in seen:
        return False
    seen.add(fi.qualname)
    for call, tg, kind in R.res.callees(fi):
        recv, name = q.attr_call(call)
        if recv is not None and q.dotted(recv) == "self":
            if name in ("set_value", "set_error"):
                return True
            if kind == "resolved":
                for t in tg:
                    if may_complete_self(R, ro, t, seen):
                        return True
    return False


def caller_sites(R, ro, method, param):
    """[(caller FuncInfo, cfg node, call, source of the argument bound to `param`)] for the calls of `method` from TaskScheduler
    methods, with a plain-name argument."""
    out = []
    for m in ro.ts_methods():
        if m is method:
            continue
        for n, c in ro.calls_to(m, [method]):
            a = arg_for_param(c, method, param)
            if isinstance(a, ast.Name):
                out.append((m, n, c, a.id))
            else:
                return []
    return out


def step_live(R, ro, rule):
    ct = ro.continue_task_method()
    st = ro.step_method_task()
    cfg = cfg_of(ct)
    params = q.param_names(ct.node)
    R.need(len(params) >= 2, "idiom: %s lost its task parameter" % ct.qualname)
    tp = params[1]
    steps = [n for n, c in ro.calls_to(ct, [st])]
    R.need(steps, "role: %s no longer steps the task" % ct.qualname)
    completing = []
    for n in cfg.nodes:
        for c in kit.node_calls(n):
            recv, name = q.attr_call(c)
            if recv is None or q.dotted(recv) != tp:
                continue
            tg = [t for cc, t, k in R.res.callees(ct) if cc is c and k == "resolved"]
            for t in (tg[0] if tg else []):
                if t is st:
                    continue
                if may_complete_self(R, ro, t):
                    completing.append((n, c))

    def live(nd):
        if nd.kind != "test":
            return None
        k, s, pos = q.atom_test(nd.ast)
        if k == "call" and s == "%s.is_computed" % tp:
            return "F" if pos else "T"
        return None

    if not completing:
        # the completing call (resume of the contexts) may sit in the callers instead: then the call of the stepping method is
        # guarded there
        moved = False
        for cf, cn, cc, arg in caller_sites(R, ro, ct, tp):
            ccfg = cfg_of(cf)
            for n2 in ccfg.nodes:
                for c2 in kit.node_calls(n2):
                    recv2, name2 = q.attr_call(c2)
                    if recv2 is None or q.dotted(recv2) != arg:
                        continue
                    tg2 = [t for c3, t, k3 in R.res.callees(cf) if c3 is c2 and k3 == "resolved"]
                    if not any(may_complete_self(R, ro, t) for t in (tg2[0] if tg2 else []) if t is not st):
                        continue
                    if ccfg.find_path([e.dst for e in ccfg.out_edges(n2.id, N)], [cn], N) is None:
                        continue
                    moved = True

                    def live2(nd, arg=arg):
                        if nd.kind != "test":
                            return None
                        k, s, pos = q.atom_test(nd.ast)
                        if k == "call" and s == "%s.is_computed" % arg:
                            return "F" if pos else "T"
                        return None
                    p = kit.path_avoiding_guard(ccfg, [cn], live2, N, sources=[e.dst for e in ccfg.out_edges(n2.id, N)])
                    R.check(p is None, rule, "%s:%s" % (cf.qualname, q.stmt_key(c2)), R.site(cf, c2),
                            "after %s (which can complete the task with an error) the task is handed on for stepping only if it is still uncomputed" % q.src(c2),
                            "%s can complete the task and the task is stepped anyway: FutureIsAlreadyComputed escapes through the scheduler" % q.src(c2),
                            ccfg.fmt_path(p) if p else None)
        if not moved:
            R.ok(rule, R.site(ct), "no call that can complete the task precedes the step")
    for n, c in completing:
        starts = [e.dst for e in cfg.out_edges(n.id, N)]
        p = kit.path_avoiding_guard(cfg, steps, live, N, sources=starts)
        R.check(p is None, rule, "%s:%s" % (ct.qualname, q.stmt_key(c)), R.site(ct, c),
                "after %s (which can complete the task with an error) the task is stepped only if it is still uncomputed" % q.src(c),
                "%s can complete the task (a context hook that raises is routed to the task's error) and the task is stepped "
                "anyway: FutureIsAlreadyComputed escapes through the scheduler" % q.src(c),
                cfg.fmt_path(p) if p else None)


# ------------------------------------------------------------------------------------------
# ESCAPE analysis
# ------------------------------------------------------------------------------------------

class Escape(object):
    """Where do faults raised by user code entered at `sources` go?"""

    def __init__(self, R, ro):
        self.R = R
        self.ro = ro
        self.hier = ExcHierarchy(R.repo)

    def exc_edges(self, cfg, nid, cls):
        """Exception out-edges of a node for a fault of class `cls` ('Exception'/'BaseException'),
        stopping at the first handler that surely covers it."""
        out = []
        for e in cfg.succ[nid]:
            if e.label != "exc":
                continue
            dst = cfg.nodes[e.dst]
            out.append(e)
            if dst.kind == "except":
                if kit.handler_covers(dst.ast, cls, self.hier):
                    break
        return out

    def escapes_function(self, fi, node, cls, cut_nodes=()):
        """Does a fault of class cls raised at CFG node `node` of fi leave fi (without passing a
        node of cut_nodes)?  Only this fault is followed: other calls are assumed not to raise.
        Returns (escapes: bool, capture_handlers: [ast handler], path)"""
        cfg = cfg_of(fi)
        captures = []
        cut = set(n.id for n in cut_nodes)
        # state: (node id, inflight)
        start = [(e.dst, True) for e in self.exc_edges(cfg, node.id, cls)]
        seen = set()
        stack = [(s, [node.id]) for s in start]
        while stack:
            (nid, inflight), path = stack.pop()
            if (nid, inflight) in seen:
                continue
            seen.add((nid, inflight))
            nd = cfg.nodes[nid]
            path = path + [nid]
            if nid in cut:
                continue
            if nid == cfg.raise_exit:
                return True, captures, [cfg.nodes[i] for i in path]
            if nid == cfg.exit:
                continue
            if inflight:
                if nd.kind == "except":
                    captures.append(nd.ast)
                    # handler body: normal flow + explicit raises
                    for e in cfg.succ[nid]:
                        stack.append(((e.dst, False), path))
                    continue
                # finally / with-exit copy: run it, then keep propagating
                for e in cfg.succ[nid]:
                    if e.label == "exc":
                        if e.exc_type == "<finally>":
                            for e2 in self.exc_edges(cfg, nid, cls):
                                if e2.exc_type == "<finally>":
                                    stack.append(((e2.dst, True), path))
                            break
                        continue
                    stack.append(((e.dst, True), path))
                # with_exit node of an exceptional copy propagates through its implicit exc edge
                if nd.kind == "with_exit" or (nd.kind == "join"):
                    pass
                continue
            # handled mode: normal control flow; an explicit re-raise puts the fault back in flight
            for e in cfg.succ[nid]:
                if e.label == "exc":
                    if e.implicit:
                        continue
                    # explicit raise inside the handler
                    if isinstance(nd.ast, ast.Raise) or e.exc_type == "<finally>":
                        reraises_same = isinstance(nd.ast, ast.Raise) and (nd.ast.exc is None or isinstance(nd.ast.exc, ast.Name))
                        if isinstance(nd.ast, ast.Raise) and not reraises_same:
                            continue  # raises a different, new exception: not this fault
                        stack.append(((e.dst, True), path))
                    continue
                stack.append(((e.dst, False), path))
        return False, captures, None

    def propagate(self, sources, cls_of, stop_at=None, max_depth=12):
        """sources: list of (fi, cfg node, kind).  Walk up the callers while the fault escapes.
        Calls through `self` keep the receiver object, so the dynamic class of `self` stays bounded
        by the class the fault started in (a FutureBase.error() reached from BatchBase code cannot
        dispatch to Future._compute).  Returns chains that escape a function for which
        stop_at(fi) is true."""
        results = []
        for fi, node, kind in sources:
            cls = cls_of(kind)
            work = [(fi, node, [(fi, node)], fi.cls)]
            seen = set()
            while work:
                f, n, chain, bound = work.pop()
                key = (f.qualname, n.id, bound.qualname if bound is not None else None)
                if key in seen or len(chain) > max_depth:
                    continue
                seen.add(key)
                esc, caps, path = self.escapes_function(f, n, cls)
                if not esc:
                    continue
                if stop_at is not None and stop_at(f):
                    results.append((kind, chain, path))
                    continue
                for caller, call, k in self.R.res.callers_of(f, kinds=("resolved", "cha")):
                    recv = q.attr_call(call)[0]
                    nb = caller.cls
                    if recv is not None and q.dotted(recv) == "self" and caller.cls is not None and bound is not None:
                        if caller.cls.is_subclass_of(bound):
                            nb = caller.cls
                        elif bound.is_subclass_of(caller.cls):
                            nb = bound
                        else:
                            continue  # unrelated classes: this dispatch is impossible
                    elif recv is not None and bound is not None:
                        rc = self.R.res.expr_class(caller, recv)
                        if rc and not any(c.is_subclass_of(bound) or bound.is_subclass_of(c) for c in rc):
                            continue
                    ccfg = cfg_of(caller)
                    for x in ccfg.nodes:
                        if call in kit.node_calls(x):
                            work.append((caller, x, chain + [(caller, x)], nb))
        return results


def fault_sources(R, ro, kinds):
    """[(fi, node, kind)] for the requested fault kinds."""
    out = []
    at = ro.AsyncTask
    g = "self." + ro.generator_field()
    if "step" in kinds:
        f = ro.generator_step_fn()
        for n, c in ro.step_sites(f):
            out.append((f, n, "step"))
    if "close" in kinds:
        for m in at.methods.values():
            for n, c in kit.call_sites(m, lambda c: q.attr_call(c)[1] == "close" and q.dotted(q.attr_call(c)[0]) == g):
                out.append((m, n, "close"))
    if "provider" in kinds:
        fc = ro.Future.methods.get("_compute")
        R.need(fc is not None, "anchor vanished: Future._compute")
        s = kit.call_sites(fc, lambda c: q.call_name(c) == "self._value_provider")
        R.need(s, "idiom: Future._compute no longer calls self._value_provider()")
        for n, c in s:
            out.append((fc, n, "provider"))
        # ... and _compute() is itself the override point of FutureBase: a user's future class may raise from it whatever the
        # package's own implementations do, so the scheduler's own calls of <entry>._compute() are fault sources, too
        for m in ro.ts_methods():
            for n, c in kit.call_sites(m, lambda c: q.attr_call(c)[1] == "_compute" and isinstance(q.attr_call(c)[0], ast.Name) and q.attr_call(c)[0].id != "self"):
                out.append((m, n, "provider"))
    if "flush" in kinds:
        bc = ro.BatchBase.methods.get("_compute")
        R.need(bc is not None, "anchor vanished: BatchBase._compute")
        s = kit.call_sites(bc, lambda c: q.call_name(c) == "self._flush")
        R.need(s, "idiom: BatchBase._compute no longer calls self._flush()")
        for n, c in s:
            out.append((bc, n, "flush"))
    if "context" in kinds:
        for m in at.methods.values():
            for n, c in kit.call_sites(m, lambda c: q.attr_call(c)[1] in ("pause", "resume") and isinstance(q.attr_call(c)[0], ast.Name)
                                       and q.attr_call(c)[0].id != "self"):
                out.append((m, n, "context"))
    return out


def escape_rule(R, ro, rule, kinds, what):
    esc = Escape(R, ro)
    srcs = fault_sources(R, ro, kinds)
    R.need(len(srcs) >= len(kinds), "fault sources not found for %s" % (kinds,))
    ts = ro.TS

    def cls_of(kind):
        return "BaseException" if kind == "flush" else "Exception"

    def stop_at(f):
        return f.cls is ts and f.parent is None

    res = esc.propagate(srcs, cls_of, stop_at)
    crossing = {}
    for kind, chain, path in res:
        key = "%s:%s->%s" % (kind, chain[0][0].qualname, chain[-1][0].qualname)
        crossing.setdefault(key, (kind, chain, path))
    for fi, node, kind in srcs:
        hits = [k for k in crossing if k.startswith("%s:%s->" % (kind, fi.qualname))]
        site = R.site(fi, node.ast)
        if not hits:
            R.ok(rule, site, "a fault of the %s (%s) is captured into a future's error before it can cross a TaskScheduler frame" % (kind, what))
        for k in hits:
            kind_, chain, path = crossing[k]
            R.violation(rule, k, site,
                        "an exception raised by the %s propagates uncaptured through %s: it is not delivered at the awaiting task's yield "
                        "and unwinds the scheduler" % (kind, chain[-1][0].qualname),
                        " <- ".join("%s:%s" % (f.qualname, n.lineno) for f, n in chain))
    return srcs


# ------------------------------------------------------------------------------------------
# UNWIND (C08, C07): the drain leaves nothing behind on exceptional exit
# ------------------------------------------------------------------------------------------

def stack_height_names(ro):
    """(name of the local holding the stack height recorded at the drain's entry - before the root task is pushed -,
    set of source texts that denote the *current* height: len(self.<stack>) and locals freshly assigned from it)."""
    d = ro.drain_method()
    cfg = cfg_of(d)
    sf = ro.stack_field()
    lensrc = "len(self.%s)" % sf
    pushes = [n for n, c in kit.call_sites(d, lambda c: q.call_name(c) == "self.%s.append" % sf)]
    entry, current = None, set([lensrc])
    for n in cfg.nodes:
        if n.kind == "stmt" and isinstance(n.ast, ast.Assign) and q.src(n.ast.value) == lensrc and len(n.ast.targets) == 1 and isinstance(n.ast.targets[0], ast.Name):
            nm = n.ast.targets[0].id
            # recorded before the push on every path -> the entry height; otherwise a fresh reading of the current height
            if pushes and cfg.find_path([cfg.entry], pushes, N, cut_nodes=[n]) is None and entry is None:
                entry = nm
            else:
                current.add(nm)
    return entry, current


def unwind_rule(R, ro, rule):
    d = ro.drain_method()
    cfg = cfg_of(d)
    sf = ro.stack_field()
    site = R.site(d)
    # push of the root
    pushes = kit.call_sites(d, lambda c: q.call_name(c) == "self.%s.append" % sf)
    R.need(pushes, "idiom: the drain no longer pushes its root task")
    # captured entry height: name assigned from len(self.<stack>) before the push
    heights = []
    for n in cfg.nodes:
        if n.kind == "stmt" and isinstance(n.ast, ast.Assign) and q.src(n.ast.value) == "len(self.%s)" % sf:
            for t in n.ast.targets:
                if isinstance(t, ast.Name):
                    heights.append((t.id, n))
    R.need(heights, "idiom: the drain no longer records the stack height at entry")
    hname, hnode = heights[0]
    p = cfg.find_path([cfg.entry], [n for n, c in pushes], N, cut_nodes=[hnode])
    R.check(p is None, rule + ".HEIGHT", d.qualname + ":height", site,
            "the entry height is recorded before the root task is pushed",
            "the root task can be pushed before the entry height is recorded (re-entrant drains would pop their caller's tasks)",
            cfg.fmt_path(p) if p else None)
    # truncation statements: del self.<stack>[h:]  /  self.<stack>[h:] = [] / while len>h: pop
    truncs = []
    for n in cfg.nodes:
        if n.kind != "stmt":
            continue
        a = n.ast
        tgt = None
        if isinstance(a, ast.Delete) and len(a.targets) == 1:
            tgt = a.targets[0]
        elif isinstance(a, ast.Assign) and len(a.targets) == 1 and isinstance(a.value, (ast.List, ast.Tuple)) and not a.value.elts:
            tgt = a.targets[0]
        if isinstance(tgt, ast.Subscript) and q.dotted(tgt.value) == "self.%s" % sf and isinstance(tgt.slice, ast.Slice):
            sl = tgt.slice
            if sl.upper is None and sl.step is None and isinstance(sl.lower, ast.Name) and sl.lower.id == hname:
                truncs.append(n)
    # every exceptional exit that happens after the push passes a truncation
    starts = []
    for n, c in pushes:
        starts += [e.dst for e in cfg.out_edges(n.id, N)]
    p = cfg.find_path(starts, [cfg.raise_exit], X, cut_nodes=truncs)
    # the max-stack guard resets the whole scheduler: that path is exempt when it passes reset()
    resets = [n for n, c in kit.call_sites(d, lambda c: q.call_name(c) == "self.reset")]
    if p is not None and resets:
        p = cfg.find_path(starts, [cfg.raise_exit], X, cut_nodes=truncs + resets)
    R.check(p is None, rule, d.qualname + ":unwind", site,
            "every exceptional exit of the drain truncates self.%s to its entry height (or resets the scheduler) first" % sf,
            "an exception can leave the drain with the tasks it pushed still on self.%s: they stay on the thread's scheduler for good" % sf,
            cfg.fmt_path(p) if p else None)
    # the truncation must not cut below the entry height nor reset the whole scheduler:
    # any store/clear of the stack field on an exceptional path other than the accepted forms
    bad = []
    for h in [n for n in cfg.nodes if n.kind == "except"]:
        for sub in ast.walk(h.ast):
            if isinstance(sub, ast.Call) and q.call_name(sub) in ("self.reset", "self.%s.clear" % sf):
                bad.append(sub)
            if isinstance(sub, ast.Assign):
                for t in sub.targets:
                    if q.dotted(t) == "self.%s" % sf:
                        bad.append(sub)
    for b in bad:
        R.violation(rule + ".SCOPE", "%s:%s" % (d.qualname, q.stmt_key(b)), R.site(d, b),
                    "the drain's exception handler discards the whole stack (%s): a nested synchronous call that fails would wipe the "
                    "tasks of the computation that called it" % q.src(b))
    if not bad:
        R.ok(rule + ".SCOPE", site, "the exception handler only truncates to the entry height (enclosing computations keep their tasks)")


def unwind_pauses(R, ro, rule):
    """Tasks that are dropped from the stack without being continued (an exception leaves the drain; the stack limit resets the
    scheduler) have their contexts paused, innermost (top of the stack) first.  A task that waits for its dependencies has
    its contexts resumed; dropped like that it would keep e.g. a scoped-value override in effect after the computation ended."""
    d = ro.drain_method()
    cfg = cfg_of(d)
    sf = "self." + ro.stack_field()
    hookm = "_pause_contexts"
    # copies of the part of the stack that is dropped:  X = self.<stack>[lower:]
    copies = {}
    for n in cfg.nodes:
        if n.kind == "stmt" and isinstance(n.ast, ast.Assign) and len(n.ast.targets) == 1 and isinstance(n.ast.targets[0], ast.Name):
            v = n.ast.value
            if isinstance(v, ast.Call) and q.call_name(v) == "list" and len(v.args) == 1:
                v = v.args[0]
            if isinstance(v, ast.Subscript) and q.src(v.value) == sf and isinstance(v.slice, ast.Slice) and v.slice.upper is None and v.slice.step is None:
                copies[n.ast.targets[0].id] = (q.src(v.slice.lower) if v.slice.lower is not None else "0", n)
    loops = []      # (for-node, lower bound of what it walks, reversed?)
    for n in cfg.nodes:
        if n.kind not in ("loop", "for") or not isinstance(n.ast, ast.For) or not isinstance(n.ast.target, ast.Name):
            continue
        it = n.ast.iter
        rev = isinstance(it, ast.Call) and q.call_name(it) == "reversed" and len(it.args) == 1
        base = it.args[0] if rev else it
        if isinstance(base, ast.Subscript) and q.src(base.slice) == "::-1":
            rev, base = True, base.value
        lower = None
        if isinstance(base, ast.Name) and base.id in copies:
            lower = copies[base.id][0]
        elif isinstance(base, ast.Subscript) and q.src(base.value) == sf and isinstance(base.slice, ast.Slice) and base.slice.upper is None:
            lower = q.src(base.slice.lower) if base.slice.lower is not None else "0"
        if lower is None:
            continue
        aliases = set([n.ast.target.id])
        for x in ast.walk(n.ast):
            if isinstance(x, ast.Assign) and isinstance(x.value, ast.Name) and x.value.id in aliases:
                aliases |= set(t.id for t in x.targets if isinstance(t, ast.Name))
        calls = [c for st in n.ast.body for c in q.calls(st) if q.attr_call(c)[1] == hookm and isinstance(q.attr_call(c)[0], ast.Name) and q.attr_call(c)[0].id in aliases]
        if calls:
            loops.append((n, lower, rev))
            # ... but not a task that is executing right now (it made the synchronous call we are unwinding from): its code goes
            # on running with its contexts; pausing them here would make its next resumption resume them a second time
            for c in calls:
                cn = [x for x in cfg.nodes if c in kit.node_calls(x)]

                def not_running(nd, aliases=aliases):
                    if nd.kind != "test":
                        return None
                    k_, s_, pos_ = q.atom_test(nd.ast)
                    if k_ == "truth" and isinstance(s_, str) and s_.endswith(".running") and s_.split(".")[0] in aliases:
                        return "F" if pos_ else "T"
                    return None
                # ... and the pause is reached exactly for the entries that are tasks (the stack also holds batch items and plain
                # futures) and are not computed yet
                def is_task(nd, aliases=aliases):
                    if nd.kind != "test":
                        return None
                    k_, s_, pos_ = q.atom_test(nd.ast)
                    if k_ == "isinstance" and s_[0] in aliases and s_[1].split(".")[-1] == "AsyncTask":
                        return "T" if pos_ else "F"
                    return None
                pt = kit.path_avoiding_guard(cfg, cn, is_task, N)
                R.check(pt is None, rule, d.qualname + ":tasks-only:" + str(lower), R.site(d, c),
                        "only entries that are AsyncTasks are paused", "a stack entry that is not an AsyncTask (a batch item, a plain future) can reach _pause_contexts(): "
                        "the unwinding itself fails and replaces the original exception", cfg.fmt_path(pt) if pt else None)
                head_starts = [e.dst for e in cfg.out_edges(n.id, N) if e.label == "iter"]

                def wrong_side(e, aliases=aliases):
                    nd = cfg.nodes[e.src]
                    if nd.kind != "test":
                        return False
                    k_, s_, pos_ = q.atom_test(nd.ast)
                    if k_ == "isinstance" and s_[0] in aliases and s_[1].split(".")[-1] == "AsyncTask":
                        return e.label == ("F" if pos_ else "T")
                    if k_ == "call" and isinstance(s_, str) and s_.endswith(".is_computed") and s_.split(".")[0] in aliases:
                        return e.label == ("T" if pos_ else "F")
                    if k_ == "truth" and isinstance(s_, str) and s_.endswith(".running") and s_.split(".")[0] in aliases:
                        return e.label == ("T" if pos_ else "F")
                    return False
                pl = cfg.find_path(head_starts, cn, N, keep_edge=lambda e: not wrong_side(e))
                R.check(pl is not None, rule, d.qualname + ":reaches:" + str(lower), R.site(d, c),
                        "an uncomputed, suspended AsyncTask among the dropped entries does get its contexts paused",
                        "the pause of a dropped task's contexts is only reachable for entries that are not tasks, are computed or are running: the tasks it is "
                        "meant for keep their contexts resumed")
                # ... nor a task that lies below an executing one (walking down from the top of the stack: once an executing task has
                # been passed, everything further down is waiting for it): its contexts are meant to be active while that task's code runs,
                # pausing them restores their saved values underneath the running task's own overrides (not nested), and the loops still
                # waiting for those tasks resume them again later
                run_succ = []
                for x in cfg.nodes:
                    if x.kind == "test":
                        k_, s_, pos_ = q.atom_test(x.ast)
                        if k_ == "truth" and isinstance(s_, str) and s_.endswith(".running") and s_.split(".")[0] in aliases and any(x.ast is y or x.stmt is y for y in ast.walk(n.ast)):
                            run_succ += [e.dst for e in cfg.out_edges(x.id, N) if e.label == ("T" if pos_ else "F")]
                if run_succ and rev:
                    flag_names = set(t.id for x in ast.walk(d.node) if isinstance(x, ast.Assign) and isinstance(x.value, ast.Constant) and isinstance(x.value.value, bool)
                                     for t in x.targets if isinstance(t, ast.Name))
                    pb = cfg.find_path_flags(run_succ, cn, flag_names, N)
                    R.check(pb is None, rule, d.qualname + ":below-running:" + str(lower), R.site(d, c),
                            "once an executing task has been passed on the way down the stack, no further task is paused",
                            "a waiting task below an executing one (it awaits the task that made the synchronous call we are unwinding from) still has its contexts "
                            "paused: its saved values are written back underneath the running task's own overrides - the running task reads the outer value inside "
                            "its own with-block - and the task is resumed again when the loop waiting for it goes on", cfg.fmt_path(pb) if pb else None)
                if run_succ and rev:
                    # every dropped task that is not computed is asked whether it is executing (whatever else is known about it: a
                    # task without contexts of its own shields the tasks below it just the same)
                    rtests = [x for x in cfg.nodes if x.kind in ("test", "stmt") and x.ast is not n.ast and any(x.ast is y or x.stmt is y for y in ast.walk(n.ast))
                              and any(isinstance(a_, ast.Attribute) and a_.attr == "running" and isinstance(a_.value, ast.Name) and a_.value.id in aliases
                                      for e_ in kit.node_exprs(x) for a_ in ast.walk(e_))]

                    fl_names = set(t.id for x in ast.walk(d.node) if isinstance(x, ast.Assign) and isinstance(x.value, ast.Constant) and isinstance(x.value.value, bool)
                                   for t in x.targets if isinstance(t, ast.Name))

                    def task_side(e, aliases=aliases, fl_names=fl_names):
                        nd = cfg.nodes[e.src]
                        if nd.kind != "test":
                            return True
                        k_, s_, pos_ = q.atom_test(nd.ast)
                        if k_ == "truth" and s_ in fl_names:
                            # an executing task has been passed already: nothing more to find out
                            return e.label == ("F" if pos_ else "T")
                        if k_ == "isinstance" and s_[0] in aliases and s_[1].split(".")[-1] == "AsyncTask":
                            return e.label == ("T" if pos_ else "F")
                        if k_ == "call" and isinstance(s_, str) and s_.endswith(".is_computed") and s_.split(".")[0] in aliases:
                            return e.label == ("F" if pos_ else "T")
                        return True
                    pm = cfg.find_path(head_starts, [n], N, cut_nodes=rtests, keep_edge=task_side)
                    R.check(pm is None, rule, d.qualname + ":asks-running:" + str(lower), R.site(d, c),
                            "every dropped task that is not computed is asked whether it is executing",
                            "an uncomputed task among the dropped entries can be passed without being asked whether it is executing (e.g. because it has no "
                            "contexts of its own): the tasks below an executing task are then not recognised as waiting for it and have their contexts paused "
                            "while the only task they await is running", cfg.fmt_path(pm) if pm else None)
                pr = kit.path_avoiding_guard(cfg, cn, not_running, N)
                R.check(pr is None, rule, d.qualname + ":not-running:" + str(lower), R.site(d, c),
                        "a task that is executing at that moment keeps its contexts",
                        "the contexts of a task that is still executing (the caller of the nested synchronous call) are paused while its code runs on: "
                        "contexts it enters afterwards are resumed twice at its next step", cfg.fmt_path(pr) if pr else None)
    no_exc = lambda e: not (e.implicit and cfg.nodes[e.dst].kind == "except")
    # 1. the exception handler that truncates the stack
    hname, _cur = stack_height_names(ro)
    handlers = [n for n in cfg.nodes if n.kind == "except" and any(isinstance(x, ast.Raise) and x.exc is None for x in ast.walk(n.ast))]
    for h in handlers:
        good = [n for n, lower, rev in loops if lower == hname and rev]
        p = cfg.find_path([h], [cfg.raise_exit], N, cut_nodes=good, keep_edge=no_exc)
        R.check(p is None and good, rule, d.qualname + ":handler", R.site(d, h.ast),
                "before the exception leaves the drain, the tasks it drops have their contexts paused, top of the stack first",
                "an exception leaves the drain with the contexts of the dropped tasks still resumed (or paused in the wrong order): an AsyncScopedValue override "
                "made by a task that was waiting for its dependencies stays in effect after the computation ended with the error",
                cfg.fmt_path(p) if p else None)
    R.need(handlers, "idiom: the drain has no re-raising exception handler")
    # 2. the stack-limit reset
    resets = [n for n, c in kit.call_sites(d, lambda c: q.call_name(c) == "self.reset")]
    for r_ in resets:
        good = [n for n, lower, rev in loops if lower == "0" and rev]
        # the pause happens before the reset throws the stack away
        dom = cfg.find_path([cfg.entry], [r_], N, cut_nodes=good, keep_edge=no_exc)
        R.check(dom is None and good, rule, d.qualname + ":reset", R.site(d, r_.ast),
                "before the stack limit resets the scheduler, every task on the stack has its contexts paused, top first",
                "the stack limit resets the scheduler with the contexts of the tasks on the stack still resumed: their overrides outlive the RuntimeError",
                cfg.fmt_path(dom) if dom else None)


def unwind_loops(ro):
    """[(cfg, loop node, lower bound text, reversed?, aliases of the loop variable)] for the loops of the drain (helpers inlined) that
    walk the part of the stack that is being dropped."""
    d = ro.drain_method()
    cfg = cfg_of(d)
    sf = "self." + ro.stack_field()
    copies = {}
    for n in cfg.nodes:
        if n.kind == "stmt" and isinstance(n.ast, ast.Assign) and len(n.ast.targets) == 1 and isinstance(n.ast.targets[0], ast.Name):
            v = n.ast.value
            if isinstance(v, ast.Call) and q.call_name(v) == "list" and len(v.args) == 1:
                v = v.args[0]
            if isinstance(v, ast.Subscript) and q.src(v.value) == sf and isinstance(v.slice, ast.Slice) and v.slice.upper is None and v.slice.step is None:
                copies[n.ast.targets[0].id] = q.src(v.slice.lower) if v.slice.lower is not None else "0"
    out = []
    for n in cfg.nodes:
        if n.kind not in ("loop", "for") or not isinstance(n.ast, ast.For) or not isinstance(n.ast.target, ast.Name):
            continue
        it = n.ast.iter
        rev = isinstance(it, ast.Call) and q.call_name(it) == "reversed" and len(it.args) == 1
        base = it.args[0] if rev else it
        if isinstance(base, ast.Subscript) and q.src(base.slice) == "::-1":
            rev, base = True, base.value
        lower = None
        if isinstance(base, ast.Name) and base.id in copies:
            lower = copies[base.id]
        elif isinstance(base, ast.Subscript) and q.src(base.value) == sf and isinstance(base.slice, ast.Slice) and base.slice.upper is None:
            lower = q.src(base.slice.lower) if base.slice.lower is not None else "0"
        if lower is None:
            continue
        aliases = set([n.ast.target.id])
        for x in ast.walk(n.ast):
            if isinstance(x, ast.Assign) and isinstance(x.value, ast.Name) and x.value.id in aliases:
                aliases |= set(t.id for t in x.targets if isinstance(t, ast.Name))
        out.append((cfg, n, lower, rev, aliases))
    return out


def unwind_flag_reset(R, ro, rule):
    """A waiting task that is dropped from the stack together with the dependencies it had scheduled is no longer "a task whose
    dependencies are on the stack": its dependencies-scheduled flag is cleared where it is dropped.  Otherwise, when the program
    kept the task and awaits it again, the first walk takes it for a task whose subtree has been run already, skips it, and
    flushes before that subtree has issued its requests."""
    d = ro.drain_method()
    handle = ro.handle_task_method()
    flags = set()
    for n in ast.walk(handle.node):
        if isinstance(n, ast.Assign) and isinstance(n.targets[0], ast.Attribute) and isinstance(n.value, ast.Constant) and n.value.value is True \
                and isinstance(n.targets[0].value, ast.Name) and n.targets[0].value.id != "self":
            flags.add(n.targets[0].attr)
    R.need(len(flags) == 1, "role: the flag %s sets when it pushes a task's dependencies was not identified (%s)" % (handle.qualname, sorted(flags)))
    flag = flags.pop()
    loops = unwind_loops(ro)
    R.need(loops, "idiom: the drain has no loop over the dropped part of the stack")
    bounds = sorted(set(lower for cfg, n, lower, rev, aliases in loops))
    for b in bounds:
        ok_any = False
        site = None
        for cfg, n, lower, rev, aliases in loops:
            if lower != b:
                continue
            site = site or R.site(d, n.ast)
            clears = [x for x in cfg.nodes if x.kind == "stmt" and isinstance(x.ast, ast.Assign) and any(x.ast is y for y in ast.walk(n.ast))
                      and isinstance(x.ast.targets[0], ast.Attribute) and x.ast.targets[0].attr == flag and isinstance(x.ast.targets[0].value, ast.Name)
                      and x.ast.targets[0].value.id in aliases and isinstance(x.ast.value, ast.Constant) and x.ast.value.value is False]
            if not clears:
                continue
            head_starts = [e.dst for e in cfg.out_edges(n.id, N) if e.label == "iter"]

            def wrong_side(e, aliases=aliases, cfg=cfg):
                nd = cfg.nodes[e.src]
                if nd.kind != "test":
                    return False
                k_, s_, pos_ = q.atom_test(nd.ast)
                if k_ == "isinstance" and s_[0] in aliases and s_[1].split(".")[-1] == "AsyncTask":
                    return e.label == ("F" if pos_ else "T")
                if k_ == "call" and isinstance(s_, str) and s_.endswith(".is_computed") and s_.split(".")[0] in aliases:
                    return e.label == ("T" if pos_ else "F")
                return False
            # every way through one iteration for an uncomputed task entry passes a clear
            nxt = [e.dst for e in cfg.in_edges(n.id, N)] if hasattr(cfg, "in_edges") else []
            p = cfg.find_path(head_starts, [n], N, cut_nodes=clears, keep_edge=lambda e: not wrong_side(e))
            if p is None:
                ok_any = True
        R.check(ok_any, rule, "%s:%s:%s" % (d.qualname, flag, b), site,
                "an uncomputed task dropped from the stack (from %s up) has its %s flag cleared" % (b, flag),
                "tasks dropped from the stack (from %s up) keep %s = True: a task the program still holds and awaits later is skipped by the first "
                "walk (its dependencies are taken to be on the stack already) and a batch is flushed before its subtree has issued its requests" % (b, flag))

# methods of the public base classes that user subclasses override (beyond those the package's own subclasses override and
# those that raise NotImplementedError, which are found in the source)
DOCUMENTED_HOOKS = {
    "batching.BatchBase": ("get_priority", "_flush", "_cancel", "_try_switch_active_batch"),
    "batching.BatchItemBase": (),
    "futures.FutureBase": ("_compute", "_computed"),
    "contexts.NonAsyncContext": ("pause", "resume"),
    "contexts.AsyncContext": ("pause", "resume"),
}


def hook_dispatch(R, rule, classes=None):
    """A method that user subclasses (plain Python classes) override is declared cpdef - or not at all - in the .pxd: a `cdef`
    method is dispatched through the extension type's C method table, which a Python subclass cannot change, so compiled callers
    (the scheduler) would run the base implementation and silently ignore the override."""
    n = 0
    for cq in sorted(classes or DOCUMENTED_HOOKS):
        cls = R.repo.cls(cq)
        if cls.pxd is None:
            continue
        hooks = set(DOCUMENTED_HOOKS.get(cq, ()))
        for name, m in cls.methods.items():
            if any(isinstance(x, ast.Raise) and x.exc is not None and "NotImplementedError" in q.src(x.exc) for x in q.scope_nodes(m.node)):
                hooks.add(name)
            for sub in R.repo.subclasses(cls, strict=True):
                if name in sub.methods and not name.startswith("__"):
                    hooks.add(name)
        for name in sorted(hooks):
            pf = cls.pxd.methods.get(name)
            if pf is None:
                continue
            n += 1
            R.check(pf.kind != "cdef", rule, "%s.%s" % (cls.qualname, name), "%s:%d" % (cls.module.pxd_path.replace(R.repo.root + "/", ""), pf.line),
                    "%s.%s is declared %s: a Python subclass's override is honoured by compiled callers" % (cls.name, name, pf.kind),
                    "%s.%s is an override point but the .pxd declares it `cdef`: compiled callers dispatch through the C method table and run the base "
                    "implementation - a user subclass's %s() is silently ignored in the compiled build" % (cls.name, name, name))
    return n


def typed_stack_elements(R, ro, rule):
    """The scheduler's stack holds futures of every kind (tasks, batch items, lazy futures): the drain itself dispatches on
    isinstance(entry, AsyncTask).  A local that the .pxd types as AsyncTask is a checked downcast in the compiled build, so it may be
    bound to a stack entry only after that test; bound directly (as a loop variable over the stack, from stack[-1] / pop()) the first
    entry of another kind raises TypeError inside the scheduler - in the pure-Python build nothing happens.  Read from the source as
    written (helpers not inlined): the .pxd types locals per function."""
    ts = ro.TS
    sf = ro.stack_field()
    sfs = "self." + sf
    raw = ast.parse(ts.module.src)
    q.set_parents(raw) if hasattr(q, "set_parents") else None
    cdefs = [c for c in ast.walk(raw) if isinstance(c, ast.ClassDef) and c.name == ts.name]
    R.need(len(cdefs) == 1, "anchor vanished: class %s in the source as written" % ts.name)
    fns = [f for f in cdefs[0].body if isinstance(f, ast.FunctionDef)]

    def derived(fn, e, depth=0):
        if depth > 4 or e is None:
            return False
        if q.src(e) == sfs:
            return True
        if isinstance(e, ast.Subscript) and isinstance(e.slice, ast.Slice):
            return derived(fn, e.value, depth + 1)
        if isinstance(e, ast.Call) and q.call_name(e) in ("reversed", "list", "tuple", "iter") and len(e.args) == 1:
            return derived(fn, e.args[0], depth + 1)
        if isinstance(e, ast.Name):
            vals = assigned_values(fn, e.id)
            return bool(vals) and all(k == "expr" and derived(fn, v, depth + 1) for k, v in vals)
        return False

    def element(fn, e):
        if isinstance(e, ast.Subscript) and not isinstance(e.slice, ast.Slice) and derived(fn, e.value):
            return True
        if isinstance(e, ast.Call) and q.attr_call(e)[1] == "pop" and q.attr_call(e)[0] is not None and derived(fn, q.attr_call(e)[0]):
            return True
        return False
    binds = []
    for fn in fns:
        for n in ast.walk(fn):
            if isinstance(n, ast.For) and isinstance(n.target, ast.Name) and derived(fn, n.iter):
                binds.append((fn, n.target.id, n))
            elif isinstance(n, ast.Assign) and len(n.targets) == 1 and isinstance(n.targets[0], ast.Name) and element(fn, n.value):
                binds.append((fn, n.targets[0].id, n))
    R.need(binds, "idiom: no %s method binds an entry of the task stack to a local" % ts.name)
    tested = set()
    for fn, name, node in binds:
        for t in ast.walk(fn):
            if isinstance(t, ast.Call) and q.call_name(t) == "isinstance" and len(t.args) == 2 and isinstance(t.args[0], ast.Name) and t.args[0].id == name:
                for e in (t.args[1].elts if isinstance(t.args[1], ast.Tuple) else [t.args[1]]):
                    c = R.res.type_from_string(ts.module, q.dotted(e) or "")
                    if c is not None:
                        tested.add(c.qualname)
    R.need(tested, "idiom: no isinstance dispatch on stack entries found (the stack is assumed heterogeneous)")
    n = 0
    for fn, name, node in binds:
        pf = ts.pxd.methods.get(fn.name) if ts.pxd is not None else None
        tstr = pf.param_type(name) if pf is not None else None
        t = R.res.type_from_string(ts.module, tstr) if tstr else None
        n += 1
        bad = t is not None and t.qualname in tested
        R.check(not bad, rule, "%s.%s:%s" % (ts.qualname, fn.name, name), "%s:%d %s.%s" % (ts.module.relpath, node.lineno, ts.qualname, fn.name),
                "`%s` (bound to a stack entry in %s) is not C-typed as one kind of entry" % (name, fn.name),
                "%s.%s binds `%s`, which scheduler.pxd types as %s, directly to an entry of the task stack, while the scheduler itself tests "
                "isinstance(entry, %s): the stack also holds batch items and lazy futures, and in the compiled build the first such entry "
                "raises TypeError here (the pure-Python build is unaffected)" % (ts.name, fn.name, name, t.name if t else "?", t.name if t else "?"))
    return n


MUTATING = ("add", "discard", "remove", "pop", "popitem", "clear", "update", "setdefault", "append", "extend", "insert", "__setitem__", "__delitem__")


def no_mutation_while_iterating(R, rule, classes):
    """A for loop that iterates a set or dict held in a field does not change that very container in its body (add / discard / remove /
    pop / clear / item stores): CPython raises "changed size during iteration" at the next step - out of the scheduler, in the middle of
    whatever it was doing.  The loop iterates a copy, or collects what to remove and removes it afterwards."""
    n = 0
    for cq in classes:
        cls = R.repo.cls(cq)
        for m in cls.methods.values():
            for lp in [x for x in q.scope_nodes(m.node) if isinstance(x, ast.For)]:
                it = lp.iter
                # direct iteration of self.<field> or of a live view of it (.values()/.items()/.keys(), reversed(view)); a copy is fine
                e = it
                while isinstance(e, ast.Call) and (q.call_name(e) in ("reversed", "iter", "enumerate") and e.args or q.attr_call(e)[1] in ("values", "items", "keys")):
                    e = e.args[0] if q.call_name(e) in ("reversed", "iter", "enumerate") else q.attr_call(e)[0]
                d = q.dotted(e)
                if not d or not d.startswith("self.") or d.count(".") != 1:
                    continue
                t_, owner = cls.field_type(d[5:]) if hasattr(cls, "field_type") else (None, None)
                n += 1
                muts = []
                for st in lp.body:
                    for x in ast.walk(st):
                        if isinstance(x, (ast.FunctionDef, ast.AsyncFunctionDef, ast.Lambda)):
                            continue
                        if isinstance(x, ast.Call) and q.attr_call(x)[1] in MUTATING and q.dotted(q.attr_call(x)[0]) == d:
                            muts.append(x)
                        if isinstance(x, ast.Subscript) and isinstance(x.ctx, (ast.Store, ast.Del)) and q.dotted(x.value) == d:
                            muts.append(x)
                R.check(not muts, rule, "%s:%s" % (m.qualname, d), R.site(m, lp),
                        "%s is not changed while %s iterates it" % (d, m.name),
                        "%s changes %s (`%s`) inside the loop that iterates it: the next iteration step raises RuntimeError (changed size during iteration) out "
                        "of the scheduler - whatever was waiting (an item's error to be delivered, sibling tasks) is lost with it"
                        % (m.qualname, d, q.src(muts[0])[:50] if muts else ""))
    return n


def int_identity(R, rule, functions):
    """`is` / `is not` between a counter and a bound compares object identity: CPython shares int objects only in -5..256, so the
    test is true for small numbers and false for equal larger ones - a loop that gives up `if tries is max_tries` never gives up for a
    limit above 256."""
    n = 0
    for f in functions:
        counters = set()
        for x in ast.walk(f.node):
            if isinstance(x, ast.AugAssign) and isinstance(x.target, ast.Name) and isinstance(x.op, (ast.Add, ast.Sub)):
                counters.add(x.target.id)
            if isinstance(x, ast.Assign) and isinstance(x.value, ast.Constant) and isinstance(x.value.value, int) and not isinstance(x.value.value, bool):
                counters.update(t.id for t in x.targets if isinstance(t, ast.Name))
            if isinstance(x, ast.For) and isinstance(x.iter, ast.Call) and q.call_name(x.iter) in ("range", "enumerate"):
                tg = x.target.elts[0] if isinstance(x.target, ast.Tuple) and q.call_name(x.iter) == "enumerate" else x.target
                if isinstance(tg, ast.Name):
                    counters.add(tg.id)
        for x in ast.walk(f.node):
            if isinstance(x, ast.Compare) and len(x.ops) == 1 and isinstance(x.ops[0], (ast.Is, ast.IsNot)):
                a, b = x.left, x.comparators[0]
                if any(isinstance(y, ast.Constant) and (y.value is None or isinstance(y.value, bool)) for y in (a, b)):
                    continue
                names = set(y.id for side in (a, b) for y in ast.walk(side) if isinstance(y, ast.Name))
                arith = any(isinstance(y, ast.BinOp) for side in (a, b) for y in ast.walk(side))
                if names & counters or arith:
                    n += 1
                    R.violation(rule, "%s:%s" % (f.qualname, q.src(x)[:40]), R.site(f, x),
                                "`%s` compares numbers by identity: equal ints are the same object only for small values (-5..256), so the test never succeeds for a "
                                "larger bound - e.g. a retry loop that should give up after max_tries attempts runs for ever (or re-raises nothing) when max_tries > 256"
                                % q.src(x)[:60])
    return n


def active_task_pair(R, ro, rule):
    ct = ro.continue_task_method()
    st = ro.step_method_task()
    cfg = cfg_of(ct)
    params = q.param_names(ct.node)
    tp = params[1]
    site = R.site(ct)
    sets = [n for n in kit.store_nodes(ct, "active_task") if isinstance(n.ast, ast.Assign) and q.src(n.ast.value) == tp]
    R.need(sets, "idiom: %s no longer sets self.active_task to the task" % ct.qualname)
    saves = []
    for n in cfg.nodes:
        if n.kind == "stmt" and isinstance(n.ast, ast.Assign) and q.src(n.ast.value) == "self.active_task":
            for t in n.ast.targets:
                if isinstance(t, ast.Name):
                    saves.append((t.id, n))
    if not saves:
        R.violation(rule, ct.qualname + ":save", site,
                    "%s overwrites self.active_task without first saving the previous value: whatever it 'restores' afterwards is not the task that was "
                    "active before (after a nested synchronous call the enclosing task is no longer the active one)" % ct.name)
        return
    sname, snode = saves[0]
    restores = [n for n in kit.store_nodes(ct, "active_task") if isinstance(n.ast, ast.Assign) and q.src(n.ast.value) == sname]
    steps = [n for n, c in ro.calls_to(ct, [st])]
    # save before set
    p = cfg.find_path([cfg.entry], sets, N, cut_nodes=[snode])
    R.check(p is None, rule, ct.qualname + ":save", site, "the previous active task is saved before it is overwritten",
            "self.active_task can be overwritten before the previous value is saved", cfg.fmt_path(p) if p else None)
    # set before step
    p = cfg.find_path([cfg.entry], steps, N, cut_nodes=sets)
    R.check(p is None, rule, ct.qualname + ":set", site, "self.active_task is the task while it is stepped",
            "the task can be stepped without being the active task", cfg.fmt_path(p) if p else None)
    # after the set, every exit (normal and exceptional) passes a restore
    starts = []
    for s in sets:
        starts += [e.dst for e in cfg.out_edges(s.id, X)]
    p = cfg.find_path(starts, [cfg.exit, cfg.raise_exit], X, cut_nodes=restores)
    R.check(p is None, rule, ct.qualname + ":restore", site,
            "once self.active_task has been set, every exit of the method - exceptional ones included - restores the saved value",
            "the method can be left (return or exception) with self.active_task still pointing at the task",
            cfg.fmt_path(p) if p else None)
    # nothing between restore and exit sets it again; and the saved value is read at entry time
    p = cfg.find_path([cfg.entry], [snode], N, cut_nodes=[])
    R.need(p is not None, "idiom: save of active_task unreachable")


def unwrap_capture(R, ro, rule):
    """The handler around unwrap(self._last_value) covers BaseException: a dependency that failed
    with any exception - also one derived directly from BaseException - is thrown into the task at
    its yield rather than unwinding the scheduler."""
    hier = ExcHierarchy(R.repo)
    driver = ro.step_method_task()
    found = 0
    for tr in [n for n in ast.walk(driver.node) if isinstance(n, ast.Try)]:
        body_calls = [c for s_ in tr.body for c in q.calls(s_)]
        if not any(q.call_name(c) == "unwrap" and c.args and q.src(c.args[0]) == "self._last_value" for c in body_calls):
            continue
        found += 1
        cov = [h for h in tr.handlers if kit.handler_covers(h, "BaseException", hier)]
        R.check(bool(cov), rule, driver.qualname + ":unwrap-handler", R.site(driver, tr),
                "the failure of a yielded future is caught around unwrap() whatever its class (handler covers BaseException)",
                "the handler around unwrap(self._last_value) no longer covers BaseException: a dependency that failed with an exception derived directly from "
                "BaseException (KeyboardInterrupt, SystemExit, a custom control-flow signal) is not raised inside the awaiting task at its yield - it escapes the "
                "scheduler and the awaiting tasks stay uncomputed")
    R.need(found >= 1, "idiom: no try around unwrap(self._last_value) in %s" % driver.qualname)
    # the same for the step itself (an exception of task code becomes the task's error)
    step = ro.generator_step_fn()
    for n, c in ro.calls_to(driver, [step]):
        trs = kit.enclosing_try_handlers(c)
        cov = [h for t in trs[:1] for h in t.handlers if kit.handler_covers(h, "BaseException", hier)]
        R.check(bool(cov), rule, driver.qualname + ":step-handler", R.site(driver, c),
                "whatever the task's code raises is caught around the step (BaseException) and becomes the task's error",
                "the handler around the generator step no longer covers BaseException: a task that fails with such an exception unwinds the scheduler instead of failing")


def wait_for_exits(R, ro, rule):
    """wait_for returns only when the awaited task is computed and never raises on its own."""
    wf = ro.wait_for()
    cfg = cfg_of(wf)
    tparam = q.param_names(wf.node)[1]

    def computed(nd):
        if nd.kind != "test":
            return None
        k, s, pos = q.atom_test(nd.ast)
        if k == "call" and s == "%s.is_computed" % tparam:
            return "T" if pos else "F"
        return None
    p = kit.path_avoiding_guard(cfg, [cfg.exit], computed, N)
    R.check(p is None, rule, wf.qualname + ":returns-computed", R.site(wf),
            "wait_for returns only over the computed edge of %s.is_computed()" % tparam,
            "wait_for can return while the awaited task is not computed", cfg.fmt_path(p) if p else None)
    # (a bare `raise` in a handler passes on what something else raised; it is not wait_for giving up)
    raises = [n for n in cfg.nodes if n.kind == "stmt" and isinstance(n.ast, ast.Raise)
              and not (n.ast.exc is None and q.enclosing(n.ast, ast.ExceptHandler) is not None)]
    R.check(not raises, rule, wf.qualname + ":no-raise", R.site(wf),
            "wait_for never gives up on its own: as long as the task is uncomputed it drains and flushes again",
            "wait_for raises %s on its own: after a nested synchronous call has flushed the batch a suspended sibling waits for, the outer loop sees "
            "'still blocked, nothing to flush' although one more drain would make progress - a finite acyclic computation fails"
            % ", ".join(q.src(n.ast)[:60] for n in raises))


def exception_slot_types(R, rule, classes):
    """Extension-type declarations of the slots an exception object travels through (parameters / fields / typed locals named
    error, exc, e, ...) accept every exception: untyped, `object` or `BaseException`.  A narrower C type (`Exception`) turns a
    BaseException-derived failure - KeyboardInterrupt, GeneratorExit, asyncio.CancelledError, a user's abort signal - into a
    TypeError at the call boundary of the compiled build, before the code that would have delivered it runs."""
    OK = (None, "", "object", "BaseException")
    NAMES = ("error", "err", "exc", "e", "exception", "_error")
    n = 0
    for cq in classes:
        cls = R.repo.cls(cq)
        px = cls.pxd
        if px is None:
            continue
        for mname, pf in sorted(px.methods.items()):
            for t, pname, _ in pf.params:
                if pname in NAMES:
                    n += 1
                    R.check(t in OK, rule, "%s.%s(%s)" % (cls.qualname, mname, pname), "%s:%d" % (cls.module.pxd_path.replace(R.repo.root + "/", ""), pf.line),
                            "%s.%s accepts any exception object in `%s`" % (cls.name, mname, pname),
                            "%s.%s declares `%s %s`: an exception not derived from %s (KeyboardInterrupt, GeneratorExit, CancelledError, a BaseException subclass) "
                            "is refused with TypeError at the call in the compiled build instead of being delivered" % (cls.name, mname, t, pname, t))
            for lname, t in sorted(pf.locals.items()):
                if lname in NAMES:
                    n += 1
                    R.check(t in OK, rule, "%s.%s:%s" % (cls.qualname, mname, lname), "%s:%d" % (cls.module.pxd_path.replace(R.repo.root + "/", ""), pf.line),
                            "the local `%s` of %s.%s accepts any exception object" % (lname, cls.name, mname),
                            "%s.%s declares the local `%s` as %s: assigning another kind of exception raises TypeError in the compiled build" % (cls.name, mname, lname, t))
        for fname, (t, vis, line) in sorted(px.fields.items()):
            if fname in NAMES:
                n += 1
                R.check(t in OK, rule, "%s.%s" % (cls.qualname, fname), "%s:%d" % (cls.module.pxd_path.replace(R.repo.root + "/", ""), line),
                        "the field %s.%s accepts any exception object" % (cls.name, fname),
                        "%s.%s is declared %s: storing another kind of exception raises TypeError in the compiled build" % (cls.name, fname, t))
    return n


def annotation_narrowing(R, rule, modules=None):
    """In a module that is compiled, Cython enforces a parameter annotation that names a builtin or extension type as an argument
    check.  A parameter through which exception objects travel (error / exc_value / ... ; the value argument of __exit__ and throw)
    accepts every exception: an annotation narrower than BaseException (`Exception`, `Optional[Exception]`) makes the call itself
    raise TypeError for KeyboardInterrupt, GeneratorExit, CancelledError or a user's BaseException subclass - before the code that
    would have delivered it (or reset the asyncio-mode flag) runs.  The pure-Python build ignores annotations."""
    import builtins
    NAMES = ("error", "err", "exc", "e", "exception", "exc_value", "exc_val", "value_or_error")
    n = 0
    for mname in sorted(R.repo.cython_modules):
        if modules is not None and mname not in modules:
            continue
        m = R.repo.modules[mname]
        raw = ast.parse(m.src)
        for fn in [x for x in ast.walk(raw) if isinstance(x, (ast.FunctionDef, ast.AsyncFunctionDef))]:
            args = fn.args.posonlyargs + fn.args.args + fn.args.kwonlyargs
            for i, a in enumerate(args):
                slot = a.arg in NAMES or (fn.name in ("__exit__", "__aexit__", "throw") and i == 2)
                if not slot:
                    continue
                n += 1
                ann = a.annotation
                inner = ann
                while isinstance(inner, ast.Subscript) and q.src(inner.value).split(".")[-1] in ("Optional", "Union"):
                    sl = inner.slice
                    inner = sl.elts[0] if isinstance(sl, ast.Tuple) else sl
                nm = q.dotted(inner).split(".")[-1] if inner is not None and q.dotted(inner) else None
                obj = getattr(builtins, nm, None) if nm else None
                narrow = isinstance(obj, type) and issubclass(obj, BaseException) and obj is not BaseException
                R.check(not narrow, rule, "%s.%s(%s)" % (mname, fn.name, a.arg), "%s:%d %s.%s" % (m.relpath, fn.lineno, mname, fn.name),
                        "%s(%s%s) accepts any exception object" % (fn.name, a.arg, ": " + q.src(ann) if ann is not None else ""),
                        "%s.%s annotates `%s: %s` in a compiled module: Cython turns the annotation into an argument check, so an exception not derived "
                        "from %s (KeyboardInterrupt, GeneratorExit / AsyncTaskCancelledError, asyncio.CancelledError, a BaseException subclass) is refused "
                        "with TypeError at the call instead of being handled" % (mname, fn.name, a.arg, q.src(ann) if ann is not None else "", nm))
    return n


def future_truthiness(R, rule, only_under=None):
    """FutureBase.__nonzero__ raises TypeError ("treating a future as a bool is probably a bug"), and in the compiled build that
    is the object's truth slot: `if task:` / `x and task` on an expression the .pxd types as a future raises instead of testing.
    Every truth test of a future-typed expression must be written `is None` / `is not None`."""
    fb = R.repo.cls("futures.FutureBase")
    n = 0

    def atoms(e):
        if isinstance(e, ast.BoolOp):
            for v in e.values:
                for a in atoms(v):
                    yield a
        elif isinstance(e, ast.UnaryOp) and isinstance(e.op, ast.Not):
            for a in atoms(e.operand):
                yield a
        elif isinstance(e, (ast.Name, ast.Attribute)):
            yield e

    def all_funcs(fi):
        yield fi
        for nf in fi.nested.values():
            for x in all_funcs(nf):
                yield x
    seen = set()
    for f0 in R.repo.all_functions():
        for f in all_funcs(f0):
            if id(f.node) in seen:
                continue
            seen.add(id(f.node))
            if only_under is not None and f.qualname not in only_under and f0.qualname not in only_under:
                continue
            for node in q.scope_nodes(f.node):
                tests = []
                if isinstance(node, (ast.If, ast.While, ast.IfExp, ast.Assert)):
                    tests.append(node.test)
                elif isinstance(node, ast.BoolOp) and not isinstance(getattr(node, "_parent", None), (ast.If, ast.While, ast.IfExp, ast.Assert, ast.BoolOp)):
                    # `a and b` as a value: every operand but the last is truth-tested
                    for v in node.values[:-1]:
                        tests.append(v)
                for t in tests:
                    for a in atoms(t):
                        cls = R.res.expr_class(f, a)
                        if not cls:
                            continue
                        n += 1
                        bad = [c for c in cls if c.is_subclass_of(fb)]
                        R.check(not bad, rule, "%s:%s" % (f.qualname, q.src(a)), R.site(f, a),
                                "`%s` (%s) is not a future" % (q.src(a), ", ".join(sorted(c.name for c in cls))),
                                "`%s` is a %s and is tested for truth in `%s`: FutureBase refuses conversion to bool (TypeError in the compiled build); "
                                "write `is not None`" % (q.src(a), bad[0].name if bad else "?", q.src(t)[:60]))
    return n


def iterates_items(fn_node, it, field="self.items"):
    """Is `it` (a for-loop's iterable) the batch's item list, a copy of it, or a local built from it by a (possibly filtering)
    comprehension / append loop?"""
    if q.dotted(it) == field:
        return True
    if q.src(it) in ("list(%s)" % field, "%s[:]" % field, "tuple(%s)" % field, "reversed(%s)" % field, "%s[::-1]" % field,
                     "reversed(list(%s))" % field):
        return True
    if isinstance(it, ast.Name):
        vals = [v for k, v in assigned_values(fn_node, it.id) if k == "expr"]
        for v in vals:
            cmp_ = kit.as_comprehension(fn_node, v)
            if cmp_ is not None and q.src(cmp_[2]) == field:
                return True
            if q.src(v) in ("list(%s)" % field, "%s[:]" % field, "tuple(%s)" % field):
                return True
    return False


def _runs_user_hook(R, ro, fi, _seen=None, hooks=None):
    """Nodes of fi (a TaskScheduler method) at which a user hook of a batch can run: a direct call of a documented
    batch hook on some object, or a call of a sibling method that (transitively) contains one."""
    hooks = set(hooks or DOCUMENTED_HOOKS["batching.BatchBase"])
    seen = _seen if _seen is not None else set()
    seen.add(fi.qualname)
    out = []
    cfg = cfg_of(fi)
    by_name = dict((m.name, m) for m in ro.ts_methods())
    for n in cfg.nodes:
        for c in kit.node_calls(n):
            recv, attr = q.attr_call(c)
            if attr in hooks and recv is not None and q.src(recv) not in ("self", "stdout", "stderr", "sys.stdout", "sys.stderr"):
                out.append(n)
            elif attr in by_name and recv is not None and q.src(recv) == "self" and by_name[attr].qualname not in seen:
                if _runs_user_hook(R, ro, by_name[attr], seen, hooks):
                    out.append(n)
    return out


def pending_removal_tolerant(R, ro, rule):
    """A user hook that runs while the scheduler selects a batch (get_priority) may make a synchronous asynq call;
    that nested computation ends while the task stack is empty and wait_for() then replaces the pending-batch
    collection.  Taking the selected batch out of the collection afterwards must therefore tolerate its absence."""
    bf = ro.batches_field()
    n_sites = 0
    hier = ExcHierarchy(R.repo)
    for m in ro.ts_methods():
        cfg = cfg_of(m)
        sites = kit.call_sites(m, lambda c: q.attr_call(c)[1] in ("remove", "pop") and q.attr_call(c)[0] is not None and q.src(q.attr_call(c)[0]) == "self." + bf)
        if not sites:
            continue
        hook_nodes = _runs_user_hook(R, ro, m)
        for n, c in sites:
            n_sites += 1
            shielded = any(kit.handler_covers(h, "KeyError", hier) for t in kit.enclosing_try_handlers(c) for h in t.handlers)
            arg = q.src(c.args[0]) if c.args else None

            def member(nd):
                if nd.kind != "test":
                    return None
                k_, s_, pos_ = q.atom_test(nd.ast)
                if k_ == "in" and s_ == (arg, "self." + bf):
                    return "T" if pos_ else "F"
                return None
            after_hook = hook_nodes and cfg.find_path(hook_nodes, [n], N, include_source_check=False) is not None
            unguarded = after_hook and not shielded and kit.path_avoiding_guard(cfg, [n], member, N, sources=hook_nodes) is not None
            R.check(not unguarded, rule, "%s:%s" % (m.qualname, q.stmt_key(c)), R.site(m, c),
                    "self.%s.%s(...) is not reached after a user hook ran, or tolerates a missing element" % (bf, q.attr_call(c)[1]),
                    "self.%s.%s(%s) requires the element to be present although a user hook (get_priority) ran since it was known to be: a hook that makes a "
                    "synchronous asynq call ends a nested computation on the empty stack, wait_for() replaces self.%s, and KeyError escapes from the "
                    "computation (set.discard tolerates it)" % (bf, q.attr_call(c)[1], arg, bf))
    # ... and dropping what is pending replaces the collection: emptying the shared object in place (`.clear()`) pulls it from under a
    # selection loop that is in the middle of iterating it (the nested computation of a hook ends inside that loop)
    for m in ro.ts_methods():
        for n, c in kit.call_sites(m, lambda c: q.attr_call(c)[1] == "clear" and q.attr_call(c)[0] is not None and q.src(q.attr_call(c)[0]) == "self." + bf):
            R.violation(rule, "%s:clears-in-place" % m.qualname, R.site(m, c),
                        "%s empties self.%s in place: when it runs for a nested computation started by a get_priority() hook, the enclosing selection loop is "
                        "iterating that very set - RuntimeError 'set changed size during iteration' ends the computation and nothing is flushed (binding a new "
                        "set leaves the iterated one alone)" % (m.qualname, bf))
    discards = sum(len(kit.call_sites(m, lambda c: q.attr_call(c)[1] == "discard" and q.attr_call(c)[0] is not None and q.src(q.attr_call(c)[0]) == "self." + bf))
                   for m in ro.ts_methods())
    R.check(n_sites + discards >= 1, rule, "TaskScheduler:takes-selected-out", R.site(ro.flush_one_method()),
            "the selected batch is taken out of self.%s (%d tolerant, %d checked removals)" % (bf, discards, n_sites),
            "no removal from self.%s found: the selected batch stays pending" % bf)


# calls through which the scheduler runs user code that may make a synchronous asynq call: task bodies, value providers,
# flush bodies, context hooks
USER_CODE_RUNNERS = ("_compute", "_continue", "_pause_contexts", "_resume_contexts", "flush", "get_priority")


def pop_after_user_code(R, ro, rule):
    """User code that the scheduler runs can make a synchronous asynq call; when that call hits the stack limit the
    limit branch empties the task stack.  A pop that follows such a call must first look at the stack (is there
    an entry, is it still mine): otherwise 'pop from empty list' escapes instead of the RuntimeError being delivered."""
    sf = ro.stack_field()
    n_sites = 0
    for m in ro.ts_methods():
        cfg = cfg_of(m)
        pops = kit.call_sites(m, lambda c: q.attr_call(c)[1] == "pop" and q.attr_call(c)[0] is not None and q.src(q.attr_call(c)[0]) == "self." + sf)
        if not pops:
            continue
        runners = _runs_user_hook(R, ro, m, hooks=USER_CODE_RUNNERS)

        len_locals = set()
        for nm_ in set(t_.id for a_ in ast.walk(m.node) if isinstance(a_, ast.Assign) for t_ in a_.targets if isinstance(t_, ast.Name)):
            vals_ = assigned_values(m.node, nm_)
            if vals_ and all(k_ == "expr" and q.src(v_) == "len(self.%s)" % sf for k_, v_ in vals_):
                len_locals.add(nm_)

        def looked(nd, len_locals=len_locals):
            if nd.kind != "test":
                return None
            k_, s_, pos_ = q.atom_test(nd.ast)
            if k_ == "truth" and s_ == "self." + sf:
                return "T" if pos_ else "F"
            if k_ == "lt" and isinstance(s_, tuple) and (s_[1] == "len(self.%s)" % sf or s_[1] in len_locals):
                return "T" if pos_ else "F"         # something < len(stack)
            return None
        for n, c in pops:
            n_sites += 1
            src_ = [r for r in runners if r is not n]
            p = kit.path_avoiding_guard(cfg, [n], looked, N, sources=src_) if src_ and cfg.find_path(src_, [n], N, include_source_check=False) else None
            # (the search starts at the runner node itself: step off it first)
            R.check(p is None, rule, "%s:%s" % (m.qualname, q.stmt_key(c)), R.site(m, c),
                    "self.%s.pop() is reached from user code run by the scheduler only after looking at the stack" % sf,
                    "self.%s.pop() follows a call that runs user code (a value provider, a context hook) without looking at the stack again: a synchronous "
                    "asynq call made there that hits the stack limit empties the stack, and IndexError 'pop from empty list' escapes from the scheduler "
                    "instead of the RuntimeError reaching the awaiting task" % sf, cfg.fmt_path(p) if p else None)
    R.check(n_sites >= 2, rule, "TaskScheduler:pops", R.site(ro.drain_method()), "%d pops of the task stack examined" % n_sites, "fewer than two pops of the task stack found")


def call_with_context_rule(R, rule):
    """call_with_context(context, fn, ...) is `with context: fn(...)` for a task: the call of fn.asynq - which for an
    @async_proxy function, a patched function or a decorator built with make_async_decorator runs the function's synchronous
    part - happens inside the with-block, like the sequential reading says, not before the context is entered."""
    f = R.repo.fn("tools.call_with_context")
    ps = q.param_names(f.node)
    ctx, fn = ps[0], ps[1]
    withs = [w for w in ast.walk(f.node) if isinstance(w, ast.With) and any(q.src(i.context_expr) == ctx for i in w.items)]
    calls = [c for c in q.calls(f.node) if q.attr_call(c)[1] in ("asynq", "asyncio") and q.attr_call(c)[0] is not None and q.src(q.attr_call(c)[0]) == fn
             or q.call_name(c) == fn]
    inside = [c for c in calls if any(any(c is x for x in ast.walk(w)) for w in withs)]
    R.check(bool(withs) and bool(calls) and len(inside) == len(calls), rule, f.qualname, R.site(f, (calls or [f.node])[0]),
            "%s.asynq(...) is called inside `with %s:`" % (fn, ctx),
            "%s is called %s: the part of the function that runs at call time (an @async_proxy function choosing which task to return, a patched "
            "function, a decorator wrapper) does not see what the context establishes, although the sequential reading `with context: fn(...)` does"
            % (fn, "outside the `with %s:` block" % ctx if withs else "without entering the context at all"))


def scheduler_lookup_fresh(R, rule):
    """The scheduler belongs to the thread (and is replaced by scheduler.reset()): whoever needs it asks get_scheduler() at
    that moment.  A scheduler kept in a module global, a class attribute or an instance field is some other thread's - or a
    discarded - scheduler later on: its flush events, its stack and its active task are not the current computation's."""
    n = 0
    for f in R.repo.all_functions():
        if f.module.name.startswith("tests"):
            continue
        globs = set(nm for st in ast.walk(f.node) if isinstance(st, (ast.Global, ast.Nonlocal)) for nm in st.names)
        for c in q.calls(f.node):
            nm = q.call_name(c) or ""
            if nm.split(".")[-1] == "get_scheduler":
                n += 1
                st = q.enclosing_stmt(c)
                kept = None
                if isinstance(st, ast.Assign) and st.value is c:
                    for t in st.targets:
                        if isinstance(t, ast.Attribute):
                            kept = q.src(t)
                        elif isinstance(t, ast.Name) and t.id in globs:
                            kept = "the global " + t.id
                R.check(kept is None, rule, "%s:%s" % (f.qualname, q.stmt_key(c)[:40]), R.site(f, c),
                        "the scheduler obtained here is used on the spot", "the scheduler returned by get_scheduler() is kept in %s: later computations - on "
                        "another thread, or after scheduler.reset() - are run by that scheduler instead of the current one (its flush events fire, "
                        "the thread's own scheduler sees nothing)" % kept)
            recv, attr = q.attr_call(c)
            if attr == "wait_for" and recv is not None and q.src(recv) != "self":
                n += 1
                ok = isinstance(recv, ast.Call) and (q.call_name(recv) or "").split(".")[-1] == "get_scheduler"
                if isinstance(recv, ast.Name) and recv.id not in globs:
                    vals = assigned_values(f.node, recv.id)
                    ok = bool(vals) and all(k == "expr" and isinstance(v, ast.Call) and (q.call_name(v) or "").split(".")[-1] == "get_scheduler" for k, v in vals)
                R.check(ok, rule, "%s:%s" % (f.qualname, q.stmt_key(c)[:40]), R.site(f, c),
                        "wait_for() is called on the scheduler get_scheduler() returns at that moment",
                        "wait_for() is called on `%s`, which is not the result of a get_scheduler() call made here: a scheduler looked up earlier (cached in "
                        "a global, stored on the task when it was created) is another thread's or a discarded one" % q.src(recv))
    for mod in R.repo.modules.values():
        if mod.name.startswith("tests"):
            continue
        for st in mod.tree.body:
            if isinstance(st, ast.Assign) and isinstance(st.value, ast.Call) and (q.call_name(st.value) or "").split(".")[-1] == "get_scheduler":
                R.violation(rule, "%s:module-level" % mod.name, R.site(mod, st), "the module keeps the scheduler of the importing thread in `%s`" % q.src(st.targets[0]))
    R.check(n >= 2, rule, "lookups", "asynq/", "%d scheduler lookups / wait_for calls examined" % n, "fewer than two scheduler lookups found")


def safe_trigger_selects_failures(R, rule):
    """safe_trigger runs every handler, collects what each raised (None for success) and re-raises the first failure.  Which results
    are failures is decided by `is not None`: an exception object may be falsy (a class defining __len__ or __bool__), and picking
    by truth value - filter(None, ...), `if error:` - drops it; safe_trigger() then returns normally although a handler failed."""
    m = R.repo.fn("tools.AsyncEventHook.safe_trigger")
    bad = []
    for c in q.calls(m.node):
        if q.call_name(c) == "filter" and c.args and q.is_none(c.args[0]):
            bad.append(c)
    rer = [c for c in q.calls(m.node) if (q.call_name(c) or "").split(".")[-1] == "reraise"]
    for c in rer:
        arg = q.src(c.args[0]) if c.args else None
        for a in q.ancestors(c):
            if isinstance(a, ast.If):
                k_, s_, pos_ = q.atom_test(a.test)
                if k_ == "truth" and s_ == arg:
                    bad.append(a.test)
            if isinstance(a, (ast.ListComp, ast.GeneratorExp)):
                for g in a.generators:
                    for i in g.ifs:
                        k_, s_, pos_ = q.atom_test(i)
                        if k_ == "truth":
                            bad.append(i)
    R.check(not bad and bool(rer), rule, m.qualname + ":selects-failures", R.site(m, bad[0] if bad else None),
            "safe_trigger re-raises every collected failure that is not None",
            "safe_trigger picks the failures to re-raise by truth value (`%s`): a handler's exception whose class defines __len__ or __bool__ and is falsy is "
            "dropped - safe_trigger() returns normally although a handler failed" % (q.src(bad[0])[:50] if bad else "no reraise found"))


def classes_in_pos(test, v, m, _R=[None]):
    """Classes named by an isinstance(v, ...) atom (either polarity), resolved in m's module."""
    k_, s_, pos_ = q.atom_test(test)
    if k_ == "isinstance" and s_[0] == v:
        import re as _re
        out = []
        for nm in _re.findall(r"[A-Za-z_][A-Za-z_0-9.]*", s_[1]):
            r = _R[0].repo.resolve_dotted(m.module, nm)
            if r and r[0] == "class":
                out.append(r[1])
        return out
    return []


def dependency_elements_typed(R, ro, rule):
    """A task's dependency list holds futures of every kind (tasks, batch items, plain/lazy/constant futures).  What a loop or
    comprehension over it reads from an element is defined for every future - or the element has passed an isinstance() filter
    naming classes that all define it.  (The profiler's record asks tasks and batch items for to_str()/_total_time; a ConstFuture
    has neither: AttributeError when the awaiting task completes, with COLLECT_PERF_STATS on only.)"""
    fb = ro.FutureBase
    n = 0
    classes_in_pos.__defaults__[0][0] = R

    def defines(cls, attr):
        if cls.find_method(attr) is not None:
            return True
        return attr in cls.fields()
    for m in ro.AsyncTask.methods.values():
        for x in ast.walk(m.node):
            gens = []
            if isinstance(x, (ast.ListComp, ast.SetComp, ast.GeneratorExp, ast.DictComp)):
                gens = [(g.target, g.ifs, [x.elt] if not isinstance(x, ast.DictComp) else [x.key, x.value]) for g in x.generators]
            elif isinstance(x, ast.For):
                gens = [(x.target, [], x.body)]
            for tgt, ifs, bodies in gens:
                it = x.iter if isinstance(x, ast.For) else [g.iter for g in x.generators if g.target is tgt][0]
                if q.src(it) != "self._dependencies" or not isinstance(tgt, ast.Name):
                    continue
                v = tgt.id
                # classes the element is known to be an instance of (comprehension filter, or an enclosing `if isinstance(v, ...)`)
                def classes_in(test):
                    k_, s_, pos_ = q.atom_test(test)
                    if k_ == "isinstance" and s_[0] == v and pos_:
                        import re as _re
                        out = []
                        for nm in _re.findall(r"[A-Za-z_][A-Za-z_0-9.]*", s_[1]):
                            r = R.repo.resolve_dotted(m.module, nm)
                            if r and r[0] == "class":
                                out.append(r[1])
                        return out
                    return []
                known = [c for t in ifs for c in classes_in(t)]
                for b in bodies:
                    for a in ast.walk(b):
                        if isinstance(a, ast.Attribute) and isinstance(a.value, ast.Name) and a.value.id == v and isinstance(a.ctx, ast.Load):
                            guards = list(known)
                            for anc in q.ancestors(a):
                                if isinstance(anc, ast.If) and any(a is y for bb in anc.body for y in ast.walk(bb)):
                                    guards += classes_in(anc.test)
                                if anc is x:
                                    break
                            if not guards and isinstance(x, ast.For):
                                # guard-clause form: `if not isinstance(v, (A, B)): continue` earlier in the body - every path from
                                # the loop head to the read crosses the true edge of an isinstance test of the element
                                mcfg = cfg_of(m)
                                stx = q.enclosing_stmt(a)
                                rnodes = [y for y in mcfg.nodes if y.stmt is stx or y.ast is stx]
                                heads = [y for y in mcfg.nodes if y.ast is x and y.kind in ("loop", "for")]
                                starts_ = [e.dst for h_ in heads for e in mcfg.out_edges(h_.id, N) if e.label == "iter"]
                                for tnode in [y for y in mcfg.nodes if y.kind == "test" and classes_in_pos(y.ast, v, m)]:
                                    def g(nd, tnode=tnode):
                                        if nd is not tnode and getattr(nd, "id", None) != tnode.id:
                                            return None
                                        k_, s_, pos_ = q.atom_test(nd.ast)
                                        return "T" if pos_ else "F"
                                    if rnodes and starts_ and kit.path_avoiding_guard(mcfg, rnodes, g, N, sources=starts_) is None:
                                        guards += classes_in_pos(tnode.ast, v, m)
                            n += 1
                            ok = defines(fb, a.attr) if not guards else all(defines(c, a.attr) for c in guards)
                            R.check(ok, rule, "%s:%s.%s" % (m.qualname, v, a.attr), R.site(m, a),
                                    "`%s.%s` is defined for every element the loop can see" % (v, a.attr),
                                    "%s reads `%s.%s` from every element of self._dependencies, but a dependency can be any future (a ConstFuture, a lazy Future, an "
                                    "ErrorFuture) and %s does not define it: AttributeError when the task completes - under the profiling option only, so a "
                                    "computation that succeeds without the option fails with it" % (m.qualname, v, a.attr, "FutureBase" if not guards else "/".join(c.name for c in guards)))
    R.check(n >= 1, rule, "dependency-element-reads", "asynq/async_task.py", "%d reads from dependency elements examined" % n, "no read from dependency elements found")


def caught_exception_attributes(R, rule):
    """What a handler reads from a caught exception of a class the package defines (`exc.result` of AsyncTaskResult) is an attribute
    that class's constructor sets: when the payload attribute is renamed, a reader that was not updated raises AttributeError instead
    of delivering the result - in the one code path it sits on."""
    n = 0
    for f in R.repo.all_functions():
        if f.module.name.startswith("tests"):
            continue
        for h in [x for x in ast.walk(f.node) if isinstance(x, ast.ExceptHandler) and x.name and x.type is not None]:
            tys = [h.type] if not isinstance(h.type, ast.Tuple) else list(h.type.elts)
            classes = []
            for t in tys:
                d = q.dotted(t)
                r = R.repo.resolve_dotted(f.module, d) if d else None
                if r and r[0] == "class":
                    classes.append(r[1])
            if not classes or len(classes) != len(tys):
                continue        # (a builtin among the caught classes: its own attributes are fine)
            for a in [x for b in h.body for x in ast.walk(b) if isinstance(x, ast.Attribute) and isinstance(x.value, ast.Name) and x.value.id == h.name and isinstance(x.ctx, ast.Load)]:
                if a.attr.startswith("__") or a.attr in ("args", "with_traceback", "add_note"):
                    continue
                n += 1
                ok = all(a.attr in c.fields() or c.find_method(a.attr) is not None or any(recv == "self" and attr == a.attr for m in c.methods.values() for recv, attr, nd in q.attr_stores(m.node))
                         for c in classes)
                R.check(ok, rule, "%s:%s.%s" % (f.qualname, h.name, a.attr), R.site(f, a),
                        "`%s.%s` is set by the constructor of %s" % (h.name, a.attr, "/".join(c.name for c in classes)),
                        "%s reads `%s.%s` from a caught %s, whose constructor sets no such attribute: AttributeError instead of the result on this path only (a "
                        "renamed payload attribute with one stale reader)" % (f.qualname, h.name, a.attr, "/".join(c.name for c in classes)))
    R.check(n >= 2, rule, "caught-exception-attributes", "asynq/", "%d attribute reads from caught package exceptions examined" % n, "fewer than two such reads found")


def stamp_trusted(R, rule, fi, target_nodes, err, want_type, what):
    """The bookkeeping attributes _type_ / _traceback are asynq's (qcore's) stamp only when they hold what prepare_for_reraise() puts
    there.  A consumer that hands them on - generator.throw(type, value, tb), qcore's reraise(), which does
    `raise error.with_traceback(error._traceback)` whenever `_type_` exists - is reached only when the traceback was tested to be None or a
    traceback object (or, for reraise(), when `_type_` is absent), and, for the three-argument throw, `_type_` to be a class.  An
    exception class that uses the names itself (a discriminator, remote traceback text) is delivered as it is; otherwise the consumer
    raises TypeError / AttributeError *instead of* the error, while error() reports the real one."""
    cfg = cfg_of(fi)
    # locals holding the error's _traceback / _type_
    holders = {"_traceback": set([err + "._traceback"]), "_type_": set([err + "._type_"])}
    for n in q.scope_nodes(fi.node):
        if isinstance(n, ast.Assign) and len(n.targets) == 1 and isinstance(n.targets[0], ast.Name):
            v = q.src(n.value).replace('"', "'")
            for a in ("_traceback", "_type_"):
                if v == "%s.%s" % (err, a) or v.startswith("getattr(%s, '%s'" % (err, a)):
                    holders[a].add(n.targets[0].id)

    def tb_ok(nd):
        if nd.kind != "test":
            return None
        k, s_, pos = q.atom_test(nd.ast)
        if k == "isnone" and s_ in holders["_traceback"]:
            return "T" if pos else "F"
        if k == "isinstance" and isinstance(s_, tuple) and s_[0] in holders["_traceback"] and "TracebackType" in str(s_[1]):
            return "T" if pos else "F"
        if not want_type and k == "call" and s_ == "hasattr" and q.src(nd.ast if not isinstance(nd.ast, ast.UnaryOp) else nd.ast.operand).replace('"', "'") \
                == "hasattr(%s, '_type_')" % err:
            return "F" if pos else "T"
        return None

    def type_ok(nd):
        if nd.kind != "test":
            return None
        k, s_, pos = q.atom_test(nd.ast)
        if k == "isinstance" and isinstance(s_, tuple) and s_[0] in holders["_type_"] and s_[1] == "type":
            return "T" if pos else "F"
        return None
    p1 = kit.path_avoiding_guard(cfg, target_nodes, tb_ok, N, dead_ok=True)
    R.check(p1 is None, rule, "%s:stamp-trusted:traceback" % fi.qualname, R.site(fi, target_nodes[0].ast if target_nodes[0].ast is not None else None),
            "%s is reached only when the error's _traceback is None or a traceback object%s" % (what, "" if want_type else " (or it has no _type_)"),
            "%s trusts any _type_/_traceback attributes found on the error: an exception class that has such attributes of its own (a wire-format "
            "discriminator, the text of a remote traceback) is not delivered - TypeError ('__traceback__ must be a traceback or None') or "
            "AttributeError is raised in its place, while error() reports the real error" % what, cfg.fmt_path(p1) if p1 else None)
    if want_type:
        p2 = kit.path_avoiding_guard(cfg, target_nodes, type_ok, N, dead_ok=True)
        R.check(p2 is None, rule, "%s:stamp-trusted:type" % fi.qualname, R.site(fi, target_nodes[0].ast if target_nodes[0].ast is not None else None),
                "%s is reached only when the error's _type_ is a class" % what,
                "%s passes on whatever the error has under _type_: for an exception class with a _type_ attribute of its own (a string) "
                "generator.throw raises TypeError and the awaiting task fails with that instead of the error" % what, cfg.fmt_path(p2) if p2 else None)
