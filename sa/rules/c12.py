"""C12 - deduplicate: one in-flight execution per key, shared by all callers."""
import ast

from ..cfg import cfg_of, N, X
from ..roles import Roles
from .. import q, kit
from . import common

EXPLANATION = (
    "Flow, pairing and guard rules over tools.DeduplicateDecorator: the key is the tuple (key getter on "
    "the call's (args, kwargs), the calling thread evaluated at call time, the identity of the wrapped "
    "function); the in-flight table is written only on the miss path, with the task that is returned, "
    "and a callback removing that very key is subscribed to that task's completion before it is "
    "returned; the hit path returns the stored task unless it is currently running, in which case a "
    "fresh task is returned without touching the table; dirty() pops the key built by the same "
    "function; the default key normalises arguments over the wrapped function's full argspec; task "
    "completion always notifies subscribers (otherwise finished tasks stay in the table)."
)


def dedup_key_rule(R, prefix):
    dd = R.repo.cls("tools.DeduplicateDecorator")
    ck = dd.methods.get("cache_key")
    R.need(ck is not None, "anchor vanished: DeduplicateDecorator.cache_key")
    rets = [n.value for n in q.scope_nodes(ck.node) if isinstance(n, ast.Return)]
    site = R.site(ck)
    R.need(len(rets) == 1, "idiom: cache_key has %d return statements" % len(rets))
    v = rets[0]
    elts = list(v.elts) if isinstance(v, ast.Tuple) else None
    if elts is not None:
        # a component may have been put into a local first
        for i, e in enumerate(elts):
            if isinstance(e, ast.Name):
                vals = common.assigned_values(ck.node, e.id)
                if len(vals) == 1 and vals[0][0] == "expr":
                    elts[i] = vals[0][1]
    params = q.param_names(ck.node)[1:3]
    has_args = elts is not None and any(isinstance(e, ast.Call) and q.call_name(e) == "self.keygetter" and [q.src(a) for a in e.args] == params for e in elts)
    # the Thread object, not its ident: the operating system hands the ident of a finished thread to a new one, which would then
    # find the dead thread's unfinished tasks under its own key
    has_thread = elts is not None and any(isinstance(e, ast.Call) and q.call_name(e) in ("threading.current_thread", "current_thread") and not e.args for e in elts)
    has_fn = elts is not None and any(q.src(e) in ("id(self.fn)", "self.fn", "id(self)", "self") for e in elts)
    R.check(has_args, prefix, ck.qualname + ":args", site, "the key contains the key getter's result for this call's (args, kwargs)",
            "the key does not contain keygetter(%s)" % ", ".join(params))
    R.check(has_thread, prefix, ck.qualname + ":thread", site,
            "the key contains the calling thread, evaluated when the key is built",
            "the key has no component that identifies the calling thread for as long as the entry lives (`%s`; threading.current_thread() evaluated "
            "at call time - an ident is reused after the thread exits, a value captured earlier belongs to another thread): calls from another "
            "thread get this thread's in-flight task, which is then run on the wrong scheduler" % q.src(v)[:80])
    R.check(has_fn, prefix, ck.qualname + ":function", site,
            "the key contains the identity of the wrapped function (id(self.fn))",
            "the key identifies the function by something other than its identity (`%s`): different functions with equal names share tasks" % q.src(v)[:80])
    return ck


def running_on_every_step(R, ro, rule):
    """self.running is set before the generator is entered on *every* path - send() and throw() alike: a task that is handling
    an exception thrown in at its yield is executing just as much as one that was sent a value (a re-entrant same-key call from
    its handler must get a fresh task; the scheduler must not treat it as suspended)."""
    step = ro.generator_step_fn()
    scfg = cfg_of(step)
    on = [n for n in kit.store_nodes(step, "running") if isinstance(n.ast, ast.Assign) and q.const_value(n.ast.value) is True]
    for n, c in ro.step_sites(step):
        p = scfg.find_path([scfg.entry], [n], N, cut_nodes=on)
        R.check(p is None and on, rule, "%s:%s" % (step.qualname, q.stmt_key(c)[:40]), R.site(step, c),
                "self.running is set before %s" % q.src(c)[:40],
                "`%s` is reached without self.running being set: while the task handles what was thrown into it, it looks idle - a same-key "
                "deduplicated call from that handler is handed the executing task (ValueError: generator already executing)" % q.src(c)[:40],
                scfg.fmt_path(p) if p else None)


def forwards_full(call):
    return any(isinstance(a, ast.Starred) and q.src(a.value) == "args" for a in call.args) and any(k.arg is None and q.src(k.value) == "kwargs" for k in call.keywords)


def run(R):
    R.extra["explanation"] = EXPLANATION
    ro = Roles(R)
    repo = R.repo
    ck = dedup_key_rule(R, "C12.KEY")
    dd = repo.cls("tools.DeduplicateDecorator")
    asy = dd.methods.get("asynq")
    R.need(asy is not None, "anchor vanished: DeduplicateDecorator.asynq")
    cfg = cfg_of(asy)
    site = R.site(asy)
    # key variable
    kv = [(t, n) for n in q.scope_nodes(asy.node) if isinstance(n, ast.Assign) and isinstance(n.value, ast.Call) and q.call_name(n.value) == "self.cache_key"
          and [q.src(a) for a in n.value.args] == ["args", "kwargs"] for t in n.targets if isinstance(t, ast.Name)]
    R.need(len(kv) == 1, "idiom: DeduplicateDecorator.asynq does not compute one key from (args, kwargs)")
    key = kv[0][0].id
    R.ok("C12.KEY", site, "asynq() builds its key with self.cache_key(args, kwargs)")
    # every call outside asyncio mode is keyed: no way round the table (a call made by plain synchronous code creates a task that
    # later calls - made while it is still in flight - must find)
    knodes = [n for n in cfg.nodes if n.kind == "stmt" and n.ast is kv[0][1]]

    def not_asyncio(e):
        nd = cfg.nodes[e.src]
        if nd.kind != "test":
            return True
        k_, s_, pos_ = q.atom_test(nd.ast)
        return not (k_ == "call" and s_ == "is_asyncio_mode" and e.label == ("T" if pos_ else "F"))
    pk = cfg.find_path([cfg.entry], [cfg.exit], N, cut_nodes=knodes, keep_edge=not_asyncio)
    # ... and looks the key up in the table (whatever the key is: (), 0 and '' are keys like any other)
    lookups = [n for n in cfg.nodes if n.kind in ("stmt", "test") and any(
        (isinstance(x, ast.Subscript) and isinstance(x.ctx, ast.Load) and q.src(x.value) == "self.tasks") or
        (isinstance(x, ast.Call) and q.call_name(x) in ("self.tasks.get", "self.tasks.__getitem__")) or
        (isinstance(x, ast.Compare) and any(isinstance(o, (ast.In, ast.NotIn)) for o in x.ops) and any(q.src(cm) == "self.tasks" for cm in x.comparators))
        for e_ in kit.node_exprs(n) for x in ast.walk(e_))]
    pl = cfg.find_path([cfg.entry], [cfg.exit], N, cut_nodes=lookups, keep_edge=not_asyncio)
    R.check(pl is None and bool(lookups), "C12.KEY", asy.qualname + ":always-looked-up", site,
            "outside asyncio mode every call looks its key up in the table of tasks in flight",
            "asynq() can return without looking the key up in self.tasks (e.g. for a key that is falsy: the default key of a function without parameters is "
            "(), a keygetter may return 0 or ''): such calls never share the task in flight, the body runs once per call", cfg.fmt_path(pl) if pl else None)
    R.check(pk is None, "C12.KEY", asy.qualname + ":always-keyed", site,
            "outside asyncio mode every call computes its key (and so goes through the table of tasks in flight)",
            "asynq() can return without computing the key: such a call (e.g. one made while no task is active) gets a task of its own and registers "
            "nothing - same-key calls made while it is in flight run the body again and see different values", cfg.fmt_path(pk) if pk else None)
    stores = [n for n in cfg.nodes if n.kind == "stmt" and isinstance(n.ast, ast.Assign) and isinstance(n.ast.targets[0], ast.Subscript)
              and q.src(n.ast.targets[0].value) == "self.tasks"]
    R.need(stores, "idiom: asynq() never stores into self.tasks")
    # miss edges: entry into a KeyError handler, `x is None` true edge for the looked-up variable, `key not in self.tasks`
    looked = set()
    for n in q.scope_nodes(asy.node):
        if isinstance(n, ast.Assign) and isinstance(n.value, (ast.Subscript, ast.Call)) and "self.tasks" in q.src(n.value):
            for t in n.targets:
                if isinstance(t, ast.Name):
                    looked.add(t.id)
    R.need(looked, "idiom: asynq() does not look the key up in self.tasks")

    def is_miss_edge(e):
        dst = cfg.nodes[e.dst]
        src = cfg.nodes[e.src]
        if dst.kind == "except" and e.label == "exc":
            from ..cfg import handler_type_names
            nm = handler_type_names(dst.ast)
            return nm is not None and "KeyError" in nm
        if src.kind == "test":
            k, s, pos = q.atom_test(src.ast)
            if k == "isnone" and s in looked:
                return e.label == ("T" if pos else "F")
            if k == "in" and s == (key, "self.tasks"):
                return e.label == ("F" if pos else "T")
        return False

    for st in stores:
        p = cfg.find_path([cfg.entry], [st], N, keep_edge=lambda e: not is_miss_edge(e))
        R.check(p is None, "C12.MISS-ONLY", asy.qualname + ":" + q.stmt_key(st.ast), R.site(asy, st.ast),
                "the in-flight table is written only when the key was not found",
                "the in-flight table can be overwritten although an in-flight task exists for the key (e.g. on the re-entrant `task.running` path): "
                "the outer task is lost from the table, later callers get a different task and its completion removes the key early",
                cfg.fmt_path(p) if p else None)
        R.check(q.src(st.ast.targets[0].slice) == key, "C12.PAIR", asy.qualname + ":store-key", R.site(asy, st.ast),
                "the task is stored under the call's key", "the task is stored under a different key than the one looked up")
        tv = st.ast.value
        R.need(isinstance(tv, ast.Name), "idiom: the stored task is not a plain name")
        # created by self.fn.asynq(*args, **kwargs)
        cr = [v for k, v in common.assigned_values(asy.node, tv.id) if k == "expr" and isinstance(v, ast.Call) and q.call_name(v) == "self.fn.asynq"]
        R.check(bool(cr) and all([q.src(a) for a in c.args] == ["*args"] and any(kk.arg is None for kk in c.keywords) for c in cr), "C12.PAIR", asy.qualname + ":creates", R.site(asy, st.ast),
                "the stored task is self.fn.asynq(*args, **kwargs)", "the stored task is not created by self.fn.asynq(*args, **kwargs)")
        # subscription of a callback removing that key, after the store... on every path to a return of that task
        subs = [n for n, c in kit.call_sites(asy, lambda c: q.call_name(c) == "%s.on_computed.subscribe" % tv.id)]
        starts = [e.dst for e in cfg.out_edges(st.id, N)]
        p = cfg.find_path(starts, [cfg.exit], N, cut_nodes=subs)
        p0 = cfg.find_path([cfg.entry], [st], N, cut_nodes=subs)
        R.check((p is None or p0 is None) and subs, "C12.PAIR", asy.qualname + ":subscribe", R.site(asy, st.ast),
                "whenever a task is put into the table a completion callback is subscribed to it",
                "a task can be put into the table without a completion callback: it stays there after it completes, every later call gets the finished task",
                cfg.fmt_path(p) if p else None)
        cbs = []
        # locals that are just another name for the table (the in-flight dict is a class attribute nothing rebinds)
        table_names = set(["self.tasks"]) | set(t_.id for n_ in q.scope_nodes(asy.node) if isinstance(n_, ast.Assign) and q.src(n_.value) == "self.tasks"
                                                for t_ in n_.targets if isinstance(t_, ast.Name))
        pop_names = tuple(x + ".pop" for x in table_names)
        for n, c in kit.call_sites(asy, lambda c: q.call_name(c) == "%s.on_computed.subscribe" % tv.id):
            if c.args and isinstance(c.args[0], ast.Name):
                cbs.append(c.args[0].id)
        # the key names the function by id(self.fn): it identifies the function only while the function is alive.  The entry lives
        # until its task completes, so for that long something reachable from the entry must hold the decorator (and with it the
        # function): the completion callback, which the task holds, refers to self.  A callback that captures only the table lets a
        # dynamically created function be collected while its call is in flight; the next function created at that address (same
        # id, equal arguments, same thread) is handed the dead function's task
        for n, c in kit.call_sites(asy, lambda c: q.call_name(c) == "%s.on_computed.subscribe" % tv.id):
            if not c.args:
                continue
            cb = c.args[0]
            if isinstance(cb, ast.Name):
                cbf_ = [f for f in asy.nested.values() if f.node.name == cb.id]
                names = set(x.id for f in cbf_ for x in ast.walk(f.node) if isinstance(x, ast.Name)) if cbf_ else set(["self"])
            elif isinstance(cb, ast.Attribute) and q.src(cb.value) == "self":
                names = set(["self"])       # a bound method
            else:
                names = set(x.id for x in ast.walk(cb) if isinstance(x, ast.Name))
            stored_self = "self" in set(x.id for x in ast.walk(st.ast.value) if isinstance(x, ast.Name))
            R.check("self" in names or stored_self, "C12.KEY-ALIVE", asy.qualname + ":callback-holds-self", R.site(asy, c),
                    "the in-flight entry keeps the decorator (and the function whose id() is in the key) alive until the task completes",
                    "neither the stored value nor the completion callback (`%s`) refers to self: nothing keeps the function alive while its call is in flight, "
                    "although the key contains id(self.fn) - after the function is collected a new function at the same address gets its pending task"
                    % q.src(cb)[:60])
        for n, c in kit.call_sites(asy, lambda c: q.call_name(c) == "%s.on_computed.subscribe" % tv.id):
            if c.args and not isinstance(c.args[0], ast.Name):
                body = c.args[0].body if isinstance(c.args[0], ast.Lambda) else None
                okl = body is not None and isinstance(body, ast.Call) and q.call_name(body) in pop_names and body.args and q.src(body.args[0]) == key and len(body.args) == 2
                has_is = any(isinstance(x, ast.Compare) and len(x.ops) == 1 and isinstance(x.ops[0], ast.Is) for x in ast.walk(c.args[0]))
                R.check(has_is, "C12.PAIR", asy.qualname + ":callback-own", R.site(asy, c),
                        "the completion callback removes the key only while the table still holds this very task under it",
                        "the completion callback (`%s`) removes whatever is stored under the key: after dirty() and a new call, the completion of the older task "
                        "removes the newer, still running task's entry" % q.src(c.args[0])[:70])
                if has_is:
                    continue
                R.check(okl, "C12.PAIR", asy.qualname + ":callback", R.site(asy, c),
                        "the completion callback removes exactly the key the task was stored under",
                        "the completion callback (`%s`) does not remove the key the task was stored under (a key recomputed when the task completes - on "
                        "another thread, or from arguments the body changed - need not be the stored one: the finished task stays in the table)" % q.src(c.args[0])[:70])
        for cbn in cbs:
            cbf = [f for f in asy.nested.values() if f.node.name == cbn]
            R.need(cbf, "idiom: completion callback %s is not a local function" % cbn)
            pops = [c for c in q.calls(cbf[0].node) if q.call_name(c) in pop_names and c.args and q.src(c.args[0]) == key]
            dels = [n for n in ast.walk(cbf[0].node) if isinstance(n, ast.Delete) and q.src(n.targets[0]) in tuple("%s[%s]" % (x, key) for x in table_names)]
            R.check(bool(pops or dels), "C12.PAIR", asy.qualname + ":callback", R.site(cbf[0]),
                    "the completion callback removes exactly the key the task was stored under",
                    "the completion callback does not remove the key the task was stored under")
            if pops:
                R.check(len(pops[0].args) == 2, "C12.PAIR", asy.qualname + ":callback-tolerant", R.site(cbf[0]),
                        "the removal tolerates a key that dirty() already removed", "the removal raises KeyError after dirty()")
            # the callback removes the entry only if it still is this task's: after dirty() the key may have been given to a newer task
            # that is in flight - removing that entry lets the next caller start a third execution next to it
            ccfg = cfg_of(cbf[0])
            cparams = q.param_names(cbf[0].node)
            me = set(cparams[:1]) | set([tv.id])
            rm_nodes = [x for x in ccfg.nodes if any(c_ in pops for c_ in kit.node_calls(x)) or (x.kind == "stmt" and x.ast in dels)]

            def own_entry(nd):
                if nd.kind != "test":
                    return None
                k_, s_, pos_ = q.atom_test(nd.ast)
                if k_ == "is" and isinstance(s_, tuple) and any(x in me for x in s_) and any(any(t_ in x for t_ in table_names) and key in x for x in s_):
                    return "T" if pos_ else "F"
                return None
            po = kit.path_avoiding_guard(ccfg, rm_nodes, own_entry, N) if rm_nodes else ["no removal"]
            R.check(po is None, "C12.PAIR", asy.qualname + ":callback-own", R.site(cbf[0]),
                    "the completion callback removes the key only while the table still holds this very task under it",
                    "the completion callback removes whatever is stored under the key: after dirty() and a new call, the completion of the older task removes "
                    "the newer, still running task's entry - the next caller is not handed the in-flight task and the body runs a third time",
                    ccfg.fmt_path(po) if isinstance(po, list) and po and not isinstance(po[0], str) else None)
    # HIT: returns the stored task unless running; the running path returns a fresh task
    rets = [n for n in cfg.nodes if n.kind == "stmt" and isinstance(n.ast, ast.Return) and n.ast.value is not None]

    def running_read(e):
        """`task.running` or `getattr(task, "running", False)` for a looked-up task -> 'attr' / 'getattr'"""
        if isinstance(e, ast.Attribute) and e.attr == "running" and isinstance(e.value, ast.Name) and e.value.id in looked:
            return "attr"
        if isinstance(e, ast.Call) and q.call_name(e) == "getattr" and len(e.args) == 3 and isinstance(e.args[0], ast.Name) and e.args[0].id in looked \
                and isinstance(e.args[1], ast.Constant) and e.args[1].value == "running" and isinstance(e.args[2], ast.Constant) and e.args[2].value is False:
            return "getattr"
        return None

    # (the flag may be read into a local first: `is_executing = task.running`)
    run_locals = set()
    for nm_ in set(t_.id for a_ in ast.walk(asy.node) if isinstance(a_, ast.Assign) for t_ in a_.targets if isinstance(t_, ast.Name)):
        vals_ = common.assigned_values(asy.node, nm_)
        if vals_ and all(k_ == "expr" and running_read(v_) for k_, v_ in vals_):
            run_locals.add(nm_)

    def running(nd, want):
        if nd.kind != "test":
            return None
        k, s, pos = q.atom_test(nd.ast)
        if k == "truth" and isinstance(s, str) and ((s.endswith(".running") and s.split(".")[0] in looked) or s in run_locals):
            return ("T" if pos else "F") if want else ("F" if pos else "T")
        e_, pos_ = nd.ast, True
        while isinstance(e_, ast.UnaryOp) and isinstance(e_.op, ast.Not):
            e_, pos_ = e_.operand, not pos_
        if running_read(e_) == "getattr":
            return ("T" if pos_ else "F") if want else ("F" if pos_ else "T")
        return None
    rtests = [n for n in cfg.nodes if running(n, True) is not None]
    R.check(bool(rtests), "C12.HIT", asy.qualname + ":running-test", site,
            "the hit path tests whether the stored task is currently running (synchronous self-recursion)",
            "the hit path no longer distinguishes a task that is currently running")
    # what the table holds is whatever the wrapped function's .asynq() returned: a task for an @asynq() function, but any future for an
    # @async_proxy() one (deduplicate() takes both: it only needs .asynq and task_cls).  `running` is a field of AsyncTask alone
    direct = [x for x in ast.walk(asy.node) if running_read(x) == "attr"]
    declared = "running" in R.repo.cls("futures.FutureBase").fields()
    R.check(not direct or declared, "C12.HIT", asy.qualname + ":any-future", R.site(asy, direct[0]) if direct else site,
            "the running flag of a stored entry is read in a way that is defined for every future (getattr with a False default)",
            "the hit path reads `%s` from the stored entry, but the entry is whatever the wrapped function returned: for an @async_proxy() function a batch item "
            "or another plain future, which has no such field - the second call with a key that is still in flight raises AttributeError instead of joining it"
            % (q.src(direct[0]) if direct else ""))
    # ... and a future that is complete when it is handed out is not registered: its on_computed is not raised any more, so the entry
    # would never be removed and "once it completes, the next call runs the body again" fails for good
    made = set()
    for st_ in stores:
        if isinstance(st_.ast.value, ast.Name):
            made.add(st_.ast.value.id)

    def incomplete(nd):
        if nd.kind != "test":
            return None
        e_, pos_ = nd.ast, True
        while isinstance(e_, ast.UnaryOp) and isinstance(e_.op, ast.Not):
            e_, pos_ = e_.operand, not pos_
        if isinstance(e_, ast.Call) and isinstance(e_.func, ast.Attribute) and e_.func.attr == "is_computed" and isinstance(e_.func.value, ast.Name) and e_.func.value.id in made:
            return "F" if pos_ else "T"
        return None
    pc_ = kit.path_avoiding_guard(cfg, stores, incomplete, N) if stores else None
    R.check(pc_ is None, "C12.HIT", asy.qualname + ":complete-not-registered", R.site(asy, stores[0].ast) if stores else site,
            "an entry is stored only for a future that is not complete yet",
            "a future that is complete when the wrapped function hands it out (an @async_proxy() function answering from a local cache with a ConstFuture) is stored in "
            "the in-flight table; the clean-up subscribes to an on_computed that is not raised any more, so the entry stays for ever: every later call with that key "
            "gets the stale future (or fails on it) and the body never runs again", cfg.fmt_path(pc_) if pc_ else None)
    for t in rtests:
        # not running -> returns the looked-up task
        starts = [e.dst for e in cfg.out_edges(t.id, N) if e.label == running(t, False)]
        hit_rets = [n for n in rets if isinstance(n.ast.value, ast.Name) and n.ast.value.id in looked]
        p = cfg.find_path(starts, [cfg.exit], N, cut_nodes=hit_rets)
        R.check(p is None and hit_rets, "C12.HIT", asy.qualname + ":shares", R.site(asy, t.ast),
                "a stored task that is not running is returned to the caller (shared)",
                "a stored, not running task is not returned on every path: the body runs again for the same key", cfg.fmt_path(p) if p else None)
        # running -> a fresh task built from the caller's arguments is returned (never None, never the running one)
        starts_r = [e.dst for e in cfg.out_edges(t.id, N) if e.label == running(t, True)]
        fresh_rets = [n for n in rets if isinstance(n.ast.value, ast.Call) and q.src(n.ast.value.func).endswith("fn.asynq") and forwards_full(n.ast.value)]
        fresh_vars = set(tt.id for n in cfg.nodes if n.kind == "stmt" and isinstance(n.ast, ast.Assign) and isinstance(n.ast.value, ast.Call)
                         and q.src(n.ast.value.func).endswith("fn.asynq") and forwards_full(n.ast.value) for tt in n.ast.targets if isinstance(tt, ast.Name))
        # ... directly, or through a local that was (re)bound to the fresh task and is what the next return hands out
        fresh_asg = []
        for n in cfg.nodes:
            if n.kind == "stmt" and isinstance(n.ast, ast.Assign) and len(n.ast.targets) == 1 and isinstance(n.ast.targets[0], ast.Name) \
                    and isinstance(n.ast.value, ast.Call) and q.src(n.ast.value.func).endswith("fn.asynq") and forwards_full(n.ast.value):
                v = n.ast.targets[0].id
                other = [r for r in rets if not (isinstance(r.ast.value, ast.Name) and r.ast.value.id == v)]
                rebind = [x for x in cfg.nodes if x is not n and x.kind == "stmt" and isinstance(x.ast, ast.Assign) and any(q.src(tt) == v for tt in x.ast.targets)]
                if cfg.find_path([e.dst for e in cfg.out_edges(n.id, N)], other + rebind, N) is None:
                    fresh_asg.append(n)
        p = cfg.find_path(starts_r, [cfg.exit], N, cut_nodes=fresh_rets + fresh_asg)
        R.check(p is None, "C12.HIT", asy.qualname + ":running-fresh", R.site(asy, t.ast),
                "for a stored task that is running, a fresh task for the same arguments is returned",
                "when the stored task is running the caller does not get a fresh task for its arguments on every path", cfg.fmt_path(p) if p else None)
    # asyncio mode bypass keeps arguments
    # DIRTY
    di = dd.methods.get("dirty")
    R.need(di is not None, "anchor vanished: DeduplicateDecorator.dirty")
    dk = [n for n in q.scope_nodes(di.node) if isinstance(n, ast.Assign) and isinstance(n.value, ast.Call) and q.call_name(n.value) == "self.cache_key"
          and [q.src(a) for a in n.value.args] == ["args", "kwargs"]]
    pops = [c for c in q.calls(di.node) if q.call_name(c) == "self.tasks.pop"]
    okd = len(dk) == 1 and len(pops) == 1 and isinstance(dk[0].targets[0], ast.Name) and q.src(pops[0].args[0]) == dk[0].targets[0].id and len(pops[0].args) == 2
    dcfg_ = cfg_of(di)
    pop_nodes = [n for n, c in kit.call_sites(di, lambda c: q.call_name(c) == "self.tasks.pop")]
    others = [x for x in q.scope_nodes(di.node) if (isinstance(x, ast.Delete) and any("self.tasks" in q.src(t) for t in x.targets))
              or (isinstance(x, ast.Call) and q.call_name(x) in ("self.tasks.clear", "self.tasks.popitem"))]
    pskip = dcfg_.find_path([dcfg_.entry], [dcfg_.exit], N, cut_nodes=pop_nodes) if pop_nodes else None
    R.check(not others and pskip is None, "C12.DIRTY", di.qualname + ":only-its-key", R.site(di, others[0] if others else None),
            "dirty() removes the entry of its own key on every path and no other entry",
            "dirty() %s: calls with other keys that are still in flight lose their entries - the next caller with such a key gets a second task and the body "
            "runs again while the first is still running" % ("removes other entries of the table (`%s`)" % q.src(others[0])[:50] if others else "can return without removing its key"))
    R.check(okd, "C12.DIRTY", di.qualname, R.site(di), "dirty() pops the key built by self.cache_key(args, kwargs), tolerating absence",
            "dirty() does not remove the key that asynq() would build for the same arguments")
    # table is shared by design (class attribute) and thread-keyed: C16 decides the thread component
    from .c13 import argcover_rule
    argcover_rule(R, "C12", only=("deduplicate",))
    # decorator wiring: deduplicate() hands the key getter and the task class to DeduplicateDecorator
    de = repo.fn("tools.deduplicate.decorator")
    dc = [c for c in q.calls(de.node) if q.call_name(c) == "decorate"]
    okw = len(dc) == 1 and [q.src(a) for a in dc[0].args] == ["DeduplicateDecorator", "fun.task_cls", "_keygetter"]
    R.check(okw, "C12.WIRING", de.qualname, R.site(de), "deduplicate() builds DeduplicateDecorator(fun, fun.task_cls, key getter)", "deduplicate() no longer wires DeduplicateDecorator with the key getter")
    kvals = common.assigned_values(de.node, "_keygetter")
    R.check(any(k == "expr" and q.src(v) == "keygetter" for k, v in kvals), "C12.WIRING", de.qualname + ":custom", R.site(de),
            "a custom keygetter is used when given", "a custom keygetter is ignored")
    decfg = cfg_of(de)
    dflt = [n for n in decfg.nodes if n.kind == "stmt" and isinstance(n.ast, ast.Assign) and any(q.src(t) == "_keygetter" for t in n.ast.targets)
            and q.src(n.ast.value) != "keygetter"]

    def none_key(nd):
        if nd.kind != "test":
            return None
        k, s, pos = q.atom_test(nd.ast)
        if k == "isnone" and s in ("_keygetter", "keygetter"):
            return "T" if pos else "F"
        return None
    if dflt:
        p = kit.path_avoiding_guard(decfg, dflt, none_key, N)
        R.check(p is None, "C12.WIRING", de.qualname + ":custom-kept", R.site(de), "the default key function replaces the key getter only when none was given",
                "a custom keygetter can be overwritten by the default key function", decfg.fmt_path(p) if p else None)
    # every default key function is a function of the call's arguments: it hands its own (args, kwargs) to _args_key.  A shortcut that
    # returns a constant for "functions without parameters" forgets *args/**kwargs-only signatures: calls with different arguments
    # get one key and share a task
    for k_, v_ in kvals:
        if k_ != "expr" or q.src(v_) == "keygetter":
            continue
        fn_ = v_ if isinstance(v_, ast.Lambda) else None
        if fn_ is None and isinstance(v_, ast.Name):
            nf_ = [f for f in de.nested.values() if f.node.name == v_.id]
            fn_ = nf_[0].node if nf_ else None
        if fn_ is None:
            continue
        ps_ = [a.arg for a in fn_.args.args]
        body_calls = [c for c in ast.walk(fn_) if isinstance(c, ast.Call) and q.call_name(c) in ("_args_key", "get_args_tuple")]
        uses_args = len(ps_) >= 2 and any([q.src(a) for a in c.args[:2]] == ps_[:2] for c in body_calls)
        R.check(uses_args, "C12.KEY", de.qualname + ":default-key:" + str(getattr(v_, "lineno", 0) - de.node.lineno), R.site(de, v_),
                "the default key function normalises the call's own (args, kwargs)",
                "a default key function (`%s`) does not depend on the call's arguments: for a signature it was not meant for (only *args / **kwargs) calls with "
                "different arguments get the same key - the later caller is handed the in-flight task of another key and its own body never runs" % q.src(v_)[:60])
    for n_ in [x for x in q.scope_nodes(de.node) if isinstance(x, ast.FunctionDef) and x.name == "_keygetter"]:
        body_calls = [c for c in ast.walk(n_) if isinstance(c, ast.Call) and q.call_name(c) in ("_args_key", "get_args_tuple")]
        ps_ = [a.arg for a in n_.args.args]
        R.check(len(ps_) >= 2 and any([q.src(a) for a in c.args[:2]] == ps_[:2] for c in body_calls), "C12.KEY", de.qualname + ":default-key:def", R.site(de, n_),
                "the default key function normalises the call's own (args, kwargs)", "the default key function does not depend on the call's arguments")
    # the in-flight table never forgets an entry on its own
    tv = dd.class_assigns.get("tasks")
    okt = tv is not None and ((isinstance(tv.value, ast.Dict) and not tv.value.keys) or (isinstance(tv.value, ast.Call) and q.call_name(tv.value) in ("dict", "collections.OrderedDict", "OrderedDict") and not tv.value.args))
    R.check(okt, "C12.TABLE", dd.qualname + ".tasks", R.site(dd.module, tv) if tv is not None else dd.qualname,
            "the in-flight table is a plain, unbounded mapping: an entry disappears only through its completion callback or dirty()",
            "the in-flight table is `%s`: entries can disappear while their task is still in flight (eviction), so a later call with the same key runs the body again" % (q.src(tv.value) if tv is not None else None))
    # the `running` flag the hit path consults is true exactly while the generator is being stepped
    step = ro.generator_step_fn()
    scfg = cfg_of(step)
    on = [n for n in kit.store_nodes(step, "running") if isinstance(n.ast, ast.Assign) and q.const_value(n.ast.value) is True]
    off = [n for n in kit.store_nodes(step, "running") if isinstance(n.ast, ast.Assign) and q.const_value(n.ast.value) is False]
    R.need(on, "idiom: the stepper no longer sets self.running")
    starts = []
    for n in on:
        starts += [e.dst for e in scfg.out_edges(n.id, X)]
    p = scfg.find_path(starts, [scfg.exit, scfg.raise_exit], X, cut_nodes=off)
    R.check(p is None and off, "C12.RUNNING", step.qualname, R.site(step),
            "once self.running is set, every exit of the stepper (normal or exceptional) clears it",
            "the stepper can be left with self.running still True: a suspended in-flight task looks as if it were executing, so same-key callers get a fresh task and the body runs twice",
            scfg.fmt_path(p) if p else None)
    running_on_every_step(R, ro, "C12.RUNNING")
    # completion notification cannot be bypassed (shared with C10)
    from .c10 import notify_override_rule
    notify_override_rule(R, ro, "C12.NOTIFY")
    R.require_min("C12.PAIR", 4)
    R.require_min("C12.KEY", 4)
