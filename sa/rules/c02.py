"""C02 - failures propagate like sequential exceptions, after all siblings finish."""
import ast

from ..cfg import cfg_of, N, X, handler_type_names, ExcHierarchy
from ..roles import Roles
from .. import q, kit
from . import common
from .structs import unwrap_rules

EXPLANATION = (
    "Flow and path rules over AsyncTask._continue/_continue_on_generator/is_blocked, unwrap, "
    "BatchBase._compute/_computed, Future._compute and the scheduler's drain: the exception thrown "
    "into the generator is the very object caught around unwrap(self._last_value) and nothing else; "
    "the generator step is inside a handler covering Exception whose caught object reaches set_error "
    "unchanged; is_blocked waits for all dependencies and steps are dominated by its false edge; "
    "unwrap's default arm raises TypeError and containers are traversed forward; flush faults are "
    "captured (BaseException) and delivered to the unset items as the same instance; and a "
    "fault-escape analysis shows no task-step, provider or flush fault crosses a TaskScheduler frame."
)

DIAG_CALLS = ("debug.write", "debug.dump", "debug.str", "debug.repr", "debug.dump_error", "debug.dump_stack")


def inline_fail(R, ro, hier, rule):
    """A plain future computed inline by the drain: when its _compute() raises, the future leaves the arm *computed* (with that
    error), so that the tasks awaiting it get the exception at their yield - an uncomputed future popped from the stack would
    block its awaiting task for good."""
    drain = ro.drain_method()
    dcfg = cfg_of(drain)
    sf = "self." + ro.stack_field()
    for n, c in kit.call_sites(drain, lambda c: q.attr_call(c)[1] == "_compute"):
        recv = q.src(q.attr_call(c)[0])
        hs = [h for t in kit.enclosing_try_handlers(c)[:1] for h in t.handlers if kit.handler_covers(h, "Exception", hier)]
        if not hs:
            continue        # reported by ESCAPE
        for h in hs:
            hn = kit.one(dcfg.nodes_for(h), "handler node")
            fails = [x for x, cc in kit.call_sites(drain, lambda cc: q.attr_call(cc)[1] == "set_error" and q.src(q.attr_call(cc)[0]) == recv
                                                   and cc.args and isinstance(cc.args[0], ast.Name) and cc.args[0].id == h.name)]
            pops = [x for x, cc in kit.call_sites(drain, lambda cc: q.src(cc.func) == sf + ".pop")]

            def computed(nd):
                if nd.kind != "test":
                    return None
                k, s, pos = q.atom_test(nd.ast)
                if k == "call" and s == recv + ".is_computed":
                    return "T" if pos else "F"
                return None
            p = dcfg.find_path([hn], pops + [dcfg.exit], N, cut_nodes=fails,
                               keep_edge=lambda e: not (computed(dcfg.nodes[e.src]) is not None and e.label == computed(dcfg.nodes[e.src])))
            R.check(p is None, rule, drain.qualname + ":inline-fail", R.site(drain, h),
                    "a plain future whose _compute() raised is completed with that exception before it leaves the stack",
                    "a plain future whose _compute() raised can leave the stack uncomputed: the exception is lost and the awaiting task stays blocked",
                    dcfg.fmt_path(p) if p else None)


def run(R):
    R.extra["explanation"] = EXPLANATION
    ro = Roles(R)
    hier = ExcHierarchy(R.repo)
    step = ro.generator_step_fn()  # _continue_on_generator
    driver = ro.step_method_task()  # _continue
    g = "self." + ro.generator_field()
    params = q.param_names(step.node)
    # ---- FLOW-THROW
    throws = [(n, c) for n, c in ro.step_sites(step) if q.attr_call(c)[1] == "throw"]
    R.need(throws, "idiom: no .throw() on the task's generator")
    err_params = set()
    for n, c in throws:
        names = [a.id for a in c.args if isinstance(a, ast.Name)]
        cand = [x for x in names if x in params]
        ok = len(cand) == 1 and all(
            (isinstance(a, ast.Name) and a.id == cand[0])
            or q.src(a) in ("type(%s)" % cand[0], "%s._type_" % cand[0], "%s._traceback" % cand[0], "%s.__traceback__" % cand[0])
            for a in c.args)
        R.check(ok, "C02.FLOW-THROW", "%s:%s" % (step.qualname, q.stmt_key(c)), R.site(step, c),
                "throw() receives the error parameter itself (plus its own type/traceback)",
                "the exception thrown into the generator is not the error object that was handed to the stepper (wrapped, copied or replaced)")
        if cand:
            err_params.add(cand[0])
        if cand and len(c.args) == 3:
            common.stamp_trusted(R, "C02.FLOW-THROW", step, [n], cand[0], True, "the three-argument throw() in %s" % step.name)
    R.need(len(err_params) == 1, "idiom: the stepper's error parameter is ambiguous")
    ep = err_params.pop()
    # the caller passes the object bound by the handler around unwrap(self._last_value)
    calls = ro.calls_to(driver, [step])
    R.need(calls, "role: %s no longer calls %s" % (driver.qualname, step.qualname))
    for n, c in calls:
        arg = common.arg_for_param(c, step, ep)
        R.need(isinstance(arg, ast.Name), "idiom: the error argument of the stepper call is not a plain name")
        vals = common.assigned_values(driver.node, arg.id)
        ok = True
        handlers = []
        for kind, v in vals:
            if kind == "expr" and q.is_none(v):
                continue
            if kind == "expr" and isinstance(v, ast.Name):
                hv = common.assigned_values(driver.node, v.id)
                hs = [h for k, h in hv if k == "handler"]
                if hs and len(hs) == len(hv):
                    handlers += hs
                    continue
            if kind == "handler":
                # `except StopIteration as error` etc. re-use the name after the call: only
                # handlers that lexically precede the call can flow into it
                if v.lineno > c.lineno:
                    continue
                handlers.append(v)
                continue
            ok = False
        # the error belongs to THIS resumption: between two stepper calls (around the driver's loop) the variable is assigned
        # again on every path - an exception the task has already handled must not be thrown at its next yield
        dcfg_ = cfg_of(driver)
        stores = [x for x in dcfg_.nodes if (x.kind == "stmt" and isinstance(x.ast, ast.Assign) and arg.id in q.names_stored(x.ast))
                  or (x.kind == "except" and getattr(x.ast, "name", None) == arg.id)]
        after = [e.dst for e in dcfg_.out_edges(n.id, N)]
        stale = dcfg_.find_path(after, [n], N, cut_nodes=stores)
        R.check(stale is None, "C02.FLOW-THROW", "%s:fresh" % driver.qualname, R.site(driver, c),
                "the error variable is assigned anew between two steps of the generator",
                "from one step of the generator the next one can be reached without `%s` being assigned again: an exception the task caught and handled is "
                "thrown into it a second time at its next yield" % arg.id, dcfg_.fmt_path(stale) if stale else None)
        R.check(ok and handlers, "C02.FLOW-THROW", "%s:source" % driver.qualname, R.site(driver, c),
                "the error handed to the stepper is None or the exception object bound by an except clause (identity preserved)",
                "the error handed to the stepper can be something other than the caught exception object")
        for h in handlers:
            tr = q.enclosing(h, ast.Try)
            body_calls = []
            for s_ in tr.body:
                body_calls += q.calls(s_)
            unw = [x for x in body_calls if q.call_name(x) == "unwrap" and x.args and q.src(x.args[0]) == "self._last_value"]
            others = [x for x in body_calls if x not in unw and q.call_name(x) not in DIAG_CALLS]
            R.check(len(unw) == 1 and not others, "C02.THROW-SOURCE", "%s:try" % driver.qualname, R.site(driver, tr),
                    "the only fault source in the guarded block is unwrap(self._last_value): the thrown error is the first failure in structure order (or unwrap's TypeError)",
                    "the block whose exception is thrown into the task contains other raising calls than unwrap(self._last_value) (%s): "
                    "the error delivered at the yield is no longer the first failure in structure order"
                    % ", ".join(q.src(x)[:50] for x in others))
            R.check(kit.handler_covers(h, "Exception", hier), "C02.THROW-SOURCE", "%s:covers" % driver.qualname, R.site(driver, h),
                    "the handler around unwrap covers Exception", "a failed dependency's exception is not caught around unwrap (not delivered at the yield)")
    # ---- CAPTURE
    for n, c in calls:
        trys = kit.enclosing_try_handlers(c)
        R.need(trys, "idiom: the generator step is not inside a try")
        tr = trys[0]
        covering = [h for h in tr.handlers if kit.handler_covers(h, "Exception", hier)]
        R.check(bool(covering), "C02.CAPTURE", "%s:covers" % driver.qualname, R.site(driver, tr),
                "the generator step is guarded by a handler that covers Exception",
                "an exception raised by task code is not caught around the step: it unwinds the scheduler instead of becoming the task's error")
        for h in covering[:1]:
            bound = h.name
            acc = [c for n_, c, kind, v in ro.completing_calls(driver) if kind == "error" and any(c is x for x in ast.walk(h)) and isinstance(v, ast.Name) and v.id == bound]
            R.check(bool(acc), "C02.CAPTURE", "%s:stores" % driver.qualname, R.site(driver, h),
                    "the caught object itself is routed to the task's error",
                    "the exception caught around the step is not stored as the task's error unchanged")
    # the methods on the way to set_error forward their parameter on every path on which the task is not yet computed
    at = ro.AsyncTask
    chain = [m for m in at.methods.values() if (ro.completes_with(m) or (None,))[0] == "error" and m.name not in ("set_error",)]
    R.need(chain, "idiom: no AsyncTask method forwards an error to set_error")
    for m in chain:
        name = m.name
        p0 = ro.completes_with(m)[1]
        cfg = cfg_of(m)
        fw = [(n, c) for n, c, kind, v in ro.completing_calls(m) if kind == "error" and isinstance(v, ast.Name) and v.id == p0]

        def computed(nd):
            if nd.kind != "test":
                return None
            k, s, pos = q.atom_test(nd.ast)
            if k == "is" and set(s) == set(["_futures_none", "self._value"]):
                return "F" if pos else "T"   # `self._value is not _futures_none` true == computed
            if k == "call" and s == "self.is_computed":
                return "T" if pos else "F"
            return None

        # every normal path that does not take the "already computed" edge passes the forwarding call
        def keep(e, cfg=cfg):
            lab = computed(cfg.nodes[e.src])
            return not (lab is not None and e.label == lab)
        p = cfg.find_path([cfg.entry], [cfg.exit], N, cut_nodes=[n for n, c in fw], keep_edge=keep)
        R.check(p is None and fw, "C02.CAPTURE", "%s:forward" % m.qualname, R.site(m),
                "%s forwards its error parameter unchanged on every path on which the task is not yet computed" % name,
                "%s can return without storing the error (or stores a different object)" % name, cfg.fmt_path(p) if p else None)
    common.unwrap_capture(R, ro, "C02.CAPTURE-ALL")
    # an item read synchronously pulls its batch through flush(), which stores a flush failure on the batch instead of raising it:
    # a reader of an item the flush did serve must get that item's own outcome
    bi = ro.BatchItemBase.methods.get("_compute")
    R.need(bi is not None, "anchor vanished: BatchItemBase._compute")
    pulls = [c for c in q.calls(bi.node) if (q.call_name(c) or "").startswith("self.batch.")]
    okp = [c for c in pulls if q.call_name(c) in ("self.batch.flush", "self.batch.is_flushed", "self.batch.is_computed")]
    R.check(len(okp) == len(pulls) and any(q.call_name(c) == "self.batch.flush" for c in pulls), "C02.ITEM-PULL", bi.qualname, R.site(bi),
            "asking an item for its value flushes its batch with flush() (the batch's own failure is not raised at the reader)",
            "an item's _compute computes its batch through %s: a flush body that served this item and then raised makes the reader of the served item "
            "receive the flush error instead of the item's value" % ", ".join(q.src(c) for c in pulls if c not in okp))
    # ---- BLOCKED-ALL
    common.blocked_all(R, ro, "C02.BLOCKED-ALL")
    common.step_only_unblocked(R, ro, "C02.BLOCKED-ALL")
    # ---- TYPEERROR + ORDER (unwrap)
    unwrap_rules(R, "C02", order_only=True)
    # ---- BATCH-ERR
    batch_err(R, ro, "C02.BATCH-ERR", hier)
    # ---- STORE-ERR
    fc = ro.Future.methods.get("_compute")
    R.need(fc is not None, "anchor vanished: Future._compute")
    prov = kit.call_sites(fc, lambda c: q.call_name(c) == "self._value_provider")
    for n, c in prov:
        trys = kit.enclosing_try_handlers(c)
        hs = [h for t in trys[:1] for h in t.handlers if kit.handler_covers(h, "Exception", hier)]
        ok = bool(hs) and any(q.call_name(x) == "self.set_error" and x.args and isinstance(x.args[0], ast.Name) and x.args[0].id == hs[0].name
                              for x in q.calls(hs[0]))
        R.check(ok, "C02.STORE-ERR", fc.qualname, R.site(fc, c),
                "a failing value provider's exception object is stored with set_error",
                "a failing value provider leaves the future without the error (or with a different object)")
    # ---- ESCAPE
    common.escape_rule(R, ro, "C02.ESCAPE", ("step", "provider", "flush"), "delivered at the awaiting task's yield")
    inline_fail(R, ro, hier, "C02.ESCAPE")
    # the exception object is stored as it is: completing a future does not stamp, wrap or otherwise touch it (the traceback
    # bookkeeping belongs to the task that catches the error, inside its except block, where sys.exc_info() is that error)
    se = ro.FutureBase.methods.get("set_error")
    R.need(se is not None, "anchor vanished: FutureBase.set_error")
    ep_ = q.param_names(se.node)[1]
    touched = []
    for x in q.scope_nodes(se.node):
        if isinstance(x, ast.Call) and any(isinstance(a, ast.Name) and a.id == ep_ for a in list(x.args) + [k.value for k in x.keywords]):
            touched.append(q.src(x)[:60])
        if isinstance(x, ast.Attribute) and isinstance(x.ctx, (ast.Store, ast.Del)) and q.src(x.value) == ep_:
            touched.append(q.src(x)[:60])
    stores = [x for x in q.scope_nodes(se.node) if isinstance(x, ast.Assign) and q.src(x.value) == ep_ and any(q.src(t).startswith("self.") for t in x.targets)]
    R.check(not touched and len(stores) == 1, "C02.FLOW-THROW", se.qualname + ":unchanged", R.site(se),
            "set_error stores the exception object and does nothing else with it",
            "set_error touches the exception object (%s): stamping it outside the except block of that very exception records the wrong (or no) "
            "type/traceback, and the next task level throws something else into its parent" % "; ".join(touched))
    # collecting the futures of a yielded value never fails: what is not a future is reported by unwrap(), at the yield
    ef = R.repo.fn("async_task.extract_futures")
    raises_ = [x for x in q.scope_nodes(ef.node) if isinstance(x, (ast.Raise, ast.Assert))]
    R.check(not raises_, "C02.THROW-SOURCE", ef.qualname + ":silent", R.site(ef),
            "extract_futures skips what is not a future (unwrap reports it to the task at its yield)",
            "extract_futures raises for a yielded object that is not a future: the TypeError completes the task directly instead of being thrown in at the "
            "yield (a try/except around the yield no longer catches it, and the futures yielded alongside are never awaited)")
    n_slots = common.exception_slot_types(R, "C02.ERR-TYPE", ("futures.FutureBase", "async_task.AsyncTask", "batching.BatchBase", "batching.BatchItemBase"))
    R.need(n_slots >= 4, "fewer exception-carrying slots in the .pxd files than confirmed by hand (%d < 4)" % n_slots)
    common.annotation_narrowing(R, "C02.ERR-TYPE")
    from .c01 import noexcept_rule
    noexcept_rule(R, "C02.ERR-TYPE")
    capture_guard(R, ro, "C02.CAPTURE-GUARD")
    # ---- the error decides between send() and throw() by identity, not by truth value
    sends = [(n, c) for n, c in ro.step_sites(step) if q.attr_call(c)[1] == "send"]
    scfg_ = cfg_of(step)

    def no_error(nd):
        if nd.kind != "test":
            return None
        k, s_, pos = q.atom_test(nd.ast)
        if k == "isnone" and s_ == ep:
            return "T" if pos else "F"
        return None
    for n, c in sends:
        p = kit.path_avoiding_guard(scfg_, [n], no_error, N)
        R.check(p is None, "C02.FLOW-THROW", step.qualname + ":send-guard", R.site(step, c),
                "the generator is resumed with send() only when `%s is None`" % ep,
                "send() is reachable while an error is pending (the test is not `%s is None`: an exception object whose truth value is false - an "
                "empty aggregate error, one defining __bool__/__len__ - counts as no error): the failure is dropped and the task resumes with None" % ep,
                scfg_.fmt_path(p) if p else None)
    # the bookkeeping attributes are read only from an error known to carry them: an error that no task has stamped yet (raised by a
    # batch flush or a lazy future's provider, or one that refuses attributes) is thrown in as it is
    for x in q.scope_nodes(step.node):
        if isinstance(x, ast.Attribute) and isinstance(x.ctx, ast.Load) and isinstance(x.value, ast.Name) and x.value.id == ep and x.attr in ("_type_", "_traceback", "_task"):
            stx = q.enclosing_stmt(x)
            nodes_x = [y for y in scfg_.nodes if y.stmt is stx]
            # in a short-circuit condition the read belongs to the operand that contains it: `hasattr(e, a) and isinstance(e.a, ..)`
            holding = [y for y in nodes_x if y.kind == "test" and y.ast is not None and any(z is x for z in ast.walk(y.ast))]
            if holding:
                nodes_x = holding

            def carries(nd):
                if nd.kind != "test":
                    return None
                e_, pos_ = nd.ast, True
                while isinstance(e_, ast.UnaryOp) and isinstance(e_.op, ast.Not):
                    e_, pos_ = e_.operand, not pos_
                if isinstance(e_, ast.Call) and q.call_name(e_) == "hasattr" and len(e_.args) == 2 and q.src(e_.args[0]) == ep \
                        and isinstance(e_.args[1], ast.Constant) and e_.args[1].value == x.attr:
                    return "T" if pos_ else "F"
                return None
            px = kit.path_avoiding_guard(scfg_, nodes_x, carries, N, dead_ok=True) if nodes_x else None
            R.check(px is None and bool(kit.guard_edges_exist(scfg_, carries)), "C02.FLOW-THROW", "%s:reads:%s" % (step.qualname, x.attr), R.site(step, x),
                    "%s.%s is read only after hasattr(%s, %r)" % (ep, x.attr, ep, x.attr),
                    "%s.%s is read for an error that need not carry it (not on the true edge of a hasattr test of that attribute; a test of another attribute "
                    "says nothing: an exception class may define a _task attribute of its own, and stamping can stop half way): an error that no task has "
                    "stamped - raised by a batch flush or a lazy future, or a user exception with its own bookkeeping - turns into AttributeError inside the "
                    "stepper and the task fails with that instead" % (ep, x.attr),
                    scfg_.fmt_path(px) if px else None)
    accept_error_in_handler(R, ro, "C02.CAPTURE")
    generator_exit_outcomes(R, ro, hier, "C02.ESCAPE")
    common.safe_trigger_selects_failures(R, "C02.ESCAPE")
    stamp_contained(R, ro, hier, "C02.CAPTURE")
    last_value_fresh(R, ro, "C02.FLOW-FRESH")
    exits_do_not_suppress(R, "C02.EXIT-PROPAGATES")
    R.require_min("C02.FLOW-THROW", 3)
    R.require_min("C02.ESCAPE", 3)


def stamp_contained(R, ro, hier, rule, classes=None, min_n=3):
    """The exception a task failed with is a user object.  Where the task records bookkeeping on it (error._task = ..., qcore's
    prepare_for_reraise, which sets _type_/_traceback) the object may refuse: a frozen dataclass exception or a class with a
    restrictive __setattr__ raises from the assignment - inside the very handler that is capturing the failure, so the capture is
    lost and an AttributeError/TypeError unwinds the scheduler instead of the failure being delivered.  Every such store on an
    object not yet known to accept attributes is contained (try/except covering Exception)."""
    n = 0
    for m in [m_ for c_ in (classes or [ro.AsyncTask]) for m_ in c_.methods.values()]:
        cfg = None
        for node in q.scope_nodes(m.node):
            subj = None
            if isinstance(node, ast.Attribute) and isinstance(node.ctx, ast.Store) and isinstance(node.value, ast.Name) and node.value.id != "self" \
                    and node.attr in ("_task", "_traceback", "_type_"):
                subj = node.value.id
            elif isinstance(node, ast.Call) and (q.call_name(node) or "").endswith("prepare_for_reraise") and node.args and isinstance(node.args[0], ast.Name):
                subj = node.args[0].id
            if subj is None:
                continue
            n += 1
            prot = any(kit.handler_covers(h, "Exception", hier) and not kit.handler_reraises(h) for t in kit.enclosing_try_handlers(node) for h in t.handlers)
            if not prot:
                # known to accept attributes: dominated by the true edge of hasattr(<subj>, ...)
                cfg = cfg or cfg_of(m)
                st = q.enclosing_stmt(node)
                nodes = [x for x in cfg.nodes if x.stmt is st]

                attr_ = node.attr if isinstance(node, ast.Attribute) else None

                def stamped(nd, subj=subj, attr_=attr_):
                    # (an object that has attribute X is known to take a store to X - not to any other attribute: a class may define
                    # _task itself and still refuse new attributes)
                    if nd.kind != "test":
                        return None
                    k_, s_, pos_ = q.atom_test(nd.ast)
                    if k_ == "call" and s_ == "hasattr" and isinstance(nd.ast, (ast.Call, ast.UnaryOp)):
                        c_ = nd.ast.operand if isinstance(nd.ast, ast.UnaryOp) else nd.ast
                        if isinstance(c_, ast.Call) and len(c_.args) == 2 and q.src(c_.args[0]) == subj and attr_ is not None \
                                and isinstance(c_.args[1], ast.Constant) and c_.args[1].value == attr_:
                            return "T" if pos_ else "F"
                    return None
                prot = bool(nodes) and kit.path_avoiding_guard(cfg, nodes, stamped, N, dead_ok=True) is None and bool(kit.guard_edges_exist(cfg, stamped))
            R.check(prot, rule, "%s:stamp:%s" % (m.qualname, q.stmt_key(q.enclosing_stmt(node))[:40]), R.site(m, node),
                    "bookkeeping on the exception object `%s` is contained (or the object is known to accept attributes)" % subj,
                    "%s records bookkeeping on the exception object (`%s`) with nothing containing a refusal: an exception class that does not accept new "
                    "attributes (a frozen dataclass, a restrictive __setattr__) makes this raise inside the handler that captures the task's failure - "
                    "FrozenInstanceError/TypeError unwinds the scheduler and the failure is never delivered" % (m.qualname, q.src(q.enclosing_stmt(node))[:50]))
    R.need(n >= min_n, "fewer bookkeeping stores on exception objects than confirmed by hand (%d < %d)" % (n, min_n))
    if not n:
        R.ok(rule, "asynq/", "no bookkeeping is stored on exception objects in %s" % ", ".join(c_.name for c_ in (classes or [ro.AsyncTask])))


def last_value_fresh(R, ro, rule):
    """What the task yielded is unwrapped (values delivered, the first failure raised) once, at the task's next step.  Across a step
    `_last_value` is therefore replaced: it is cleared before the generator is entered, on every path to send()/throw(), or the
    method that receives the generator's yield result stores it on every path (also for a bare `yield`).  If neither holds, the
    previous yield's structure is unwrapped again at the following step: an exception the task caught and handled is raised in it
    a second time, or a stale result is sent in."""
    step = ro.generator_step_fn()
    driver = ro.step_method_task()
    scfg = cfg_of(step)
    fld = None
    for c in q.calls(driver.node):
        if q.call_name(c) == "unwrap" and c.args and q.src(c.args[0]).startswith("self."):
            fld = q.src(c.args[0])[5:]
    R.need(fld is not None, "idiom: %s does not unwrap a field of the task" % driver.qualname)
    writes_s = kit.store_nodes(step, fld)
    sites = ro.step_sites(step)
    cleared = bool(writes_s) and all(scfg.find_path([scfg.entry], [n], N, cut_nodes=writes_s) is None for n, c in sites)
    # the method handed the stepper's result
    acc = None
    for c in q.calls(driver.node):
        if c.args and any(c.args[0] is dc for dn, dc in ro.calls_to(driver, [step])):
            rc, nm = q.attr_call(c)
            if rc is not None and q.dotted(rc) == "self":
                acc = ro.AsyncTask.find_method(nm)
    R.need(acc is not None, "idiom: the generator's yield result is not handed to a method of the task")
    acfg = cfg_of(acc)
    writes_a = kit.store_nodes(acc, fld)
    pa = acfg.find_path([acfg.entry], [acfg.exit], N, cut_nodes=writes_a)
    stored = bool(writes_a) and pa is None
    R.check(cleared or stored, rule, "%s:%s" % (driver.qualname, fld), R.site(acc),
            "self.%s is replaced across every step (%s)" % (fld, "cleared before the generator is entered" if cleared else "stored by %s on every path" % acc.name),
            "self.%s can survive a step: %s does not clear it on every path to send()/throw(), and %s can return without storing the new yield result - "
            "the structure the task yielded before is unwrapped again at its next step (an exception it already handled is raised a second time, "
            "a stale value is sent in)" % (fld, step.name, acc.name), acfg.fmt_path(pa) if pa else None)


def exits_do_not_suppress(R, rule):
    """A with-block of one of asynq's context classes does not swallow the exception that leaves it: __exit__ returns nothing (or a
    constant false value) on every path.  A true value suppresses the exception - the task goes on as if its block had succeeded -
    and returning a future is worse: its truth value raises TypeError in the compiled build, which replaces the original exception."""
    n = 0
    for c in R.repo.all_classes():
        if c.module.name in ("mock_",):
            continue
        m = c.methods.get("__exit__")
        if m is None:
            continue
        for r_ in [x for x in q.scope_nodes(m.node) if isinstance(x, ast.Return)]:
            n += 1
            v = r_.value
            ok = v is None or (isinstance(v, ast.Constant) and not v.value)
            R.check(ok, rule, "%s:%s" % (m.qualname, q.stmt_key(r_)[:40]), R.site(m, r_),
                    "%s.__exit__ returns nothing" % c.name,
                    "%s.__exit__ returns `%s`: a true value suppresses the exception that is leaving the with-block (it never reaches the task's "
                    "except clauses or its awaiters), and a future returned here cannot even be truth-tested (TypeError in the compiled build replaces "
                    "the original exception)" % (c.name, q.src(v)[:50]))
        if not [x for x in q.scope_nodes(m.node) if isinstance(x, ast.Return)]:
            n += 1
            R.ok(rule, R.site(m), "%s.__exit__ has no return statement" % c.name)
    R.need(n >= 2, "fewer __exit__ methods than confirmed by hand (%d < 2)" % n)


def batch_err(R, ro, rule, hier):
    bb = ro.BatchBase
    bc = bb.methods.get("_compute")
    R.need(bc is not None, "anchor vanished: BatchBase._compute")
    fl = kit.call_sites(bc, lambda c: q.call_name(c) == "self._flush")
    R.need(fl, "idiom: BatchBase._compute no longer calls self._flush()")
    for n, c in fl:
        trys = kit.enclosing_try_handlers(c)
        hs = [h for t in trys[:1] for h in t.handlers if kit.handler_covers(h, "BaseException", hier)]
        R.check(bool(hs), rule, "%s:covers" % bc.qualname, R.site(bc, c),
                "the flush body runs inside a handler covering BaseException",
                "a flush body that raises (a BaseException subclass not covered by the handler) escapes flush(): the batch stays pending, its items unanswered")
        if hs:
            h = hs[0]
            cfg = cfg_of(bc)
            se = [(nn, cc) for nn, cc in kit.call_sites(bc, lambda x: q.call_name(x) == "self.set_error" and x.args and isinstance(x.args[0], ast.Name)
                                                       and x.args[0].id == h.name) if any(cc is sub for sub in ast.walk(h))]
            hn = kit.one(cfg.nodes_for(h), "handler node")

            def unc(nd):
                if nd.kind != "test":
                    return None
                k, s, pos = q.atom_test(nd.ast)
                if k == "call" and s in ("self.is_computed", "self.is_flushed"):
                    return "F" if pos else "T"
                return None
            # on the uncomputed edge the error is stored; the store is guarded
            ok = bool(se)
            for nn, cc in se:
                p = kit.path_avoiding_guard(cfg, [nn], unc, N, sources=[hn])
                ok = ok and p is None
            # and no path through the handler on the uncomputed edge avoids the store
            starts = []
            for gnode in kit.guard_edges_exist(cfg, unc):
                if any(gnode.ast is sub for sub in ast.walk(h)):
                    starts += [e.dst for e in cfg.out_edges(gnode.id, N) if e.label == unc(gnode)]
            p2 = cfg.find_path(starts, [cfg.exit], N, cut_nodes=[nn for nn, cc in se]) if starts else "no guard"
            R.check(ok and p2 is None, rule, "%s:stores" % bc.qualname, R.site(bc, h),
                    "the caught flush error is stored on the batch (set_error with the same object) unless the batch is already computed",
                    "a flush error can be dropped, or is stored without checking that the batch is not computed yet")
    # no arm of that try swallows what the flush body raised without completing the batch: every handler stores the error unless the
    # batch is computed (a flush body that answers one item twice raises FutureIsAlreadyComputed - an arm that passes on it because
    # "the batch was cancelled meanwhile" leaves the batch pending: flush() returns, the items never complete, a second flush runs the body again)
    cfg0 = cfg_of(bc)

    def unc0(nd):
        if nd.kind != "test":
            return None
        k, s_, pos = q.atom_test(nd.ast)
        if k == "call" and s_ in ("self.is_computed", "self.is_flushed"):
            return "F" if pos else "T"
        return None
    for n, c in fl:
        for t in kit.enclosing_try_handlers(c)[:1]:
            for h in t.handlers:
                hn_ = cfg0.nodes_for(h)
                stores_ = [nn for nn, cc in kit.call_sites(bc, lambda x: q.call_name(x) in ("self.set_error", "self.cancel")) if any(cc is sub for sub in ast.walk(h))]
                rer = [x for x in cfg0.nodes if x.kind == "stmt" and isinstance(x.ast, ast.Raise) and any(x.ast is sub for sub in ast.walk(h))]

                def computed_edge(e):
                    lab = unc0(cfg0.nodes[e.src])
                    return lab is not None and e.label != lab and e.label in ("T", "F")
                p = cfg0.find_path(hn_, [cfg0.exit], N, cut_nodes=stores_ + rer, keep_edge=lambda e: not computed_edge(e)) if hn_ else None
                R.check(p is None, rule, "%s:handler:%s" % (bc.qualname, q.src(h.type)[:30] if h.type is not None else "bare"), R.site(bc, h),
                        "the `except %s` arm completes the batch unless it is computed already" % (q.src(h.type)[:30] if h.type is not None else ""),
                        "the `except %s` arm of BatchBase._compute can return without completing the batch and without having found it computed: a flush body "
                        "that raises this leaves the batch pending - flush() returns normally, the items it did not reach never complete and a second flush() "
                        "runs the body again" % (q.src(h.type)[:40] if h.type is not None else ""), cfg0.fmt_path(p) if p else None)
    # every completion of the batch inside _compute is protected against "already completed" (the flush body may have completed
    # the batch itself, e.g. through the public cancel()): it sits in the try whose BaseException handler tests is_computed(),
    # or is itself guarded by that test - FutureIsAlreadyComputed must not escape from a flush
    cfg_ = cfg_of(bc)

    def unc_(nd):
        if nd.kind != "test":
            return None
        k, s, pos = q.atom_test(nd.ast)
        if k == "call" and s in ("self.is_computed", "self.is_flushed"):
            return "F" if pos else "T"
        return None
    for nn, cc in kit.call_sites(bc, lambda x: q.call_name(x) in ("self.set_value", "self.set_error")):
        in_try_body = False
        for t in kit.enclosing_try_handlers(cc):
            if any(cc is sub for st in t.body for sub in ast.walk(st)) and any(kit.handler_covers(h, "BaseException", hier) for h in t.handlers):
                in_try_body = True
        guarded = kit.path_avoiding_guard(cfg_, [nn], unc_, N, dead_ok=True) is None
        R.check(in_try_body or guarded, rule, "%s:protected:%s" % (bc.qualname, q.stmt_key(cc)[:30]), R.site(bc, cc),
                "%s is protected against a batch that the flush body already completed" % q.src(cc)[:30],
                "%s runs outside the guarded block and without an is_computed() test: when the flush body completed the batch itself "
                "(cancel() after a backend failure), FutureIsAlreadyComputed escapes from flush() through the scheduler" % q.src(cc)[:30])
    # items receive the batch's own error instance
    comp = bb.methods.get("_computed")
    R.need(comp is not None, "anchor vanished: BatchBase._computed")
    from .c05 import item_once
    item_once(R, comp, rule + ".ITEMS")
    ccfg = cfg_of(comp)

    def batch_error_name(nm):
        vals = common.assigned_values(comp.node, nm)
        return bool(vals) and all(k == "expr" and q.src(v) in ("self.error()", "self._error") for k, v in vals)
    # names meaning "the batch finished with an error": `cancelled = error is not None`
    cancelled_names = set()
    for n in q.scope_nodes(comp.node):
        if isinstance(n, ast.Assign) and isinstance(n.value, ast.Compare):
            k_, s_, pos_ = q.atom_test(n.value)
            if k_ == "isnone" and batch_error_name(s_) and not pos_:
                cancelled_names.update(t.id for t in n.targets if isinstance(t, ast.Name))

    def failed_test(e):
        """+1 if expression e is true exactly when the batch has an error, -1 if exactly when it has none, else 0"""
        k_, s_, pos_ = q.atom_test(e)
        if k_ == "truth" and s_ in cancelled_names:
            return 1 if pos_ else -1
        if k_ == "isnone" and isinstance(s_, str) and batch_error_name(s_):
            return -1 if pos_ else 1
        return 0
    n_own = 0
    for lp in [n for n in ast.walk(comp.node) if isinstance(n, ast.For) and common.iterates_items(comp.node, n.iter)]:
        for c in q.calls(lp):
            if q.attr_call(c)[1] != "set_error" or not c.args:
                continue
            a = c.args[0]
            site = R.site(comp, c)
            key = "%s:%s" % (comp.qualname, q.stmt_key(c)[:40])
            if isinstance(a, ast.IfExp):
                pol = failed_test(a.test)
                own, other = (a.body, a.orelse) if pol > 0 else (a.orelse, a.body)
                ok = pol != 0 and isinstance(own, ast.Name) and batch_error_name(own.id) and isinstance(other, ast.Call) and q.call_name(other) == "AssertionError"
                n_own += 1 if ok else 0
            elif isinstance(a, ast.Name) and batch_error_name(a.id):
                ok = True
                n_own += 1
            elif isinstance(a, ast.Call) and q.call_name(a) == "AssertionError":
                # only when the batch has no error of its own
                nodes = [n for n in ccfg.nodes if c in kit.node_calls(n)]

                def no_error(nd):
                    if nd.kind != "test":
                        return None
                    pol = failed_test(nd.ast)
                    if pol == 0:
                        return None
                    return "F" if pol > 0 else "T"
                ok = bool(nodes) and kit.path_avoiding_guard(ccfg, nodes, no_error, N) is None
            else:
                ok = False
            R.check(ok, rule + ".SAME-INSTANCE", key, site,
                    "items left unset receive the batch's own error object (an AssertionError only when the flush itself succeeded)",
                    "items left unset by a failed flush receive something other than the batch's own exception instance (%s)" % q.src(a)[:80])
    # completing the leftover items must not depend on user code that can raise: building the message from the item's or the batch's
    # text form runs a user __str__/__repr__ in the middle of the loop; when it raises, this item and every later one stay pending
    # and the batch's own completion is never announced (the exception is swallowed by _compute's handler: the batch counts as computed)
    from .c20 import safe_operand
    import re as _re
    for lp in [n for n in ast.walk(comp.node) if isinstance(n, ast.For) and common.iterates_items(comp.node, n.iter)]:
        for node in ast.walk(lp):
            bad_ = []
            if isinstance(node, ast.BinOp) and isinstance(node.op, ast.Mod) and isinstance(node.left, ast.Constant) and isinstance(node.left.value, str):
                convs = [c_ for c_ in _re.findall(r"%[-#0 +]*\d*(?:\.\d+)?([a-zA-Z%])", node.left.value) if c_ != "%"]
                ops = node.right.elts if isinstance(node.right, ast.Tuple) else [node.right]
                for i_, o_ in enumerate(ops):
                    if (convs[i_] if i_ < len(convs) else "s") in ("s", "r", "a") and not safe_operand(comp, o_):
                        bad_.append(o_)
            elif isinstance(node, ast.Call) and (q.call_name(node) in ("str", "repr", "format") or q.attr_call(node)[1] in ("to_str", "__str__", "__repr__", "format")) \
                    and not (q.call_name(node) or "").startswith("debug."):
                bad_.append(node)
            elif isinstance(node, ast.FormattedValue) and not safe_operand(comp, node.value):
                bad_.append(node)
            for o_ in bad_:
                prot = any(kit.handler_covers(h, "Exception", hier) and not kit.handler_reraises(h) for t in kit.enclosing_try_handlers(o_)
                           if any(t is sub for sub in ast.walk(lp)) for h in t.handlers)
                R.check(prot, rule + ".ITEMS-TOTAL", "%s:%s" % (comp.qualname, q.src(o_)[:40]), R.site(comp, o_),
                        "`%s` is contained inside the loop" % q.src(o_)[:40],
                        "the loop that completes the leftover items turns `%s` into text: a user __str__/__repr__ that raises there leaves this item and "
                        "all later ones pending for ever, and the batch's completion is never announced (flush() itself returns normally)" % q.src(o_)[:40])
    R.check(n_own >= 1, rule + ".SAME-INSTANCE", comp.qualname + ":own", R.site(comp),
            "the batch's own error object is handed to the unset items", "no item completion passes the batch's own error object")
    # the item loop runs on every path of _computed before the base notification
    cfg = cfg_of(comp)
    base = kit.call_sites(comp, lambda c: q.attr_call(c)[1] == "_computed" and q.dotted(q.attr_call(c)[0]) in ("futures.FutureBase", "FutureBase", "super()"))
    base += [(n, c) for n, c in kit.call_sites(comp, lambda c: q.attr_call(c)[1] == "_computed" and isinstance(q.attr_call(c)[0], ast.Call))]
    loops = [cfg.nodes_for(n)[0] for n in ast.walk(comp.node) if isinstance(n, ast.For) and common.iterates_items(comp.node, n.iter)]
    if not base:
        R.violation(rule + ".ITEMS-FIRST", comp.qualname + ":base", R.site(comp),
                    "BatchBase._computed no longer hands over to FutureBase._computed(self): the batch's completion is announced (if at all) without the base "
                    "implementation's containment of subscriber failures - a raising subscriber makes cancel() raise and flush() raise for a failing body")
        return
    p = cfg.find_path([cfg.entry], [n for n, c in base], N, cut_nodes=loops)
    R.check(p is None, rule + ".ITEMS-FIRST", comp.qualname, R.site(comp),
            "every unset item is completed before the batch's own completion is announced",
            "the batch's completion can be announced while items are still pending", cfg.fmt_path(p) if p else None)


def capture_guard(R, ro, rule):
    """Inside TaskScheduler, a completing call (set_value/set_error) on a future is guarded by that
    future's is_computed() false edge: otherwise FutureIsAlreadyComputed - a protocol error, not a
    task fault - is raised inside the scheduler's own frames."""
    n_sites = 0
    for m in ro.ts_methods():
        cfg = cfg_of(m)
        for n, c in kit.call_sites(m, lambda c: q.attr_call(c)[1] in ("set_error", "set_value")):
            recv = q.dotted(q.attr_call(c)[0])
            if recv is None:
                continue
            n_sites += 1

            def unc(nd, recv=recv):
                if nd.kind != "test":
                    return None
                k, s, pos = q.atom_test(nd.ast)
                if k == "call" and s == "%s.is_computed" % recv:
                    return "F" if pos else "T"
                return None
            # guard must lie between the last call that may have completed the receiver and the store:
            # sources = successors of every other call on the same receiver (and the function entry)
            srcs = [cfg.entry]
            for nn, cc in kit.call_sites(m, lambda x: q.attr_call(x)[0] is not None and q.dotted(q.attr_call(x)[0]) == recv
                                         and q.attr_call(x)[1] not in ("is_computed", "set_error", "set_value")):
                srcs += [e.dst for e in cfg.out_edges(nn.id, X)]
            p = kit.path_avoiding_guard(cfg, [n], unc, X, sources=srcs)
            R.check(p is None, rule, "%s:%s" % (m.qualname, q.stmt_key(c)), R.site(m, c),
                    "%s is reached only over the not-computed edge of %s.is_computed()" % (q.src(c)[:40], recv),
                    "%s can run on a future that is already computed (e.g. Future._compute stores the provider's error before re-raising): "
                    "FutureIsAlreadyComputed escapes through the scheduler instead of the original error reaching the awaiting task" % q.src(c)[:40],
                    cfg.fmt_path(p) if p else None)
    if n_sites == 0:
        R.ok(rule, "asynq/scheduler.py", "TaskScheduler contains no completing call on a future")


def generator_exit_outcomes(R, ro, hier, rule):
    """The driver treats GeneratorExit as 'the generator was left': the task completes with a value.  The package exports
    GeneratorExit subclasses that are failures, not results (AsyncTaskCancelledError): raised in a task body - or thrown into it
    by a failed dependency - they must fail the task like any other exception, not complete it with None."""
    driver = ro.step_method_task()
    acc = ro.accept_error_method()
    cfg = cfg_of(driver)
    hs = [h for t in ast.walk(driver.node) if isinstance(t, ast.Try) for h in t.handlers
          if h.type is not None and "GeneratorExit" in [x.split(".")[-1] for x in q.names_loaded(h.type) | {q.src(h.type)}]]
    R.need(hs, "idiom: %s has no handler for GeneratorExit" % driver.qualname)
    subs = [c for c in R.repo.all_classes() if "GeneratorExit" in c.ext_bases()]
    # the result carrier: the subclass that stores the value handed to result() on itself
    carriers = set(c.name for c in subs if any(recv == "self" and attr in ("result", "value") for m_ in c.methods.values() for recv, attr, nd_ in q.attr_stores(m_.node)))
    n = 0
    for c in subs:
        if c.name in carriers:
            continue
        for h in hs:
            n += 1
            tests = [nd for nd in cfg.nodes if nd.kind == "test" and any(nd.ast is x for x in ast.walk(h)) and c.name in q.src(nd.ast)]
            ok = False
            px = None
            for t in tests:
                k_, s_, pos_ = q.atom_test(t.ast)
                if k_ not in ("is", "isinstance", "eq"):
                    continue
                starts = [e.dst for e in cfg.out_edges(t.id, N) if e.label == ("T" if pos_ else "F")]
                accs = [x for x, cc in ro.calls_to(driver, [acc])]
                px = cfg.find_path(starts, [cfg.exit], N, cut_nodes=accs)
                if px is None and accs:
                    ok = True
            R.check(ok, rule, "%s:%s" % (driver.qualname, c.name), R.site(driver, h),
                    "a %s caught from the generator fails the task (%s)" % (c.name, acc.name),
                    "a %s raised in a task body (or thrown into it by a failed dependency and not caught) is treated like a plain GeneratorExit: the task "
                    "completes with the value None instead of failing - value() returns None and the awaiting task sees no exception at its yield" % c.name,
                    cfg.fmt_path(px) if px else None)
    R.check(n >= 1, rule, driver.qualname + ":generator-exit-subclasses", R.site(driver),
            "%d GeneratorExit subclasses of the package that are failures examined" % n, "no GeneratorExit subclass besides the result carrier found")


def accept_error_in_handler(R, ro, rule):
    """The method that records a task's failure stamps the exception with the type and traceback of *the exception being handled*
    (sys.exc_info(), directly and through qcore's prepare_for_reraise).  It is therefore called inside the `except` block that
    caught the error - or, when it is called after that block (the context loops go on with the remaining contexts first), the
    handler has prepared the error itself.  Otherwise the stamp is (None, None): generator.throw(None, error, None) in the awaiting
    task raises TypeError instead of delivering the error."""
    acc = ro.accept_error_method()
    n = 0
    for m in ro.AsyncTask.methods.values():
        for nd, c in ro.calls_to(m, [acc]):
            if not c.args:
                continue
            n += 1
            inside = any(isinstance(a, ast.ExceptHandler) for a in q.ancestors(c))
            ok = inside
            why = ""
            if not inside:
                arg = c.args[0]
                srcs = []
                if isinstance(arg, ast.Name):
                    srcs = common.assigned_values(m.node, arg.id)
                # every non-None value the variable can hold was bound by a handler that prepared it
                ok = bool(srcs)
                for kind, v in srcs:
                    if kind == "expr" and q.is_none(v):
                        continue
                    hs = []
                    if kind == "handler":
                        hs = [v]
                    elif kind == "expr" and isinstance(v, ast.Name):
                        hv = common.assigned_values(m.node, v.id)
                        hs = [h for k, h in hv if k == "handler"]
                        if len(hs) != len(hv):
                            hs = []
                    if not hs:
                        ok = False
                        why = "`%s` may hold something that no handler of this method caught" % q.src(arg)
                        continue
                    for h in hs:
                        names = set([h.name]) | (set([arg.id]) if isinstance(arg, ast.Name) else set())
                        prepared = any((q.call_name(x) or "").endswith("prepare_for_reraise") and x.args and isinstance(x.args[0], ast.Name) and x.args[0].id in names
                                       for x in q.calls(h))
                        if not prepared:
                            ok = False
                            why = "the handler that caught `%s` does not call prepare_for_reraise on it" % h.name
            R.check(ok, rule, "%s:accepts-in-handler:%s" % (m.qualname, q.stmt_key(c)[:40]), R.site(m, c),
                    "%s is called while the error is being handled, or the handler prepared it" % acc.name,
                    "%s is called after the except block has been left and %s: the error is stamped with the type and traceback of 'no exception' - the awaiting "
                    "task's generator.throw(None, error, None) raises TypeError, so the parent fails with that instead of receiving the exception" % (acc.name, why))
    R.check(n >= 3, rule, "accept-error-calls", "asynq/async_task.py", "%d calls of %s examined" % (n, acc.name), "fewer than three calls of the accepting method found")
