"""C10 - a future is completed at most once and reports one consistent outcome."""
import ast

from ..cfg import cfg_of, N, X, ExcHierarchy
from ..roles import Roles
from .. import q, kit
from . import common

EXPLANATION = (
    "Typestate, ownership and ordering rules over futures.py and the completion overrides: every store "
    "to a future's outcome fields (_value/_error, resolved by receiver class over the whole package) "
    "outside constructors and reset_unsafe is dominated by the raising edge of the is-computed test; "
    "outcome stores come in consistent pairs (value with error=None, error with value=None, reset clears "
    "both); both fields are written before _computed(); notification uses safe_trigger inside a handler "
    "covering Exception; every _computed override reaches the base notification on all exits, also when "
    "closing the task's generator raises; value()/error() compute only when uncomputed and value() "
    "re-raises the stored error; ConstFuture/ErrorFuture complete in their constructors."
)

OUTCOME = ("_value", "_error")


def future_family(R, ro):
    return [c for c in R.repo.all_classes() if c.is_subclass_of(ro.FutureBase)]


def run(R):
    R.extra["explanation"] = EXPLANATION
    ro = Roles(R)
    repo = R.repo
    hier = ExcHierarchy(repo)
    fam = future_family(R, ro)
    fb = ro.FutureBase
    # ---- OWN + GUARD: all stores to _value/_error on FutureBase-family receivers
    stores = []
    for f in repo.all_functions():
        for recv, attr, node in q.attr_stores(f.node):
            if attr not in OUTCOME or recv is None:
                continue
            # receiver class
            if recv == "self":
                if f.cls is None or not f.cls.is_subclass_of(fb):
                    continue
            else:
                rc = R.res.expr_class(f, node.value)
                if rc is not None and not any(c.is_subclass_of(fb) for c in rc):
                    continue
                if rc is None:
                    # untyped receiver: a store to ._value/_error of an unknown object in this package
                    # is only interesting if the object can be a future; scoped_value targets are typed
                    # in the .pxd.  Unknown => report as information.
                    R.info("store to %s.%s on an untyped receiver in %s" % (recv, attr, f.qualname))
                    continue
            stores.append((f, recv, attr, node))
    R.units["outcome_stores"] = len(stores)

    def computed_raise_guard(recv):
        def g(nd):
            if nd.kind != "test":
                return None
            k, s, pos = q.atom_test(nd.ast)
            if k == "call" and s == "%s.is_computed" % recv:
                return "F" if pos else "T"
            if k == "is" and set(s) in (set(["_none", "%s._value" % recv]), set(["_futures_none", "%s._value" % recv])):
                return "T" if pos else "F"   # `_value is _none` true == not computed
            return None
        return g

    for f, recv, attr, node in stores:
        st = q.enclosing_stmt(node)
        site = R.site(f, node)
        key = "%s:%s.%s" % (f.qualname, recv, attr)
        if f.name in ("__init__", "reset_unsafe") and recv == "self":
            R.ok("C10.OWN", site, "%s initialises/resets self.%s" % (f.name, attr))
            continue
        cfg = cfg_of(f)
        nodes = cfg.nodes_for(st)
        g = computed_raise_guard(recv)
        p = kit.path_avoiding_guard(cfg, nodes, g, N)
        R.check(p is None, "C10.GUARD", key, site,
                "the store to %s.%s is reached only over the not-computed edge of the is-computed test" % (recv, attr),
                "%s.%s can be overwritten on a future that is already computed: its outcome changes after it was observed" % (recv, attr),
                cfg.fmt_path(p) if p else None)
        # the computed side raises FutureIsAlreadyComputed and cannot reach the store or a normal return
        for gn in kit.guard_edges_exist(cfg, g):
            comp = "T" if g(gn) == "F" else "F"
            starts = [e.dst for e in cfg.out_edges(gn.id, N) if e.label == comp]
            p = cfg.find_path(starts, [cfg.exit], N)
            R.check(p is None, "C10.GUARD", key + ":raises", R.site(f, gn.ast),
                    "on a computed future the setter raises (FutureIsAlreadyComputed) instead of returning",
                    "on a computed future the setter can return normally without raising FutureIsAlreadyComputed",
                    cfg.fmt_path(p) if p else None)
    R.require_min("C10.GUARD", 4)
    R.require_min("C10.OWN", 6)
    # whatever exception a future is completed with can be stored and handed on (no C-level narrowing of the slots it passes)
    common.exception_slot_types(R, "C10.ERR-TYPE", ("futures.FutureBase", "async_task.AsyncTask", "batching.BatchBase", "batching.BatchItemBase"))
    common.annotation_narrowing(R, "C10.ERR-TYPE")

    # ---- CONSISTENT pairs
    def stores_in(f, attr):
        return [n for n in kit.store_nodes(f, attr) if isinstance(n.ast, ast.Assign)]

    for c in fam:
        for mname, m in c.methods.items():
            sv, se = stores_in(m, "_value"), stores_in(m, "_error")
            if not sv and not se:
                continue
            cfg = cfg_of(m)
            site = R.site(m)
            for a, b, an, bn in ((sv, se, "_value", "_error"), (se, sv, "_error", "_value")):
                for n in a:
                    # every path through this store (entry -> n -> exit) also passes a store of the other field
                    before = cfg.find_path([cfg.entry], [n], N, cut_nodes=b)
                    after = cfg.find_path([e.dst for e in cfg.out_edges(n.id, N)], [cfg.exit], N, cut_nodes=b)
                    ok = not (before is not None and after is not None)
                    R.check(ok, "C10.CONSISTENT", "%s:%s-with-%s" % (m.qualname, an, bn), site,
                            "%s: every path that writes self.%s also writes self.%s (one consistent outcome)" % (mname, an, bn),
                            "%s can write self.%s without writing self.%s: a stale %s survives (e.g. after reset_unsafe() the old error is reported next to a new value)"
                            % (mname, an, bn, bn.strip("_")))
            # values: completing with a value clears the error; with an error sets value None; reset clears both
            if mname == "set_value" or mname == "reset_unsafe":
                okv = all(q.is_none(n.ast.value) for n in se)
                R.check(okv and se, "C10.CONSISTENT", "%s:error-none" % m.qualname, site,
                        "%s sets self._error to None" % mname, "%s does not clear self._error" % mname)
            if mname == "set_error":
                okv = all(q.is_none(n.ast.value) for n in sv)
                R.check(okv and sv, "C10.CONSISTENT", "%s:value-none" % m.qualname, site,
                        "set_error sets self._value to None (the computed marker)", "set_error does not set self._value to None")
            if mname == "reset_unsafe":
                okv = all(q.src(n.ast.value) in ("_none", "_futures_none") for n in sv)
                R.check(okv and sv, "C10.CONSISTENT", "%s:value-marker" % m.qualname, site,
                        "reset_unsafe restores the not-computed marker", "reset_unsafe does not restore the not-computed marker")
    R.require_min("C10.CONSISTENT", 8)

    # ---- VISIBLE-FIRST
    for mname in ("set_value", "set_error"):
        m = fb.methods.get(mname)
        R.need(m is not None, "anchor vanished: FutureBase.%s" % mname)
        cfg = cfg_of(m)
        notif = [n for n, c in kit.call_sites(m, lambda c: q.call_name(c) == "self._computed")]
        R.need(notif, "idiom: FutureBase.%s no longer calls self._computed()" % mname)
        for attr in OUTCOME:
            st = stores_in(m, attr)
            p = cfg.find_path([cfg.entry], notif, N, cut_nodes=st)
            R.check(p is None and st, "C10.VISIBLE-FIRST", "%s:%s" % (m.qualname, attr), R.site(m),
                    "self.%s is written before subscribers are notified" % attr,
                    "subscribers can be notified before self.%s is written (they observe an uncomputed or half-written future)" % attr,
                    cfg.fmt_path(p) if p else None)
            late = None
            for n in notif:
                late = late or cfg.find_path([e.dst for e in cfg.out_edges(n.id, N)], st, N)
            R.check(late is None, "C10.VISIBLE-FIRST", "%s:%s:late" % (m.qualname, attr), R.site(m),
                    "self.%s is not written after the notification" % attr, "self.%s is written again after the notification" % attr)
        # on every normal path the setter notifies exactly once
        p = cfg.find_path([cfg.entry], [cfg.exit], N, cut_nodes=notif)
        R.check(p is None, "C10.NOTIFY", "%s:notifies" % m.qualname, R.site(m),
                "%s notifies on every normal path" % mname, "%s can complete the future without notifying subscribers" % mname,
                cfg.fmt_path(p) if p else None)
        p = kit.at_most_once(m, notif, N)
        R.check(p is None, "C10.NOTIFY", "%s:once" % m.qualname, R.site(m), "one notification per completion", "two notifications per completion")

    # ---- NOTIFY
    comp = fb.methods.get("_computed")
    R.need(comp is not None, "anchor vanished: FutureBase._computed")
    # the subscriber list belongs to the future for its whole life: only constructors assign it
    for f in repo.all_functions():
        for recv, attr, node in q.attr_stores(f.node):
            if attr != "on_computed" or recv is None:
                continue
            if recv == "self" and (f.cls is None or not f.cls.is_subclass_of(fb)):
                continue
            R.check(f.name == "__init__" or (f.parent is None and f.cls is None and f.name.startswith("_init")), "C10.NOTIFY", "%s:on_computed-store" % f.qualname, R.site(f, node),
                    "on_computed is assigned only while the future is constructed",
                    "%s replaces a future's on_computed hook after construction: subscribers registered before (or after a reset_unsafe()) are never notified of a later completion" % f.qualname)
    # ... directly or by running a constructor again on a live object (`FutureBase.__init__(self)` from a method that is not a constructor)
    for f in repo.all_functions():
        if f.name == "__init__" or f.module.name.startswith("tests"):
            continue
        for c in q.calls(f.node):
            recv, attr = q.attr_call(c)
            if attr != "__init__" or recv is None:
                continue
            tgt = R.repo.resolve_dotted(f.module, q.dotted(recv) or "") if q.dotted(recv) else None
            is_future_ctor = (tgt and tgt[0] == "class" and (tgt[1] is fb or tgt[1].is_subclass_of(fb))) or (q.src(recv).startswith("super(") and f.cls is not None and f.cls.is_subclass_of(fb))
            if is_future_ctor:
                R.violation("C10.NOTIFY", "%s:reconstructs" % f.qualname, R.site(f, c),
                            "%s runs a future's constructor on a live object: it replaces on_computed by a fresh hook, so every subscriber registered before "
                            "(e.g. before a reset_unsafe()) is silently dropped and never told of the next completion" % f.qualname)
    trig = kit.call_sites(comp, lambda c: (q.call_name(c) or "").startswith("self.on_computed"))
    if not trig:
        R.violation("C10.NOTIFY", comp.qualname + ":trigger", R.site(comp),
                    "FutureBase._computed does not trigger self.on_computed: completion does not notify the subscribers held by the future")
    for n, c in trig:
        nm = q.call_name(c)
        R.check(nm == "self.on_computed.safe_trigger" and len(c.args) == 1 and q.src(c.args[0]) == "self", "C10.NOTIFY",
                "%s:safe_trigger" % comp.qualname, R.site(comp, c),
                "subscribers are notified with safe_trigger(self): every handler runs even if one raises",
                "notification uses %s: a raising subscriber prevents the others from being notified" % nm)
        trys = kit.enclosing_try_handlers(c)
        cov = [h for t in trys[:1] for h in t.handlers if kit.handler_covers(h, "Exception", hier) and not any(isinstance(x, ast.Raise) for x in ast.walk(h))]
        R.check(bool(cov), "C10.NOTIFY", "%s:swallow" % comp.qualname, R.site(comp, c),
                "an Exception raised by a subscriber is contained (handler covering Exception, no re-raise)",
                "an Exception raised by a subscriber propagates out of the completion")
    notify_override_rule(R, ro, "C10.NOTIFY-OVERRIDE")
    # what runs before the notification cannot fail: the diagnostic lines there (DUMP_COMPUTED) print the future and its value through
    # debug.str()/debug.repr(), which contain a user __str__/__repr__ that raises only as long as they are qcore's safe_str/safe_repr
    ccfg_ = cfg_of(comp)
    before = set()
    for n, c in trig:
        for x in ccfg_.nodes:
            if x is not n and ccfg_.find_path([x], [n], N) is not None:
                before.add(x.id)
    uses_debug = any((q.call_name(cc) or "") in ("debug.str", "debug.repr") for x in ccfg_.nodes if x.id in before for cc in kit.node_calls(x))
    if uses_debug:
        from .c18 import safe_str_rule
        safe_str_rule(R, "C10.NOTIFY", ": the dump line in FutureBase._computed then raises for a value whose __repr__ fails, before on_computed fires - "
                      "subscribers are never notified and value() reports FutureIsAlreadyComputed")

    # a lazily computed Future whose provider raises - whatever it raises - is completed with that exception (once), so that the
    # provider is not run again and subscribers are told
    fut = repo.cls("futures.Future")
    fc = fut.methods.get("_compute")
    R.need(fc is not None, "anchor vanished: Future._compute")
    fcfg_ = cfg_of(fc)
    hier_ = ExcHierarchy(repo)
    for n_, c_ in kit.call_sites(fc, lambda c: q.src(c.func) == "self._value_provider"):
        for t_ in kit.enclosing_try_handlers(c_)[:1]:
            for h_ in t_.handlers:
                hn_ = kit.one(fcfg_.nodes_for(h_), "handler node")
                stores_ = [x for x, cc in kit.call_sites(fc, lambda cc: q.call_name(cc) == "self.set_error" and cc.args and isinstance(cc.args[0], ast.Name)
                                                        and cc.args[0].id == h_.name) if any(cc is y for y in ast.walk(h_))]

                def computed_(nd):
                    if nd.kind != "test":
                        return None
                    k, s, pos = q.atom_test(nd.ast)
                    if k == "call" and s == "self.is_computed":
                        return "T" if pos else "F"
                    return None
                p_ = fcfg_.find_path([hn_], [fcfg_.exit, fcfg_.raise_exit], N, cut_nodes=stores_,
                                     keep_edge=lambda e: not (computed_(fcfg_.nodes[e.src]) is not None and e.label == computed_(fcfg_.nodes[e.src])))
                R.check(p_ is None, "C10.COMPUTE-ONCE", "%s:handler:%s" % (fc.qualname, q.src(h_.type) if h_.type else "all"), R.site(fc, h_),
                        "a provider failure caught as %s completes the future with that exception" % (q.src(h_.type) if h_.type else "anything"),
                        "the handler for %s leaves without completing the future: it stays uncomputed, the provider runs again on every value(), "
                        "and each call reports a different error object" % (q.src(h_.type) if h_.type else "anything"), fcfg_.fmt_path(p_) if p_ else None)
                # error() reports the outcome by returning it: either it shields its _compute() call, or the provider's failure,
                # once stored, does not leave _compute as an exception (value() raises it through raise_if_error())
                em_ = fb.methods.get("error")
                shielded_ = em_ is not None and all(any(kit.handler_covers(hh, "Exception", hier_) for tt in kit.enclosing_try_handlers(cc) for hh in tt.handlers)
                                                    for nn, cc in kit.call_sites(em_, lambda c: q.call_name(c) == "self._compute"))
                pr_ = fcfg_.find_path(stores_, [fcfg_.raise_exit], N) if stores_ else None
                R.check(shielded_ or pr_ is None, "C10.CONSISTENT", "%s:handler:%s:error-returns" % (fc.qualname, q.src(h_.type) if h_.type else "all"), R.site(fc, h_),
                        "a provider failure that has been stored is not raised again by _compute(): the first error() returns it like every later one",
                        "the handler stores the provider's exception and raises it again: the first error() call on the future raises the exception "
                        "that every later error() call returns - error() does not report one outcome", fcfg_.fmt_path(pr_) if pr_ else None)
    # the provider's exception is a user object: bookkeeping stored on it (prepare_for_reraise) may be refused, and a refusal
    # inside the handler that completes the future leaves it uncomputed
    from .c02 import stamp_contained
    stamp_contained(R, ro, hier_, "C10.COMPUTE-ONCE", classes=list(dict((c.qualname, c) for c in [fut, fb] + [c for c in repo.subclasses(fb, strict=True) if c.module.name == "futures"]).values()), min_n=0)
    # value() of a task is wait_for(): it returns only when the task is computed (a future is never handed out half done)
    common.wait_for_exits(R, ro, "C10.COMPUTE-ONCE")
    # a subscriber's exception is swallowed in _computed(): what the handler does with the exception object (a user object) must not
    # raise in turn - an unguarded repr()/str()/%-format of it escapes from set_value(), the provider wrapper takes that for a provider
    # failure and set_error() reports FutureIsAlreadyComputed once, the value ever after
    n_sw = 0
    for cls_ in list(dict((c.qualname, c) for c in [fb] + list(repo.subclasses(fb, strict=True))).values()):
        cm_ = cls_.methods.get("_computed")
        if cm_ is None or cls_.module.name.startswith("tests"):
            continue
        for h in [x for x in q.scope_nodes(cm_.node) if isinstance(x, ast.ExceptHandler) and x.name]:
            if any(isinstance(y, ast.Raise) for y in ast.walk(h)):
                continue
            n_sw += 1
            bad = []
            for y in ast.walk(h):
                if isinstance(y, ast.Call) and isinstance(y.func, ast.Name) and y.func.id in ("repr", "str", "format", "ascii") and any(isinstance(a, ast.Name) and a.id == h.name for a in y.args):
                    bad.append(y)
                elif isinstance(y, ast.BinOp) and isinstance(y.op, ast.Mod) and any(isinstance(z, ast.Name) and z.id == h.name and isinstance(getattr(z, "_parent", None), (ast.BinOp, ast.Tuple)) for z in ast.walk(y.right)):
                    bad.append(y)
                elif isinstance(y, ast.FormattedValue) and isinstance(y.value, ast.Name) and y.value.id == h.name:
                    bad.append(y)
                elif isinstance(y, ast.Call) and isinstance(y.func, ast.Attribute) and y.func.attr == "format" and any(isinstance(a, ast.Name) and a.id == h.name for a in y.args):
                    bad.append(y)
            R.check(not bad, "C10.NOTIFY", "%s:swallow-safe:%s" % (cm_.qualname, h.name), R.site(cm_, bad[0] if bad else h),
                    "the handler that swallows a subscriber's exception converts it to text only through the safe converters (debug.repr / debug.str)",
                    "%s reports a subscriber's exception with `%s`: a user exception whose __repr__/__str__ raises escapes from set_value() - Future._compute() "
                    "takes that for a failure of the value provider and calls set_error(), so the first value() raises FutureIsAlreadyComputed and every later "
                    "one returns the value (one future, two reports)" % (cm_.qualname, q.src(bad[0])[:60] if bad else ""))
    R.need(n_sw >= 1, "idiom: no _computed() swallows its subscribers' exceptions any more")
    # an "in progress" flag set by a _compute() is cleared when that computation ends, however it ends: after reset_unsafe() (or after an
    # exception that left the future without an outcome) the future is computed again, and a flag that stays set refuses that for ever
    for cls_ in list(dict((c.qualname, c) for c in [fb] + list(repo.subclasses(fb, strict=True))).values()):
        cm = cls_.methods.get("_compute")
        if cm is None or cls_.module.name.startswith("tests"):
            continue
        ccfg2 = cfg_of(cm)
        sets_ = {}
        for n in ccfg2.nodes:
            if n.kind == "stmt" and isinstance(n.ast, ast.Assign) and len(n.ast.targets) == 1 and isinstance(n.ast.targets[0], ast.Attribute) \
                    and q.src(n.ast.targets[0].value) == "self" and isinstance(n.ast.value, ast.Constant) and isinstance(n.ast.value.value, bool):
                sets_.setdefault(n.ast.targets[0].attr, {}).setdefault(n.ast.value.value, []).append(n)
        for fld, by in sets_.items():
            if True not in by:
                continue
            # tested in the same method with a raise on the set side: a guard flag
            guards_ = [x for x in ccfg2.nodes if x.kind == "test" and q.atom_test(x.ast)[0] == "truth" and q.atom_test(x.ast)[1] == "self." + fld]
            if not guards_:
                continue
            after = [e.dst for sn in by[True] for e in ccfg2.out_edges(sn.id, X)]
            pe = ccfg2.find_path(after, [ccfg2.exit, ccfg2.raise_exit], X, cut_nodes=by.get(False, []))
            R.check(pe is None and by.get(False), "C10.COMPUTE-ONCE", "%s:%s:cleared" % (cm.qualname, fld), R.site(cm, by[True][0].ast),
                    "self.%s is cleared on every way out of %s" % (fld, cm.name),
                    "%s sets the guard flag self.%s and can leave without clearing it: a later computation of the same future - after reset_unsafe(), or after "
                    "an interrupt that left it without an outcome - is refused for ever (value(), error() and calling it raise instead of reporting an outcome)"
                    % (cm.qualname, fld), ccfg2.fmt_path(pe) if pe else None)
    # ---- COMPUTE-ONCE
    for mname in ("value", "error"):
        m = fb.methods.get(mname)
        R.need(m is not None, "anchor vanished: FutureBase.%s" % mname)
        cfg = cfg_of(m)
        comps = [n for n, c in kit.call_sites(m, lambda c: q.call_name(c) == "self._compute")]
        g = computed_raise_guard("self")
        p = kit.path_avoiding_guard(cfg, comps, g, N)
        R.check(p is None and comps, "C10.COMPUTE-ONCE", m.qualname, R.site(m),
                "%s() runs the computation only when the future is not computed" % mname,
                "%s() can run the computation of an already computed future again" % mname, cfg.fmt_path(p) if p else None)
        rets = [n for n in cfg.nodes if n.kind == "stmt" and isinstance(n.ast, ast.Return)]
        want = "self._value" if mname == "value" else "self._error"
        R.check(rets and all(n.ast.value is not None and q.src(n.ast.value) == want for n in rets), "C10.COMPUTE-ONCE", m.qualname + ":returns", R.site(m),
                "%s() returns %s" % (mname, want), "%s() does not return %s" % (mname, want))
        if mname == "value":
            rie = [n for n, c in kit.call_sites(m, lambda c: q.call_name(c) == "self.raise_if_error")]
            p = cfg.find_path([cfg.entry], rets, N, cut_nodes=rie)
            inline = False
            R.check((p is None and rie) or inline, "C10.COMPUTE-ONCE", m.qualname + ":raises-error", R.site(m),
                    "value() re-raises the stored error before returning", "value() can return although an error is stored", cfg.fmt_path(p) if p else None)
    # every other caller of <future>._compute() in the package carries the same guard
    for f in repo.all_functions():
        if f.cls is fb and f.name in ("value", "error"):
            continue
        for n, c in kit.call_sites(f, lambda c: q.attr_call(c)[1] == "_compute" and isinstance(q.attr_call(c)[0], (ast.Name, ast.Attribute))):
            recv = q.dotted(q.attr_call(c)[0])
            if recv is None or recv.split(".")[-1][0].isupper():
                continue  # class-qualified call of a base implementation
            cfg = cfg_of(f)
            g = computed_raise_guard(recv)
            p = kit.path_avoiding_guard(cfg, [n], g, N)
            R.check(p is None, "C10.COMPUTE-ONCE", "%s:%s" % (f.qualname, q.stmt_key(c)), R.site(f, c),
                    "%s runs only when %s is not computed" % (q.src(c), recv),
                    "%s can run on a future that is already computed: its underlying computation (value provider, flush) runs a second time" % q.src(c),
                    cfg.fmt_path(p) if p else None)
    rie = fb.methods.get("raise_if_error")
    R.need(rie is not None, "anchor vanished: FutureBase.raise_if_error")
    # (decided on the flow graph: `if self._error is not None: ...` and the guard clause `if self._error is None: return` are the same)
    rcfg_ = cfg_of(rie)
    raising_ = [n for n in rcfg_.nodes if n.kind == "stmt" and (isinstance(n.ast, ast.Raise) or any((q.call_name(c) or "").endswith("reraise") for c in kit.node_calls(n)))]

    def has_error(nd):
        if nd.kind != "test":
            return None
        k_, s_, pos_ = q.atom_test(nd.ast)
        if k_ == "isnone" and s_ == "self._error":
            return "F" if pos_ else "T"
        return None
    truthy_ = [n for n in rcfg_.nodes if n.kind == "test" and q.atom_test(n.ast)[0] == "truth" and q.atom_test(n.ast)[1] == "self._error"]
    pid_ = kit.path_avoiding_guard(rcfg_, raising_, has_error, N, dead_ok=True) if raising_ else None
    okt = bool(raising_) and pid_ is None and not truthy_ and bool(kit.guard_edges_exist(rcfg_, has_error))
    R.check(okt, "C10.COMPUTE-ONCE", rie.qualname + ":identity", R.site(rie),
            "raise_if_error tests `self._error is not None` (identity)",
            "raise_if_error tests `%s`: a stored error that is falsy (an exception class defining __len__/__bool__) is not raised by value() although error() reports it"
            % (q.src(truthy_[0].ast) if truthy_ else ("nothing" if not raising_ else "something else than `self._error is None`")))
    rr = [c for c in q.calls(rie.node) if (q.call_name(c) or "").endswith("reraise") and c.args and q.src(c.args[0]) == "self._error"]
    raises = [n for n in ast.walk(rie.node) if isinstance(n, ast.Raise) and n.exc is not None and q.src(n.exc) == "self._error"]
    R.check(bool(rr or raises), "C10.COMPUTE-ONCE", rie.qualname, R.site(rie),
            "raise_if_error raises the stored error object itself", "raise_if_error does not raise the stored error object")
    rr_nodes = [n for n, c in kit.call_sites(rie, lambda c: (q.call_name(c) or "").endswith("reraise") and c.args and q.src(c.args[0]) == "self._error")]
    if rr_nodes:
        common.stamp_trusted(R, "C10.CONSISTENT", rie, rr_nodes, "self._error", False, "qcore's reraise() in raise_if_error")
    ic = fb.methods.get("is_computed")
    R.need(ic is not None, "anchor vanished: FutureBase.is_computed")
    rets = [n for n in ast.walk(ic.node) if isinstance(n, ast.Return)]
    okc = len(rets) == 1 and q.atom_test(rets[0].value)[:2] in (("is", ("_none", "self._value")),) and q.atom_test(rets[0].value)[2] is False
    R.check(okc, "C10.COMPUTE-ONCE", ic.qualname, R.site(ic), "is_computed() is `self._value is not _none`",
            "is_computed() no longer reports exactly whether an outcome has been stored")
    call = fb.methods.get("__call__")
    R.need(call is not None, "anchor vanished: FutureBase.__call__")
    rets = [n for n in ast.walk(call.node) if isinstance(n, ast.Return)]
    R.check(len(rets) == 1 and q.src(rets[0].value) == "self.value()", "C10.COMPUTE-ONCE", call.qualname, R.site(call),
            "calling a future is value()", "calling a future is no longer value()")

    # ---- CONST
    for cname, setter in (("ConstFuture", "set_value"), ("ErrorFuture", "set_error")):
        c = repo.cls("futures." + cname)
        init = c.methods.get("__init__")
        R.need(init is not None, "anchor vanished: %s.__init__" % cname)
        cfg = cfg_of(init)
        p0 = q.param_names(init.node)[1]
        calls = [n for n, cc in kit.call_sites(init, lambda cc: q.call_name(cc) == "self." + setter and cc.args and q.src(cc.args[0]) == p0)]
        p = cfg.find_path([cfg.entry], [cfg.exit], N, cut_nodes=calls)
        R.check(p is None and calls, "C10.CONST", c.qualname, R.site(init),
                "%s is complete from construction (%s(%s) on every path)" % (cname, setter, p0),
                "%s can be constructed without being completed with its argument" % cname, cfg.fmt_path(p) if p else None)
    # AsyncTask completion helpers carry the guard (they raise when computed)
    at = ro.AsyncTask
    n_direct = 0
    for m in at.methods.values():
        if m.name in ("set_value", "set_error", "__init__"):
            continue
        for setter in ("set_value", "set_error"):
            calls_ = kit.call_sites(m, lambda cc: q.call_name(cc) == "self." + setter)
            if not calls_:
                continue
            n_direct += 1
            cfg = cfg_of(m)
            sets = [n for n, cc in calls_]
            g = computed_raise_guard("self")
            p = kit.path_avoiding_guard(cfg, sets, g, N)
            R.check(p is None, "C10.GUARD", "%s:%s" % (m.qualname, setter), R.site(m),
                    "%s calls %s only when the task is not computed" % (m.name, setter), "%s can complete an already computed task" % m.name,
                    cfg.fmt_path(p) if p else None)
    R.units["asynctask_direct_completions"] = n_direct

def notify_override_rule(R, ro, rule):
    """Every _computed override reaches the base notification on every exit."""
    fb = ro.FutureBase
    fam = future_family(R, ro)
    # overrides reach the base notification on every exit
    esc = common.Escape(R, ro)
    for c in fam:
        if c is fb or "_computed" not in c.methods:
            continue
        m = c.methods["_computed"]
        cfg = cfg_of(m)
        base = [n for n, cc in kit.call_sites(m, lambda cc: q.attr_call(cc)[1] == "_computed" and (
            (q.dotted(q.attr_call(cc)[0]) or "").endswith("FutureBase") or isinstance(q.attr_call(cc)[0], ast.Call)))]
        p = cfg.find_path([cfg.entry], [cfg.exit], N, cut_nodes=base)
        R.check(p is None and base, rule, m.qualname, R.site(m),
                "%s._computed reaches FutureBase._computed on every normal path" % c.name,
                "%s._computed can return without notifying the subscribers" % c.name, cfg.fmt_path(p) if p else None)
        p = kit.at_most_once(m, base, N)
        R.check(p is None, rule, m.qualname + ":once", R.site(m),
                "the base notification runs at most once", "the base notification can run twice")
        # user code entered before the notification (generator.close()) must not be able to bypass it
        gf = "self." + ro.generator_field()
        for n, cc in kit.call_sites(m, lambda cc: q.attr_call(cc)[1] == "close" and q.dotted(q.attr_call(cc)[0]) == gf):
            e, caps, path = esc.escapes_function(m, n, "BaseException", cut_nodes=base)
            R.check(not e, rule, m.qualname + ":close-raises", R.site(m, cc),
                    "if closing the generator raises, the subscribers are still notified (the notification is in a finally)",
                    "if closing the task's generator raises (a finally block that raises or yields), the task is computed but its subscribers are never notified",
                    cfg.fmt_path(path) if path else None)

