"""C11 - batch lifecycle: pending to flushed or cancelled, once; no item left pending."""
import ast

from ..cfg import cfg_of, N, X, ExcHierarchy
from ..roles import Roles
from .. import q, kit
from . import common

EXPLANATION = (
    "Guard, ordering and capture rules over batching.py: flush() raises BatchingError on a finished "
    "batch before doing anything and computes through error() (never re-raising the flush error); "
    "cancel() returns before any effect when finished and otherwise completes the batch with an error; "
    "is_flushed() means 'finished' (flushed or cancelled); _compute switches the active batch before the "
    "flush body runs, captures BaseException and stores it unless already computed; _computed switches, "
    "completes every unset item (with the batch's own error, else AssertionError) before announcing the "
    "batch; an item can only join a batch that is not finished and its _compute flushes a pending batch; "
    "DebugBatch replaces the thread-local slot only when it still holds itself."
)


def run(R):
    R.extra["explanation"] = EXPLANATION
    ro = Roles(R)
    repo = R.repo
    hier = ExcHierarchy(repo)
    bb = ro.BatchBase
    # ---- FLUSH-GUARD
    fl = bb.methods.get("flush")
    R.need(fl is not None, "anchor vanished: BatchBase.flush")
    from .c05 import _flush_guard, item_once
    _flush_guard(R, fl, "C11.FLUSH-GUARD")
    # flush computes through error() so that a failing body does not raise out of flush()
    cfg = cfg_of(fl)
    via_value = kit.call_sites(fl, lambda c: q.call_name(c) in ("self.value", "self", "self._flush"))
    R.check(not via_value, "C11.FLUSH-NORAISE", fl.qualname, R.site(fl),
            "flush() computes the batch through error(), which stores a failure instead of raising it",
            "flush() computes through %s: a failing flush body raises out of flush()" % ", ".join(q.src(c) for n, c in via_value))
    # ... and every flush() that returns has finished the batch: no way round the computing call (an early return for an empty batch
    # leaves it pending and the active batch of its kind, and a second flush() passes instead of raising BatchingError)
    comps_ = [n for n, c in kit.call_sites(fl, lambda c: q.call_name(c) in ("self.error", "self._compute", "self.value", "self"))]
    pf = cfg.find_path([cfg.entry], [cfg.exit], N, cut_nodes=comps_)
    R.check(pf is None and comps_, "C11.FLUSH-NORAISE", fl.qualname + ":always-finishes", R.site(fl),
            "every flush() of a pending batch that returns has computed the batch",
            "flush() can return without computing the batch (e.g. an early return when it has no items): the batch stays pending, the flush body is not run, "
            "and flushing it again passes silently instead of raising BatchingError", cfg.fmt_path(pf) if pf else None)
    # ... and the flush body is entered once: while it runs the batch is still pending, so a request for the value of one of its
    # unset items (from the body, from a subscriber of an item it has just set) comes back to flush()/_compute().  A flag, set
    # before the body is entered and tested first (raising when set), turns that nested request into an error.
    bc_ = bb.methods.get("_compute")
    R.need(bc_ is not None, "anchor vanished: BatchBase._compute")
    guarded = False
    why = "no boolean field is set before the flush body is entered"
    for owner in (bc_,):        # (flush() is not the only way in: batch.value() / batch.error() compute the batch without it)
        ocfg = cfg_of(owner)
        entries = [n for n, c in kit.call_sites(owner, lambda c: q.call_name(c) in ("self._flush",) or (owner is fl and q.call_name(c) in ("self.error", "self._compute")))]
        sets_ = {}
        for n in ocfg.nodes:
            if n.kind == "stmt" and isinstance(n.ast, ast.Assign) and len(n.ast.targets) == 1 and isinstance(n.ast.targets[0], ast.Attribute) \
                    and q.src(n.ast.targets[0].value) == "self" and isinstance(n.ast.value, ast.Constant) and n.ast.value.value is True:
                sets_.setdefault(n.ast.targets[0].attr, []).append(n)
        for fld, nodes_ in sets_.items():
            if not entries or ocfg.find_path([ocfg.entry], entries, N, cut_nodes=nodes_) is not None:
                continue        # the body can be entered without the flag being set

            def clear(nd, fld=fld):
                if nd.kind != "test":
                    return None
                k_, s_, pos_ = q.atom_test(nd.ast)
                if k_ == "truth" and s_ == "self." + fld:
                    return "F" if pos_ else "T"
                return None
            if kit.path_avoiding_guard(ocfg, nodes_, clear, N) is None and kit.guard_edges_exist(ocfg, clear):
                guarded = True
            else:
                why = "self.%s is set before the flush body but not tested first" % fld
    R.check(guarded, "C11.FLUSH-NORAISE", bb.qualname + ":no-reentry", R.site(bc_),
            "the flush body cannot be entered while it is running (a flag is tested, then set, before self._flush())",
            "nothing stops the flush body from being entered again while it runs (%s): item.value() on an unset item of the batch being flushed - from the "
            "body, or from a subscriber of an item it has just set - calls flush() again, the body runs twice for one flush, and the nested run's "
            "FutureIsAlreadyComputed becomes the batch's outcome" % why)
    # ... and flush() releases the items only after the computing call has returned: on the exceptional way out (a nested request that
    # was refused with BatchingError comes through here while the outer flush is still setting items) they stay
    clears_ = [n for n, c in kit.call_sites(fl, lambda c: q.src(c.func) in ("self.items.clear",)) ] + \
        [n for n in cfg.nodes if n.kind == "stmt" and isinstance(n.ast, (ast.Assign, ast.Delete)) and "self.items" in q.src(n.ast).split("=")[0]]
    exc_starts = [e.dst for cn in comps_ for e in cfg.out_edges(cn.id, X) if e.implicit or e.label == "exc"]
    pcl = cfg.find_path(exc_starts, clears_, X) if clears_ and exc_starts else None
    R.check(pcl is None, "C11.FLUSH-NORAISE", fl.qualname + ":items-kept-on-failure", R.site(fl),
            "flush() empties self.items only after the batch has been computed",
            "flush() empties self.items also when the computing call raised (e.g. in a finally clause): a nested flush() that is refused while the batch is being "
            "flushed clears the item list under the running flush body - the remaining items are never completed and the batch announces its completion before them",
            cfg.fmt_path(pcl) if pcl else None)
    # ---- IS-FLUSHED means finished
    isf = bb.methods.get("is_flushed")
    R.need(isf is not None, "anchor vanished: BatchBase.is_flushed")
    rets = [n for n in ast.walk(isf.node) if isinstance(n, ast.Return)]
    ok = len(rets) == 1 and q.src(rets[0].value) in ("self.is_computed()", "self._value is not _none")
    R.check(ok, "C11.IS-FLUSHED", isf.qualname, R.site(isf),
            "is_flushed() is true exactly when the batch is finished (flushed or cancelled)",
            "is_flushed() no longer means 'finished': a cancelled or failed batch looks pending to the guards that use it "
            "(items can be added to it; an item's value() tries to flush it again)")
    # state queries only look: asking a pending batch whether it is flushed / cancelled / empty (which str(), to_str() and the debug
    # dumps do) must not compute - i.e. flush - it
    from .c18 import guarded_by_computed
    for qn_ in ("is_flushed", "is_cancelled", "is_empty"):
        qm = bb.methods.get(qn_)
        if qm is None:
            continue
        for c_ in q.calls(qm.node):
            if q.call_name(c_) in ("self.error", "self.value", "self", "self._compute", "self.flush"):
                R.check(guarded_by_computed(qm, c_), "C11.IS-FLUSHED", "%s:%s" % (qm.qualname, q.src(c_)), R.site(qm, c_),
                        "%s() reads %s only of a finished batch" % (qn_, q.src(c_)),
                        "%s() evaluates %s on a batch that may be pending: the question itself runs the flush body, finishes the batch and switches "
                        "the active batch (printing a pending batch flushes it)" % (qn_, q.src(c_)))
    # ---- CANCEL-NOOP
    ca = bb.methods.get("cancel")
    R.need(ca is not None, "anchor vanished: BatchBase.cancel")
    ccfg = cfg_of(ca)

    def unc(nd):
        if nd.kind != "test":
            return None
        k, s, pos = q.atom_test(nd.ast)
        if k == "call" and s in ("self.is_computed", "self.is_flushed"):
            return "F" if pos else "T"
        return None
    effects = [n for n, c in kit.call_sites(ca, lambda c: q.call_name(c) in ("self.set_error", "self.set_value", "self._cancel", "self._computed"))]
    R.need(effects, "idiom: BatchBase.cancel no longer completes the batch")
    p = kit.path_avoiding_guard(ccfg, effects, unc, N)
    R.check(p is None, "C11.CANCEL-NOOP", ca.qualname, R.site(ca),
            "cancel() touches the batch only when it is not finished", "cancel() can act on a finished batch (FutureIsAlreadyComputed / second cancellation)",
            ccfg.fmt_path(p) if p else None)
    for g in kit.guard_edges_exist(ccfg, unc):
        fin = "T" if unc(g) == "F" else "F"
        starts = [e.dst for e in ccfg.out_edges(g.id, N) if e.label == fin]
        p = ccfg.find_path(starts, [ccfg.raise_exit], N)
        R.check(p is None, "C11.CANCEL-NOOP", ca.qualname + ":noraise", R.site(ca),
                "on a finished batch cancel() returns without raising", "cancel() can raise on a finished batch", ccfg.fmt_path(p) if p else None)
    sets = [n for n, c in kit.call_sites(ca, lambda c: q.call_name(c) == "self.set_error")]
    p = ccfg.find_path([ccfg.entry], [ccfg.exit], N, cut_nodes=sets,
                       keep_edge=lambda e: not (unc(ccfg.nodes[e.src]) is not None and e.label != unc(ccfg.nodes[e.src])))
    R.check(p is None and sets, "C11.CANCEL-NOOP", ca.qualname + ":completes", R.site(ca),
            "cancel() on a pending batch completes it with an error", "cancel() on a pending batch can return without completing it",
            ccfg.fmt_path(p) if p else None)
    ep_c = q.param_names(ca.node)[1] if len(q.param_names(ca.node)) > 1 else "error"
    dflt = [n for n in ccfg.nodes if n.kind == "stmt" and isinstance(n.ast, ast.Assign) and any(q.src(t) == ep_c for t in n.ast.targets)
            and isinstance(n.ast.value, ast.Call) and (q.call_name(n.ast.value) or "").endswith("BatchCancelledError")]

    def none_given(nd):
        if nd.kind != "test":
            return None
        k, s, pos = q.atom_test(nd.ast)
        if k == "isnone" and s == ep_c:
            return "F" if pos else "T"       # the edge on which an error WAS given
        return None
    # completing with the caller's `error` unchanged is only allowed when one was given: otherwise the default is substituted first
    # (the same decision written as a conditional expression in the completing call counts: `X() if error is None else error`)
    def substitutes(call):
        a = call.args[0] if call.args else None
        if not isinstance(a, ast.IfExp):
            return False
        k, s, pos = q.atom_test(a.test)
        dflt_e, given_e = (a.body, a.orelse) if pos else (a.orelse, a.body)
        return k == "isnone" and s == ep_c and isinstance(dflt_e, ast.Call) and (q.call_name(dflt_e) or "").endswith("BatchCancelledError") and q.src(given_e) == ep_c
    def direct_default(call):
        a = call.args[0] if call.args else None
        return isinstance(a, ast.Call) and (q.call_name(a) or "").endswith("BatchCancelledError")
    plain_sets = [n for n, c in kit.call_sites(ca, lambda c: q.call_name(c) == "self.set_error") if not substitutes(c) and not direct_default(c)]
    inline_ok = [n for n, c in kit.call_sites(ca, lambda c: q.call_name(c) == "self.set_error") if substitutes(c) or direct_default(c)]
    p = ccfg.find_path([ccfg.entry], plain_sets, N, cut_nodes=dflt,
                       keep_edge=lambda e: not (none_given(ccfg.nodes[e.src]) is not None and e.label == none_given(ccfg.nodes[e.src])))
    R.check(p is None and (dflt or inline_ok), "C11.CANCEL-NOOP", ca.qualname + ":default-error", R.site(ca),
            "cancel() without an error completes the batch with a BatchCancelledError",
            "cancel() without an error can complete the batch with error None: the batch then counts as flushed successfully and its items get the 'not set' AssertionError",
            ccfg.fmt_path(p) if p else None)
    # ... and only then: an error the caller supplied is what the batch and its items are completed with
    def none_edge(nd):
        if nd.kind != "test":
            return None
        k, s, pos = q.atom_test(nd.ast)
        if k == "isnone" and s == ep_c:
            return "T" if pos else "F"
        return None
    if dflt:
        p = kit.path_avoiding_guard(ccfg, dflt, none_edge, N)
        R.check(p is None, "C11.CANCEL-NOOP", ca.qualname + ":given-error-kept", R.site(ca),
                "the default BatchCancelledError replaces `%s` only when none was given" % ep_c,
                "cancel(error) can replace the error it was given by a fresh BatchCancelledError: the batch and its items report a different exception than the one "
                "the canceller supplied", ccfg.fmt_path(p) if p else None)
    common.exception_slot_types(R, "C11.CANCEL-NOOP", ("futures.FutureBase", "batching.BatchBase"))
    # ---- SWITCH-FIRST
    comp = bb.methods.get("_compute")
    R.need(comp is not None, "anchor vanished: BatchBase._compute")
    pcfg = cfg_of(comp)
    sw = [n for n, c in kit.call_sites(comp, lambda c: q.call_name(c) == "self._try_switch_active_batch")]
    flush = [n for n, c in kit.call_sites(comp, lambda c: q.call_name(c) == "self._flush")]
    R.need(flush, "idiom: BatchBase._compute no longer calls self._flush()")
    p = pcfg.find_path([pcfg.entry], flush, N, cut_nodes=sw)
    R.check(p is None and sw, "C11.SWITCH-FIRST", comp.qualname, R.site(comp),
            "the batch stops being the active batch before its flush body runs",
            "the flush body can run while the batch is still the active one: requests created during the flush join the batch that is being flushed",
            pcfg.fmt_path(p) if p else None)
    cd = bb.methods.get("_computed")
    R.need(cd is not None, "anchor vanished: BatchBase._computed")
    dcfg = cfg_of(cd)
    sw2 = [n for n, c in kit.call_sites(cd, lambda c: q.call_name(c) == "self._try_switch_active_batch")]
    loops = [dcfg.nodes_for(n)[0] for n in ast.walk(cd.node) if isinstance(n, ast.For) and common.iterates_items(cd.node, n.iter)]
    p = dcfg.find_path([dcfg.entry], loops, N, cut_nodes=sw2)
    R.check(p is None and sw2, "C11.SWITCH-FIRST", cd.qualname, R.site(cd),
            "a finishing batch (also a cancelled one) stops being the active batch before its items are completed",
            "a cancelled batch can complete its items while still being the active batch", dcfg.fmt_path(p) if p else None)
    # ---- CAPTURE / ITEMS
    from .c02 import batch_err
    batch_err(R, ro, "C11.CAPTURE", hier)
    # success path: the batch is completed with a value after the flush body
    sv = [n for n, c in kit.call_sites(comp, lambda c: q.call_name(c) == "self.set_value")]
    starts = []
    for f_ in flush:
        starts += [e.dst for e in pcfg.out_edges(f_.id, N) if e.label != "exc"]
    p = pcfg.find_path(starts, [pcfg.exit], N, cut_nodes=sv)
    R.check(p is None and sv, "C11.CAPTURE", comp.qualname + ":success", R.site(comp),
            "after a successful flush body the batch is completed (set_value) before _compute returns",
            "a successful flush body can leave the batch pending", pcfg.fmt_path(p) if p else None)
    # cancelled => _cancel hook is called with the error known
    cancels = [n for n, c in kit.call_sites(cd, lambda c: q.call_name(c) == "self._cancel")]
    R.check(bool(cancels), "C11.CANCEL-HOOK", cd.qualname, R.site(cd), "_computed calls the _cancel hook for a batch that finished with an error",
            "the _cancel hook is never called")
    errn = set(t.id for n in q.scope_nodes(cd.node) if isinstance(n, ast.Assign) and q.src(n.value) in ("self.error()", "self._error") for t in n.targets if isinstance(t, ast.Name))
    flags = set(t.id for n in q.scope_nodes(cd.node) if isinstance(n, ast.Assign) and isinstance(n.value, ast.Compare) and q.atom_test(n.value)[0] == "isnone"
                and q.atom_test(n.value)[1] in errn and not q.atom_test(n.value)[2] for t in n.targets if isinstance(t, ast.Name))

    def failed(nd):
        if nd.kind != "test":
            return None
        k, s, pos = q.atom_test(nd.ast)
        if k == "truth" and s in flags:
            return "T" if pos else "F"
        if k == "isnone" and s in errn:
            return "F" if pos else "T"
        return None
    if cancels:
        p = kit.path_avoiding_guard(dcfg, cancels, failed, N)
        R.check(p is None, "C11.CANCEL-HOOK", cd.qualname + ":guard", R.site(cd), "the _cancel hook runs only for a batch that finished with an error",
                "the _cancel hook can run for a batch that was flushed successfully", dcfg.fmt_path(p) if p else None)
    # ---- NO-ADD
    bi = ro.BatchItemBase
    init = bi.methods.get("__init__")
    R.need(init is not None, "anchor vanished: BatchItemBase.__init__")
    icfg = cfg_of(init)
    bp = q.param_names(init.node)[1]
    apps = [n for n, c in kit.call_sites(init, lambda c: q.call_name(c) == "%s.items.append" % bp and c.args and q.src(c.args[0]) == "self")]
    R.need(apps, "idiom: BatchItemBase.__init__ no longer appends itself to batch.items")

    def pending(nd):
        if nd.kind != "test":
            return None
        k, s, pos = q.atom_test(nd.ast)
        if k == "call" and s in ("%s.is_flushed" % bp, "%s.is_computed" % bp):
            return "F" if pos else "T"
        return None
    p = kit.path_avoiding_guard(icfg, apps, pending, N)
    R.check(p is None, "C11.NO-ADD", init.qualname, R.site(init),
            "an item joins a batch only over the not-finished edge of batch.is_flushed()",
            "an item can be added to a finished batch (it would stay pending forever)", icfg.fmt_path(p) if p else None)
    stores = [n for n in kit.store_nodes(init, "batch") if isinstance(n.ast, ast.Assign) and q.src(n.ast.value) == bp]
    R.check(bool(stores), "C11.NO-ADD", init.qualname + ":batch", R.site(init), "the item remembers its batch", "the item no longer remembers its batch")
    # ---- ITEM-PULL
    ic = bi.methods.get("_compute")
    R.need(ic is not None, "anchor vanished: BatchItemBase._compute")
    iccfg = cfg_of(ic)
    fls = [n for n, c in kit.call_sites(ic, lambda c: q.call_name(c) == "self.batch.flush")]

    def bpending(nd):
        if nd.kind != "test":
            return None
        k, s, pos = q.atom_test(nd.ast)
        if k == "call" and s in ("self.batch.is_flushed", "self.batch.is_computed"):
            return "F" if pos else "T"
        return None
    p = kit.path_avoiding_guard(iccfg, fls, bpending, N)
    R.check(p is None and fls, "C11.ITEM-PULL", ic.qualname + ":guard", R.site(ic),
            "asking an item for its value flushes its batch only if the batch is still pending",
            "an item's _compute can flush a finished batch (BatchingError)", iccfg.fmt_path(p) if p else None)
    # on the pending edge the flush happens on every path
    starts = []
    for g in kit.guard_edges_exist(iccfg, bpending):
        starts += [e.dst for e in iccfg.out_edges(g.id, N) if e.label == bpending(g)]
    p = iccfg.find_path(starts, [iccfg.exit], N, cut_nodes=fls) if starts else "no guard"
    R.check(p is None, "C11.ITEM-PULL", ic.qualname + ":flushes", R.site(ic),
            "a pending batch is flushed when one of its items is asked for its value",
            "an item of a pending batch can be asked for its value without its batch being flushed")
    # ---- a debug batch registers under, and looks itself up by, the very name it was given (an empty name is a name)
    dbc = repo.cls("batching.DebugBatch")
    dbi = dbc.methods.get("__init__")
    R.need(dbi is not None, "anchor vanished: DebugBatch.__init__")
    np_ = q.param_names(dbi.node)[1]
    nstores = [n for n in q.scope_nodes(dbi.node) if isinstance(n, ast.Assign) and any(q.src(t) == "self.name" for t in n.targets)]
    R.check(len(nstores) == 1 and q.src(nstores[0].value) == np_, "C11.DEBUG-SWITCH", dbi.qualname + ":name", R.site(dbi, nstores[0] if nstores else None),
            "DebugBatch stores the name it was created with", "DebugBatch stores `%s` as its name, not the `%s` it was registered under: for a name that the expression "
            "changes ('' with `or`) the batch never finds itself in the registry - after its flush it stays the active batch of that name and every later item "
            "fails" % (q.src(nstores[0].value) if nstores else None, np_))
    # ---- the batch's completion is announced by the base implementation (which contains subscriber failures): the last thing
    # _computed does on every path
    cdm = bb.methods.get("_computed")
    R.need(cdm is not None, "anchor vanished: BatchBase._computed")
    ccfg_ = cfg_of(cdm)
    basec = [n for n, c in kit.call_sites(cdm, lambda c: q.src(c.func).endswith("FutureBase._computed") or q.src(c.func).startswith("super("))]
    pb_ = ccfg_.find_path([ccfg_.entry], [ccfg_.exit], N, cut_nodes=basec)
    direct = [n for n, c in kit.call_sites(cdm, lambda c: (q.call_name(c) or "").startswith("self.on_computed"))]
    R.check(pb_ is None and basec and not direct, "C11.CAPTURE", cdm.qualname + ":announces", R.site(cdm),
            "BatchBase._computed hands over to FutureBase._computed(self) on every path",
            "BatchBase._computed %s: a subscriber of the batch that raises makes cancel() raise, and flush() raise for a failing body"
            % ("triggers self.on_computed itself, without the base implementation's containment" if direct else "can return without announcing the batch's completion"))
    # ---- DEBUG-SWITCH
    db = repo.cls("batching.DebugBatch")
    ts = db.methods.get("_try_switch_active_batch")
    R.need(ts is not None, "anchor vanished: DebugBatch._try_switch_active_batch")
    tcfg = cfg_of(ts)
    writes = [n for n in tcfg.nodes if n.kind == "stmt" and isinstance(n.ast, ast.Assign) and isinstance(n.ast.targets[0], ast.Subscript)
              and q.src(n.ast.targets[0].value) == "_debug_batch_state.batches"]
    if not writes:
        R.violation("C11.DEBUG-SWITCH", ts.qualname + ":always", R.site(ts),
                    "DebugBatch._try_switch_active_batch never installs a fresh batch in the thread-local slot: the batch being flushed stays the active one, "
                    "so an item created while it is being flushed joins it instead of a new pending batch")
        writes = []

    def holds_self(nd):
        if nd.kind != "test":
            return None
        k, s, pos = q.atom_test(nd.ast)
        if k == "is" and "self" in s and any("_debug_batch_state.batches" in x for x in s):
            return "T" if pos else "F"
        return None
    p = kit.path_avoiding_guard(tcfg, writes, holds_self, N) if writes else None
    R.check(p is None, "C11.DEBUG-SWITCH", ts.qualname, R.site(ts),
            "the thread-local slot is replaced only when it still holds this batch",
            "the slot can be replaced although it holds another (newer) batch: that batch and its items are lost", tcfg.fmt_path(p) if p else None)
    # ... and whenever it does hold this batch it is replaced (also for an empty batch)
    hs = []
    for g in kit.guard_edges_exist(tcfg, holds_self):
        hs += [e.dst for e in tcfg.out_edges(g.id, N) if e.label == holds_self(g)]
    p = tcfg.find_path(hs, [tcfg.exit], N, cut_nodes=writes) if hs else "no test"
    first = [n for n in tcfg.nodes if n.kind == "test"]
    pre = tcfg.find_path([tcfg.entry], [tcfg.exit], N, cut_nodes=kit.guard_edges_exist(tcfg, holds_self))
    R.check(p is None and pre is None, "C11.DEBUG-SWITCH", ts.qualname + ":always", R.site(ts),
            "whenever the slot holds this batch it is replaced by a fresh one (no other condition)",
            "the switch can be skipped although the slot holds this batch (e.g. for an empty batch): the finished batch stays the active one and the next item "
            "cannot join it", tcfg.fmt_path(p if isinstance(p, list) else pre) if (isinstance(p, list) or pre) else None)
    for w in writes:
        v = w.ast.value
        dbi = db.methods.get("__init__")
        first_param = q.param_names(dbi.node)[1] if dbi is not None and len(q.param_names(dbi.node)) > 1 else "name"
        name_arg = None
        if isinstance(v, ast.Call):
            name_arg = next((k.value for k in v.keywords if k.arg == first_param), v.args[0] if v.args else None)
        okn = isinstance(v, ast.Call) and q.call_name(v) == "DebugBatch" and q.src(w.ast.targets[0].slice) == "self.name" and name_arg is not None and q.src(name_arg) == "self.name"
        R.check(okn, "C11.DEBUG-SWITCH", ts.qualname + ":fresh", R.site(ts, w.ast),
                "the slot receives a fresh DebugBatch of the same name", "the slot does not receive a fresh DebugBatch of the same name")
    p = tcfg.find_path([tcfg.entry], [tcfg.raise_exit], N)
    R.check(p is None, "C11.DEBUG-SWITCH", ts.qualname + ":noraise", R.site(ts), "_try_switch_active_batch has no explicit raise",
            "_try_switch_active_batch can raise")
    # DebugBatchItem joins the thread's current batch of its name
    dbi = repo.cls("batching.DebugBatchItem")
    di = dbi.methods.get("__init__")
    R.need(di is not None, "anchor vanished: DebugBatchItem.__init__")
    sd = [c for c in q.calls(di.node) if q.call_name(c) == "_debug_batch_state.batches.setdefault"]
    R.check(bool(sd), "C11.DEBUG-SWITCH", di.qualname, R.site(di), "a DebugBatchItem joins the thread's current batch of its name (setdefault on the thread-local map)",
            "DebugBatchItem no longer looks its batch up in the thread-local map")
    # DebugBatch._flush answers every item
    dfl = db.methods.get("_flush")
    R.need(dfl is not None, "anchor vanished: DebugBatch._flush")
    lp = [n for n in ast.walk(dfl.node) if isinstance(n, ast.For) and q.dotted(n.iter) == "self.items"]
    oka = len(lp) == 1 and any(q.attr_call(c)[1] == "set_value" for c in q.calls(lp[0])) and not any(isinstance(x, (ast.Break, ast.Return, ast.If)) for x in ast.walk(lp[0]))
    R.check(oka, "C11.DEBUG-FLUSH", dfl.qualname, R.site(dfl), "DebugBatch._flush sets a value on every item", "DebugBatch._flush can skip items")
    R.require_min("C11.FLUSH-GUARD", 2)
    R.require_min("C11.CAPTURE", 3)
