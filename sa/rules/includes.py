"""Which properties re-run the whole rule set of another property as a necessary condition of their own.

The helper properties (deduplicate, caches, collection helpers, asyncio twin, generators) are written on top of the core
mechanism: a change to how a task is stepped, how a failure is captured and delivered, how a future is completed or how a
call reaches the function breaks them just as it breaks the core property it was filed under.  Likewise the most general
property (C01: every computation returns what sequential evaluation would) presupposes all of the mechanism and the value-
producing helpers.  The included obligations are recorded as <property>.<rule of the included property>.
"""

CORE = ["C02", "C03", "C05", "C09", "C10"]

INCLUDES = {
    # C09 is already part of C01 (CALLCONV); what a body reads from a scoped value is part of what it returns (C06, C07)
    "C01": ["C02", "C03", "C05", "C06", "C07", "C10", "C11", "C12", "C13", "C14"],
    # a failing flush / a cancelled batch reaches the awaiting tasks through the batch lifecycle; "delivered after every sibling
    # finished" presupposes that the task is resumed only when all it awaits is done (C03)
    # ... and the asyncio twin delivers failures by the same rules (C15)
    "C02": ["C03", "C05", "C10", "C11", "C15"],
    # termination: every item of a flushed batch is answered, a batch is flushed once; a failure that is not captured into the
    # future it belongs to leaves that future pending for ever (C02); the asyncio twin resumes by the same rules (C15)
    "C03": ["C02", "C05", "C11", "C15"],
    "C04": ["C03", "C08", "C09", "C14"],  # helpers that issue their per-element requests in several rounds break "all requests travel in one flush"; tasks left on the stack by an aborted computation (C08) are skipped by the next walk and miss its flush
    "C07": ["C06"],                # nesting of activation periods presupposes that each context is active exactly while its task runs
    # a batch is flushed once: its lifecycle (switch before flush, cancel, items) is C11's subject; a task resumed before what it
    # awaits is done asks its items for their values and flushes their batch out of turn (C03)
    "C05": ["C03", "C11"],
    "C06": ["C08"],                # a context is registered with the active task: "active task is the running one" comes first
    "C08": ["C05", "C09"],
    "C09": ["C12", "C13", "C15"],  # C09 quantifies over deduplicate, alru_cache and acached_per_instance as well; every calling convention consults the asyncio-mode flag (C15.MODE)
    # batches and batch items are futures too; a task is completed by the capture of its failure (C02); a batch's computation
    # runs once only if the scheduler takes it out of its set before flushing it (C05)
    "C10": ["C02", "C05", "C11"],
    "C11": ["C05"],                # the flush body runs once only if the scheduler cannot select a batch that is in the middle of its flush
    "C12": CORE + ["C15"],         # in asyncio mode deduplicate hands over to .asyncio(): the mode flag must be confined (C15)
    "C13": CORE,
    "C14": CORE,
    "C15": ["C02", "C10"],
    "C16": ["C12"],                # the deduplication scope is per thread
    "C17": ["C02", "C03", "C06", "C09", "C10"],   # a with-block in a generator body is entered and left under different tasks: registration must stay consistent (C06); generator bodies written as methods await through the binders (C09)
    "C18": ["C02"],                # "an exception that crosses d levels of awaiting tasks reaches the caller" presupposes that it is delivered at every level
    "C19": ["C15"],                # .asyncio() of a patched function runs under the asyncio-mode flag
}
