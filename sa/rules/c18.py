"""C18 - diagnostics are faithful and total: glued tracebacks, stack, repr, filter."""
import ast

from ..cfg import cfg_of, N, X
from ..roles import Roles
from .. import q, kit
from . import common

EXPLANATION = (
    "Definedness, purity and loop-idiom rules over the diagnostic code: in every __str__/__repr__/dump/"
    "to_str method (and the methods they call on self) each self.X resolves to a declared field or method "
    "(.py stores, class attributes, .pxd declarations over the MRO); they contain no raise/assert and "
    "they cannot start a computation (value()/error()/flush() only under an is-computed guard); "
    "FutureBase.__repr__ guards self-reference; filter_traceback emits a replacement only for a "
    "complete run (counter reset per pattern, equal to the pattern length), advances by that length and "
    "otherwise copies the line and advances by one; _accept_error stamps the first task / refreshes the "
    "traceback only when the error is already stamped (i.e. inside a handler); the creator chain's "
    "fallback describes the task being visited; format_error has an arm for every kind of error."
)

DIAG_NAMES = ("__str__", "__repr__", "dump", "to_str", "traceback", "_traceback_line")
COMPUTING = ("value", "error", "_compute", "flush", "__call__")


def diag_methods(R):
    out = []
    for c in R.repo.all_classes():
        if c.module.name in ("mock_",):
            continue
        for n in DIAG_NAMES:
            if n in c.methods:
                out.append(c.methods[n])
    return out


def self_callees(R, m, seen=None):
    seen = seen if seen is not None else {}
    if m.qualname in seen:
        return seen
    seen[m.qualname] = m
    if m.cls is None:
        return seen
    for c in q.calls(m.node):
        recv, name = q.attr_call(c)
        if recv is not None and q.dotted(recv) == "self":
            t = m.cls.find_method(name)
            if t is not None and name not in COMPUTING:
                self_callees(R, t, seen)
            for sub in R.repo.subclasses(m.cls, strict=True):
                if name in sub.methods and name not in COMPUTING:
                    self_callees(R, sub.methods[name], seen)
    return seen


def guarded_by_computed(fi, call):
    """Is this computing call (recv.value()/error()/...) evaluated only when recv.is_computed()?"""
    recv = q.dotted(q.attr_call(call)[0])

    def is_guard(e, want_true=True):
        k, s, pos = q.atom_test(e)
        if k == "call" and s in ("%s.is_computed" % recv, "%s.is_flushed" % recv):
            return pos == want_true
        if k == "is" and set(s) in (set(["_none", "%s._value" % recv]), set(["_futures_none", "%s._value" % recv])):
            return (not pos) == want_true
        return False
    # expression level: `guard and <call>`, `<call> if guard else ...`
    child = call
    for a in q.ancestors(call):
        if isinstance(a, ast.BoolOp) and isinstance(a.op, ast.And):
            idx = [i for i, v in enumerate(a.values) if any(child is x for x in ast.walk(v))]
            if idx and any(is_guard(v) for v in a.values[: idx[0]]):
                return True
        if isinstance(a, ast.IfExp):
            if any(child is x for x in ast.walk(a.body)) and is_guard(a.test):
                return True
            if any(child is x for x in ast.walk(a.orelse)) and is_guard(a.test, False):
                return True
        if isinstance(a, ast.stmt):
            break
        child = a
    cfg = cfg_of(fi)
    nodes = [n for n in cfg.nodes if call in kit.node_calls(n)]

    def g(nd):
        if nd.kind != "test":
            return None
        k, s, pos = q.atom_test(nd.ast)
        if k == "call" and s in ("%s.is_computed" % recv, "%s.is_flushed" % recv):
            return "T" if pos else "F"
        return None
    return bool(nodes) and kit.path_avoiding_guard(cfg, nodes, g, N, dead_ok=True) is None


def run(R):
    R.extra["explanation"] = EXPLANATION
    ro = Roles(R)
    repo = R.repo
    roots = diag_methods(R)
    R.need(len(roots) >= 15, "fewer diagnostic methods than confirmed by hand (%d < 15)" % len(roots))
    allm = {}
    for m in roots:
        self_callees(R, m, allm)
    R.units["diagnostic_methods"] = len(roots)
    R.units["diagnostic_closure"] = len(allm)
    # ---- ATTRDEF
    for m in sorted(allm.values(), key=lambda f: f.qualname):
        cls = m.cls
        if cls is None:
            continue
        # the dynamic class of self may be any subclass: an attribute is defined if the static class (or a base) has it
        fields = cls.fields()
        methods = set()
        for c in cls.mro():
            if hasattr(c, "methods"):
                methods |= set(c.methods)
        ext = cls.ext_bases()
        for recv, attr, node in q.attr_loads(m.node):
            if recv != "self":
                continue
            if attr.startswith("__") and attr.endswith("__"):
                continue
            ok = attr in fields or attr in methods
            if not ok and ext:
                R.info("%s reads self.%s which may come from external base %s" % (m.qualname, attr, ext))
                continue
            R.check(ok, "C18.ATTRDEF", "%s:self.%s" % (m.qualname, attr), R.site(m, node),
                    "self.%s is a field or method of %s" % (attr, cls.name),
                    "%s reads self.%s, which no method of %s (or a base, or the .pxd) ever defines: the diagnostic raises AttributeError" % (m.name, attr, cls.name))
    R.require_min("C18.ATTRDEF", 60)
    diag_purity(R, ro, allm, "C18.TOTAL")
    R.require_min("C18.TOTAL", 20)
    diag_robust(R, allm, "C18.TOTAL")
    common.typed_stack_elements(R, ro, "C18.TOTAL")
    link_recursion(R, ro, "C18.STACK-LIST")
    no_user_comparison(R, allm, "C18.TOTAL")
    format_error_total(R, "C18.TOTAL")
    common.dependency_elements_typed(R, ro, "C18.TOTAL")
    frame_of_failure(R, ro, "C18.STACK-LIST")
    reraise_in_handler(R, "C18.GLUE")
    # dump methods: what they format goes through the containing converters, and user hooks (get_priority) are contained
    from .c20 import diag_conversions
    diag_conversions(R, ro, "C18.TOTAL")
    ng = reentrancy_guards(R, allm, "C18.TOTAL")
    R.need(ng >= 1, "idiom: no recursion-guarded text method found (FutureBase.__repr__ had one)")
    # a future refuses to be tested for truth (TypeError from the truth slot in the compiled build): `x or "none"` in a text method
    common.future_truthiness(R, "C18.TOTAL", only_under=set(f.qualname for f in allm.values()))
    # a text-producing method hands back a string on every path (`return None` from __repr__ is a TypeError in repr())
    for m in sorted(allm.values(), key=lambda f: f.qualname):
        if m.name not in ("__str__", "__repr__", "to_str", "_traceback_line", "traceback") or m.cls is None:
            continue
        mcfg = cfg_of(m)
        rets = [n for n in mcfg.nodes if n.kind == "stmt" and isinstance(n.ast, ast.Return)]
        empty = [n for n in rets if n.ast.value is None or q.is_none(n.ast.value)]
        p = mcfg.find_path([mcfg.entry], [mcfg.exit], N, cut_nodes=[n for n in rets if n not in empty])
        R.check(p is None, "C18.TOTAL", m.qualname + ":returns-text", R.site(m), "%s returns a value on every path" % m.name,
                "%s.%s can return None: str()/repr() of the object then raises TypeError instead of producing text" % (m.cls.name, m.name),
                mcfg.fmt_path(p) if p else None)
    # format_asynq_stack() reads the scheduler's active task and walks the creator links: both must be what the property says
    from .c08 import active_own
    active_own(R, ro, "C18.STACK.ACTIVE-OWN")
    common.active_task_pair(R, ro, "C18.STACK.ACTIVE-PAIR")
    fs = repo.fn("debug.format_asynq_stack")
    reads = [x for x in q.scope_nodes(fs.node) if isinstance(x, ast.Attribute) and x.attr == "active_task" and isinstance(x.ctx, ast.Load)]
    gat = [c for c in q.calls(fs.node) if (q.call_name(c) or "").split(".")[-1] == "get_active_task"]
    okfresh = bool(reads or gat) and not any(isinstance(x, (ast.Global, ast.Nonlocal)) for x in ast.walk(fs.node))
    for x in reads:
        rv = x.value
        if isinstance(rv, ast.Name):
            vals = [v for k, v in common.assigned_values(fs.node, rv.id) if k == "expr"]
            rv = vals[0] if len(vals) == 1 else None
        okfresh = okfresh and isinstance(rv, ast.Call) and (q.call_name(rv) or "").split(".")[-1] == "get_scheduler" and not rv.args
    R.check(okfresh, "C18.STACK", fs.qualname, R.site(fs),
            "format_asynq_stack asks the calling thread's scheduler for its active task at every call",
            "format_asynq_stack does not read the active task from get_scheduler() at call time (a remembered scheduler belongs to whichever thread / "
            "reset generation asked first: inside a task elsewhere the stack comes back as None)")
    for f in repo.all_functions():
        for recv, attr, node in q.attr_stores(f.node):
            if attr == "creator" and recv is not None:
                R.check(f.qualname == "async_task.AsyncTask.__init__", "C18.CHAIN", "%s:creator-store" % f.qualname, R.site(f, node),
                        "a task's creator link is written once, at creation",
                        "%s overwrites a task's creator link: the asynq stack of a task that outlives (or is run after) that point stops there and omits the outer levels" % f.qualname)
    # self-reference guard in FutureBase.__repr__
    fr = ro.FutureBase.methods.get("__repr__")
    R.need(fr is not None, "anchor vanished: FutureBase.__repr__")
    rcfg = cfg_of(fr)
    # the marker field, by role: the boolean self attribute that __repr__ both sets to True and to False
    t_fields = set(t.attr for n in q.scope_nodes(fr.node) if isinstance(n, ast.Assign) and q.const_value(n.value) is True
                   for t in n.targets if isinstance(t, ast.Attribute) and q.src(t.value) == "self")
    f_fields = set(t.attr for n in q.scope_nodes(fr.node) if isinstance(n, ast.Assign) and q.const_value(n.value) is False
                   for t in n.targets if isinstance(t, ast.Attribute) and q.src(t.value) == "self")
    marker = sorted(t_fields & f_fields)
    R.need(len(marker) == 1, "role: the recursion marker of FutureBase.__repr__ was not found (%s)" % marker)
    sets = [n for n in kit.store_nodes(fr, marker[0]) if q.const_value(n.ast.value) is True]
    clears = [n for n in kit.store_nodes(fr, marker[0]) if q.const_value(n.ast.value) is False]
    starts = []
    for s_ in sets:
        starts += [e.dst for e in rcfg.out_edges(s_.id, X)]
    p = rcfg.find_path(starts, [rcfg.exit, rcfg.raise_exit], X, cut_nodes=clears)
    R.check(p is None and sets and clears, "C18.TOTAL", fr.qualname + ":in_repr", R.site(fr),
            "the recursion marker is cleared on every exit of __repr__", "the recursion marker can stay set after __repr__ (every later repr prints <recursion>)",
            rcfg.fmt_path(p) if p else None)

    # ---- FILTER (roles are found by data flow, not by loop kind)
    filter_rules(R)

    # ---- GLUE
    ae = ro.accept_error_method()
    acfg = cfg_of(ae)
    ep = q.param_names(ae.node)[1]

    def stamped(nd, want):
        if nd.kind != "test" or not isinstance(nd.ast, ast.Call) or q.call_name(nd.ast) != "hasattr":
            return None
        if [q.src(a) for a in nd.ast.args] != [ep, "'_task'"]:
            return None
        return "T" if want else "F"
    tb_stores = [n for n in acfg.nodes if n.kind == "stmt" and isinstance(n.ast, ast.Assign) and q.src(n.ast.targets[0]) == "%s._traceback" % ep]
    task_stores = [n for n in acfg.nodes if n.kind == "stmt" and isinstance(n.ast, ast.Assign) and q.src(n.ast.targets[0]) == "%s._task" % ep]
    prep = [n for n, c in kit.call_sites(ae, lambda c: (q.call_name(c) or "").endswith("prepare_for_reraise") and q.src(c.args[0]) == ep)]
    R.need(tb_stores and task_stores and prep, "idiom: _accept_error no longer stamps the error")
    p = kit.path_avoiding_guard(acfg, tb_stores, lambda nd: stamped(nd, True), N)
    R.check(p is None, "C18.GLUE", ae.qualname + ":refresh", R.site(ae),
            "the stored traceback is refreshed from sys.exc_info() only for an error that already carries a task (i.e. while it is being handled at a parent level)",
            "the stored traceback is overwritten from sys.exc_info() also at the first level: for an error routed here outside an except block (context pause/resume hooks) "
            "sys.exc_info() is empty and the traceback captured at the raising frame is lost", acfg.fmt_path(p) if p else None)
    p = kit.path_avoiding_guard(acfg, task_stores + prep, lambda nd: stamped(nd, False), N)
    R.check(p is None, "C18.GLUE", ae.qualname + ":first", R.site(ae), "the first task to see an error stamps it (_task, prepare_for_reraise) exactly once",
            "an already stamped error can be stamped again", acfg.fmt_path(p) if p else None)
    # the refreshed traceback is the error's own (`error.__traceback__`: what the handler that caught it saw).  sys.exc_info()[2] is
    # the same object only while that handler is running: it qualifies only when every call of the method sits inside a handler
    outside = []
    for m_ in ro.AsyncTask.methods.values():
        for nd_, c_ in ro.calls_to(m_, [ae]):
            if c_.args and not any(isinstance(a_, ast.ExceptHandler) for a_ in q.ancestors(c_)):
                outside.append("%s:%d" % (m_.name, c_.lineno))
    vals_ = [q.src(n.ast.value) for n in tb_stores]
    R.check(all(v_ == "%s.__traceback__" % ep or (v_ == "sys.exc_info()[2]" and not outside) for v_ in vals_) and all(q.src(n.ast.value) == "self" for n in task_stores),
            "C18.GLUE", ae.qualname + ":values", R.site(ae, tb_stores[0].ast),
            "_task is the accepting task and the refreshed traceback is the error's own (%s)" % ", ".join(sorted(set(vals_))),
            "the traceback stored on an error that already crossed a task is `%s`, but %s is called after the handler that caught the error has ended (%s): "
            "sys.exc_info() is empty there (or describes an unrelated exception the caller is handling) - when a context's pause()/resume() hook fails with an "
            "error that came out of a synchronous asynq call, the whole traceback down to the raising frame is thrown away"
            % (", ".join(sorted(set(vals_))), ae.name, ", ".join(outside) or "-"))
    # throw with the stored traceback
    step = ro.generator_step_fn()
    ths = [c for n, c in ro.step_sites(step) if q.attr_call(c)[1] == "throw"]
    okt = any([q.src(a) for a in c.args][1:] == ["error", "error._traceback"] or "error._traceback" in [q.src(a) for a in c.args] for c in ths)
    R.check(okt, "C18.GLUE", step.qualname + ":throw", R.site(step), "a stamped error is thrown into the parent with its stored traceback", "the stored traceback is no longer passed to throw()")
    # an error that no task has stamped yet keeps the traceback it already carries
    for c in ths:
        args = [q.src(a) for a in c.args]
        okk = len(c.args) == 1 or len(c.args) == 3
        R.check(okk, "C18.GLUE", step.qualname + ":throw-keeps-tb:" + q.stmt_key(c)[:40], R.site(step, c),
                "throw() is called with the exception alone or with an explicit traceback",
                "throw(%s) replaces the exception's traceback with nothing: the frames of whatever raised it (a batch flush, a value provider) are lost and the "
                "traceback ends at the yield" % ", ".join(args))
    # the stored (glued) traceback is re-installed whenever a future's error is raised to a caller
    rie = ro.FutureBase.methods.get("raise_if_error")
    R.need(rie is not None, "anchor vanished: FutureBase.raise_if_error")
    rr = [c for c in q.calls(rie.node) if (q.call_name(c) or "").endswith("reraise") and [q.src(a) for a in c.args] == ["self._error"]]
    wt = [n for n in q.scope_nodes(rie.node) if isinstance(n, ast.Raise) and n.exc is not None and "with_traceback" in q.src(n.exc) and "_traceback" in q.src(n.exc)]
    plain = [n for n in q.scope_nodes(rie.node) if isinstance(n, ast.Raise) and n.exc is not None and "with_traceback" not in q.src(n.exc)]
    if plain:
        # ... except on the branch for an error whose _type_/_traceback are not asynq's stamp (there is no stored traceback to install)
        rcfg = cfg_of(rie)

        def foreign(nd):
            if nd.kind != "test":
                return None
            k_, s_, pos_ = q.atom_test(nd.ast)
            e_ = nd.ast.operand if isinstance(nd.ast, ast.UnaryOp) else nd.ast
            if k_ == "call" and s_ == "hasattr" and q.src(e_).replace('"', "'") == "hasattr(self._error, '_type_')":
                return "T" if pos_ else "F"
            return None
        pn = [n for n in rcfg.nodes if n.kind == "stmt" and any(n.ast is x for x in plain)]
        if pn and kit.path_avoiding_guard(rcfg, pn, foreign, N, dead_ok=True) is None:
            plain = []
    R.check(bool(rr or wt) and not plain, "C18.GLUE", rie.qualname, R.site(rie),
            "raise_if_error raises the stored error with its stored traceback (qcore's reraise)",
            "raise_if_error raises the stored error with `raise`: the traceback is whatever the object accumulated the last time it propagated, so a second "
            "value() shows the frames of the first caller spliced in front of the task levels")
    # prepare_for_reraise() records sys.exc_info(): it is only meaningful inside the except block of the exception it is applied to
    aem = ro.accept_error_method()
    for f_ in R.repo.all_functions():
        for fn_ in [f_] + list(f_.nested.values()):
            for c_ in q.calls(fn_.node):
                if not (q.call_name(c_) or "").endswith("prepare_for_reraise") or not c_.args:
                    continue
                if fn_ is aem:
                    continue        # the method that stamps an error for the first time is called from the handlers (C02.CAPTURE decides that)
                # a future that is not a task hands its failure on untouched: prepare_for_reraise() is a no-op once an error carries a
                # recorded traceback, so an error stamped where a plain future (a lazy Future's provider, a batch) caught it arrives at the
                # first awaiting task already "prepared" - that task's own frame is then never recorded, and one level is missing from
                # the glued traceback
                own = fn_.cls if fn_.cls is not None else (f_.cls if f_.cls is not None else None)
                if own is not None and own.is_subclass_of(ro.FutureBase) and not own.is_subclass_of(ro.AsyncTask):
                    R.violation("C18.GLUE", "%s:prestamp" % fn_.qualname, R.site(fn_, c_),
                                "%s stamps the error it caught (prepare_for_reraise) before any task has seen it: the first awaiting task's _accept_error finds the "
                                "traceback slot taken and keeps the provider-only traceback - the frame of the task that awaited the future is missing from what "
                                "the caller and format_error() see" % fn_.qualname)
                    continue
                hs_ = [a for a in q.ancestors(c_) if isinstance(a, ast.ExceptHandler)]
                okp = False
                if hs_ and isinstance(c_.args[0], ast.Name):
                    h_ = hs_[0]
                    nm = c_.args[0].id
                    okp = nm == h_.name or any(isinstance(x, ast.Assign) and isinstance(x.value, ast.Name) and x.value.id == h_.name and any(q.src(t) == nm for t in x.targets)
                                               for x in ast.walk(h_))
                R.check(okp, "C18.GLUE", "%s:prepare:%d" % (fn_.qualname, len(hs_)), R.site(fn_, c_),
                        "prepare_for_reraise() is applied to the exception being handled, inside its except block",
                        "prepare_for_reraise(%s) runs outside the except block of that exception: it records whatever sys.exc_info() holds then (nothing, or "
                        "another exception) as the error's type and traceback - the raising frames are lost, or the next task level throws TypeError / a "
                        "different exception into its parent" % q.src(c_.args[0]))
    # creator chain
    tb = ro.AsyncTask.methods.get("traceback")
    R.need(tb is not None, "anchor vanished: AsyncTask.traceback")
    trys = [n for n in ast.walk(tb.node) if isinstance(n, ast.Try)]
    checked = 0
    for tr in trys:
        tl = [c for s_ in tr.body for c in q.calls(s_) if q.attr_call(c)[1] == "_traceback_line"]
        if not tl:
            continue
        subject = q.src(q.attr_call(tl[0])[0])
        for h in tr.handlers:
            fb = [c for c in q.calls(h) if (q.call_name(c) or "").split(".")[-1] in ("safe_str", "str", "repr", "safe_repr")]
            ok = bool(fb) and all(q.src(c.args[0]) == subject for c in fb)
            checked += 1
            R.check(ok, "C18.CHAIN", tb.qualname + ":fallback", R.site(tb, h),
                    "when a task's traceback line cannot be rendered the fallback describes that same task (%s)" % subject,
                    "the fallback for %s._traceback_line() describes a different task (%s): an ancestor without source shows up as a copy of the innermost task"
                    % (subject, ", ".join(q.src(c.args[0]) for c in fb)))
    R.need(checked >= 1, "idiom: AsyncTask.traceback no longer guards _traceback_line()")
    # creation-time link
    init = ro.AsyncTask.methods.get("__init__")
    cr = [n for n in ast.walk(init.node) if isinstance(n, ast.Assign) and q.src(n.targets[0]) == "self.creator"]
    R.check(len(cr) == 1 and (q.src(cr[0].value).endswith("get_active_task()") or q.src(cr[0].value).endswith(".active_task")), "C18.CHAIN", init.qualname, R.site(init),
            "a task's creator is the task that was active when it was created", "a task's creator is not get_active_task() at creation")
    rec = [c for c in q.calls(tb.node) if q.src(c) == "self.creator.traceback()"]
    if rec:
        apps = [c for c in q.calls(tb.node) if q.attr_call(c)[1] == "append"]
        R.check(len(apps) == 1, "C18.CHAIN", tb.qualname + ":order", R.site(tb), "the task's own line is appended after its creator's lines (outermost first)",
                "the task's own line is not appended after its creator's lines")
    else:
        R.info("AsyncTask.traceback is not in the recursive form; only the fallback pairing was decided")
    # ---- FORMAT
    fe = repo.fn("debug.format_error")
    fcfg2 = cfg_of(fe)
    ep0 = q.param_names(fe.node)[0]
    # the three kinds of input each get their formatting: with traceback -> format_exception, exception without -> format_exception_only,
    # anything else -> nothing; None -> None
    fexc = [n for n, c in kit.call_sites(fe, lambda c: q.call_name(c) == "traceback.format_exception")]
    fonly = [n for n, c in kit.call_sites(fe, lambda c: q.call_name(c) == "traceback.format_exception_only")]

    # names that stand for the explicit traceback argument: the parameter and locals initialised from it
    tb_names = set([q.param_names(fe.node)[1] if len(q.param_names(fe.node)) > 1 else "tb"])
    for n_ in q.scope_nodes(fe.node):
        if isinstance(n_, ast.Assign) and isinstance(n_.value, ast.Name) and n_.value.id in tb_names:
            tb_names |= set(t.id for t in n_.targets if isinstance(t, ast.Name))

    def has_tb(nd):
        if nd.kind != "test":
            return None
        if isinstance(nd.ast, ast.Call) and q.call_name(nd.ast) == "hasattr" and [q.src(a) for a in nd.ast.args] == [ep0, "'_traceback'"]:
            return "T"
        k, s_, pos = q.atom_test(nd.ast)
        if k == "isnone" and s_ in tb_names:
            return "F" if pos else "T"
        return None

    def is_exc(nd):
        if nd.kind != "test":
            return None
        k, s_, pos = q.atom_test(nd.ast)
        if k == "isinstance" and s_ == (ep0, "BaseException"):
            return "T" if pos else "F"
        return None
    p1 = kit.path_avoiding_guard(fcfg2, fexc, has_tb, N)
    p2 = kit.path_avoiding_guard(fcfg2, fonly, is_exc, N)
    R.check(p1 is None and p2 is None and fexc and fonly, "C18.FORMAT", fe.qualname + ":arms", R.site(fe),
            "an error with a traceback is formatted with it, an exception without one with format_exception_only, anything else without either",
            "format_error no longer distinguishes 'has a traceback' / 'exception without traceback' / 'anything else'")
    # <error>._traceback is read only where the attribute is known to exist: behind hasattr alone, or as the fallback of an explicit
    # tb (`tb or error._traceback`) inside the arm entered for "has the attribute OR an explicit tb was given"
    tbp = q.param_names(fe.node)[1] if len(q.param_names(fe.node)) > 1 else "tb"

    def only_attr(nd):
        # edges that make the read safe: hasattr(error, '_traceback') holds, or no explicit tb was given (then the arm can only
        # have been entered because the attribute exists)
        if nd.kind != "test":
            return None
        if isinstance(nd.ast, ast.Call) and q.call_name(nd.ast) == "hasattr" and [q.src(a) for a in nd.ast.args] == [ep0, "'_traceback'"]:
            return "T"
        k_, s_, pos_ = q.atom_test(nd.ast)
        if k_ == "truth" and s_ in tb_names:
            return "F" if pos_ else "T"
        if k_ == "isnone" and s_ in tb_names:
            return "T" if pos_ else "F"
        return None
    for n in fcfg2.nodes:
        if n.kind != "stmt":
            continue
        for x in ast.walk(n.ast):
            if isinstance(x, ast.Attribute) and x.attr == "_traceback" and q.src(x.value) == ep0 and isinstance(x.ctx, ast.Load):
                par = getattr(x, "_parent", None)
                fallback = isinstance(par, ast.BoolOp) and isinstance(par.op, ast.Or) and par.values[-1] is x and all(q.src(v) in tb_names for v in par.values[:-1])
                if fallback:
                    okx = kit.path_avoiding_guard(fcfg2, [n], has_tb, N) is None
                else:
                    okx = kit.path_avoiding_guard(fcfg2, [n], only_attr, N) is None and kit.path_avoiding_guard(fcfg2, [n], has_tb, N) is None
                R.check(okx, "C18.FORMAT", fe.qualname + ":attr:" + q.stmt_key(n.ast)[:40], R.site(fe, n.ast),
                        "%s._traceback is read only where the attribute exists" % ep0,
                        "%s._traceback is read although only an explicit tb may have been given (`%s`): format_error(e, tb=...) raises AttributeError for an "
                        "exception that never passed through asynq" % (ep0, q.src(n.ast)[:60]))
    # every path to the end has tb_list defined (the third kind gets an empty list)
    # (the list, by role: the local that is joined into the text)
    joined = [c.args[0].id for c in q.calls(fe.node) if q.attr_call(c)[1] == "join" and len(c.args) == 1 and isinstance(c.args[0], ast.Name)]
    lines_var = joined[0] if joined else "tb_list"
    tl_defs = [n for n in fcfg2.nodes if n.kind == "stmt" and isinstance(n.ast, ast.Assign) and lines_var in q.names_stored(n.ast)]
    uses = [n for n in fcfg2.nodes if n.kind == "stmt" and lines_var in q.names_loaded(n.ast) and n not in tl_defs]
    p = fcfg2.find_path([fcfg2.entry], uses, N, cut_nodes=tl_defs)
    R.check(p is None and uses, "C18.FORMAT", fe.qualname + ":total", R.site(fe),
            "the list of formatted lines is defined on every path (an object that is neither is formatted to an empty text)",
            "format_error can use tb_list before any arm assigned it (UnboundLocalError for an error that is not an exception)", fcfg2.fmt_path(p) if p else None)
    first = [s_ for s_ in fe.node.body if isinstance(s_, ast.If)][0]
    R.check(q.src(first.test) == "%s is None" % ep0 and any(isinstance(x, ast.Return) for x in first.body), "C18.FORMAT", fe.qualname + ":none", R.site(fe),
            "only None formats to None", "format_error's None handling changed")
    safe_str_rule(R, "C18.SAFE-STR")


def safe_str_rule(R, rule, why=""):
    """debug.str / debug.repr cannot raise Exception: they delegate to qcore's safe_str / safe_repr."""
    dm = R.repo.modules["debug"]
    for nm, ext in (("str", "qcore.safe_str"), ("repr", "qcore.safe_repr")):
        f = dm.functions.get(nm)
        R.need(f is not None, "anchor vanished: debug.%s" % nm)
        rs = [n.value for n in q.scope_nodes(f.node) if isinstance(n, ast.Return)]
        R.check(len(rs) == 1 and isinstance(rs[0], ast.Call) and q.call_name(rs[0]) == ext, rule, f.qualname, R.site(f),
                "debug.%s delegates to %s (never raises Exception)" % (nm, ext), "debug.%s no longer delegates to %s%s" % (nm, ext, why))


def diag_closure(R):
    roots = diag_methods(R)
    allm = {}
    for m in roots:
        self_callees(R, m, allm)
    return roots, allm


def diag_purity(R, ro, allm, rule):
    # ---- TOTAL: no raise / assert, no computation started
    for m in sorted(allm.values(), key=lambda f: f.qualname):
        if m.name in ("traceback", "_traceback_line") or m.cls is None:
            continue
        cfg = cfg_of(m)
        p = cfg.find_path([cfg.entry], [cfg.raise_exit], N)
        R.check(p is None, rule, m.qualname + ":noraise", R.site(m),
                "%s has no reachable raise/assert" % m.name, "%s.%s can raise explicitly" % (m.cls.name, m.name), cfg.fmt_path(p) if p else None)
        for c in q.calls(m.node):
            recv, name = q.attr_call(c)
            if recv is None or name not in COMPUTING or name == "__call__":
                continue
            d = q.dotted(recv)
            if d is None:
                continue
            # only receivers that are futures: self (if a future) or typed fields
            rc = R.res.expr_class(m, recv)
            if not rc or not any(x.is_subclass_of(ro.FutureBase) for x in rc):
                continue
            if name == "value":
                # value() re-raises the future's error - any BaseException a task ended with (a cancelled task carries a GeneratorExit
                # subclass): the text method asks for the value only when error() is None, or contains BaseException
                rsrc = q.src(recv)
                mcfg_ = cfg_of(m)
                nodes_ = [x for x in mcfg_.nodes if c in kit.node_calls(x)]

                def no_error(nd, rsrc=rsrc):
                    if nd.kind != "test":
                        return None
                    k_, s_, pos_ = q.atom_test(nd.ast)
                    if k_ == "isnone" and s_ in ("%s.error()" % rsrc, "%s._error" % rsrc):
                        return "T" if pos_ else "F"
                    return None
                from ..cfg import ExcHierarchy as _EH
                prot_ = any(kit.handler_covers(h_, "BaseException", _EH(R.repo)) and not kit.handler_reraises(h_) for t_ in kit.enclosing_try_handlers(c) for h_ in t_.handlers)
                okv = prot_ or (bool(nodes_) and bool(kit.guard_edges_exist(mcfg_, no_error)) and kit.path_avoiding_guard(mcfg_, nodes_, no_error, N, dead_ok=True) is None)
                R.check(okv, rule, "%s:%s:error-free" % (m.qualname, q.src(c)), R.site(m, c),
                        "%s is asked only of a future without an error" % q.src(c),
                        "%s.%s calls %s without having tested error(): for a future that ended with an error value() re-raises it - and a handler for Exception "
                        "does not contain a task cancelled with AsyncTaskCancelledError (a GeneratorExit) or ended by KeyboardInterrupt: printing such a task raises"
                        % (m.cls.name, m.name, q.src(c)))
            R.check(guarded_by_computed(m, c), rule, "%s:%s" % (m.qualname, q.src(c)), R.site(m, c),
                    "%s is evaluated only for a computed future (printing never starts a computation)" % q.src(c),
                    "%s can be evaluated on an uncomputed future: printing it (a debug dump, an error message) runs the computation - a pending batch is flushed by its own __str__" % q.src(c))


def filter_slice_form(R, ft, fcfg, pfor, outer, pat, repl, lst, iv, len_aliases):
    """The pattern is compared with a slice: end = i + len(pattern); all(p in line for p, line in zip(pattern, lst[i:end])).
    Decided: a pattern is skipped without comparing only when fewer lines remain than it has (len(lst) < end); the comparison runs only
    when enough remain; on a match the marker is emitted and the cursor jumps to end; otherwise the line is copied and the cursor
    advances by one.  Returns False when the function is not written in this form."""
    ends = [n for n in fcfg.nodes if n.kind == "stmt" and isinstance(n.ast, ast.Assign) and len(n.ast.targets) == 1 and isinstance(n.ast.targets[0], ast.Name)
            and q.src(n.ast.value) in ("%s + len(%s)" % (iv, pat), "len(%s) + %s" % (pat, iv)) and any(n.ast is x for x in ast.walk(pfor))]
    if len(ends) != 1:
        return filter_index_form(R, ft, fcfg, pfor, outer, pat, repl, lst, iv, len_aliases)
    ev = ends[0].ast.targets[0].id
    return _filter_all_form(R, ft, fcfg, pfor, outer, pat, repl, lst, iv, len_aliases, "slice", ev, None, None)


def filter_index_form(R, ft, fcfg, pfor, outer, pat, repl, lst, iv, len_aliases):
    """n = len(pattern); remaining = len(lst) - i; skipped when n > remaining; all(pattern[j] in lst[i + j] for j in range(n)); i = i + n."""
    def alias_of(exprs, scope):
        out = set(exprs)
        for n in ast.walk(scope):
            if isinstance(n, ast.Assign) and len(n.targets) == 1 and isinstance(n.targets[0], ast.Name) and q.src(n.value) in exprs:
                out.add(n.targets[0].id)
        return out
    nv = alias_of(["len(%s)" % pat], pfor)
    rem = alias_of(["%s - %s" % (a, iv) for a in len_aliases], outer)
    if len(rem) < 1:
        return False
    return _filter_all_form(R, ft, fcfg, pfor, outer, pat, repl, lst, iv, len_aliases, "index", None, nv, rem)


def _filter_all_form(R, ft, fcfg, pfor, outer, pat, repl, lst, iv, len_aliases, form, ev, nv, rem):
    site = R.site(ft, pfor)
    if form == "index":
        def is_match(nd):
            if nd.kind != "test" or not (isinstance(nd.ast, ast.Call) and q.call_name(nd.ast) == "all" and len(nd.ast.args) == 1):
                return None
            g = nd.ast.args[0]
            if not isinstance(g, (ast.GeneratorExp, ast.ListComp)) or len(g.generators) != 1 or g.generators[0].ifs:
                return None
            gen = g.generators[0]
            if not (isinstance(gen.target, ast.Name) and isinstance(gen.iter, ast.Call) and q.call_name(gen.iter) == "range" and len(gen.iter.args) == 1
                    and q.src(gen.iter.args[0]) in nv):
                return None
            j = gen.target.id
            ok = isinstance(g.elt, ast.Compare) and len(g.elt.ops) == 1 and isinstance(g.elt.ops[0], ast.In) and q.src(g.elt.left) == "%s[%s]" % (pat, j) \
                and q.src(g.elt.comparators[0]) in ("%s[%s + %s]" % (lst, iv, j), "%s[%s + %s]" % (lst, j, iv))
            return "T" if ok else None

        def too_few(nd):
            if nd.kind != "test":
                return None
            k, s, pos = q.atom_test(nd.ast)
            if k == "lt" and s[0] in rem and s[1] in nv:
                return "T" if pos else "F"
            return None

        def enough(nd):
            if nd.kind != "test":
                return None
            k, s, pos = q.atom_test(nd.ast)
            if k == "lt" and s[0] in rem and s[1] in nv:
                return "F" if pos else "T"
            if k == "lt" and s[0] in nv and s[1] in rem:
                return "T" if pos else "F"
            return None
        jump_srcs = set("%s + %s" % (a, b) for x in nv for a, b in ((iv, x), (x, iv)))
        matches = [n for n in fcfg.nodes if is_match(n) is not None]
        if len(matches) != 1:
            return False
        mt = matches[0]
        phead = kit.one(fcfg.nodes_for(pfor), "pattern loop header")
        starts = [e.dst for e in fcfg.out_edges(phead.id, N) if e.label == "iter"]
        return _filter_all_tail(R, ft, fcfg, pfor, outer, pat, repl, lst, iv, site, mt, phead, starts, too_few, enough, jump_srcs,
                                "an index past the last line would raise IndexError", "index")
    return _filter_slice_body(R, ft, fcfg, pfor, outer, pat, repl, lst, iv, len_aliases, ev, site)


def _filter_slice_body(R, ft, fcfg, pfor, outer, pat, repl, lst, iv, len_aliases, ev, site):

    def is_match(nd):
        if nd.kind != "test" or not (isinstance(nd.ast, ast.Call) and q.call_name(nd.ast) == "all" and len(nd.ast.args) == 1):
            return None
        g = nd.ast.args[0]
        if not isinstance(g, (ast.GeneratorExp, ast.ListComp)) or len(g.generators) != 1 or g.generators[0].ifs:
            return None
        gen = g.generators[0]
        ok = isinstance(gen.iter, ast.Call) and q.call_name(gen.iter) == "zip" and [q.src(a) for a in gen.iter.args] == [pat, "%s[%s:%s]" % (lst, iv, ev)] \
            and isinstance(gen.target, ast.Tuple) and len(gen.target.elts) == 2 and isinstance(g.elt, ast.Compare) and isinstance(g.elt.ops[0], ast.In) \
            and q.src(g.elt.left) == q.src(gen.target.elts[0]) and q.src(g.elt.comparators[0]) == q.src(gen.target.elts[1])
        return "T" if ok else None
    matches = [n for n in fcfg.nodes if is_match(n) is not None]
    if len(matches) != 1:
        return False
    mt = matches[0]
    phead = kit.one(fcfg.nodes_for(pfor), "pattern loop header")
    starts = [e.dst for e in fcfg.out_edges(phead.id, N) if e.label == "iter"]

    def too_few(nd):
        # edge on which it is established that fewer than len(pattern) lines remain:  len(lst) < end
        if nd.kind != "test":
            return None
        k, s, pos = q.atom_test(nd.ast)
        if k == "lt" and s[0] in len_aliases and s[1] == ev:
            return "T" if pos else "F"
        return None

    def enough(nd):
        # edge on which at least len(pattern) lines remain:  not (len(lst) < end);  end < len(lst) also implies it
        if nd.kind != "test":
            return None
        k, s, pos = q.atom_test(nd.ast)
        if k == "lt" and s[0] in len_aliases and s[1] == ev:
            return "F" if pos else "T"
        if k == "lt" and s[0] == ev and s[1] in len_aliases:
            return "T" if pos else "F"
        return None
    return _filter_all_tail(R, ft, fcfg, pfor, outer, pat, repl, lst, iv, site, mt, phead, starts, too_few, enough, set([ev]),
                            "zip() stops early and a partial run at the end of the text is collapsed", "slice")


def _filter_all_tail(R, ft, fcfg, pfor, outer, pat, repl, lst, iv, site, mt, phead, starts, too_few, enough, jump_srcs, short_effect, form):
    # the comparison runs only with enough lines (zip would silently compare a prefix otherwise)
    p = kit.path_avoiding_guard(fcfg, [mt], enough, N, sources=starts)
    R.check(p is None, "C18.FILTER", ft.qualname + ":complete", site, "a pattern is compared only when as many lines remain as it has",
            "a pattern can be compared with fewer remaining lines than it has: " + short_effect,
            fcfg.fmt_path(p) if p else None)
    # a pattern is passed over without comparing only when too few lines remain (a complete run that ends with the last line is still a run)
    p = fcfg.find_path(starts, [phead], N, cut_nodes=[mt],
                       keep_edge=lambda e: not (too_few(fcfg.nodes[e.src]) is not None and e.label == too_few(fcfg.nodes[e.src])))
    R.check(p is None, "C18.FILTER", ft.qualname + ":bounds", site, "a pattern is skipped without comparing only when fewer lines remain than it has",
            "a pattern can be skipped although exactly as many lines remain as it has: a complete boilerplate run that ends with the last line of the "
            "traceback is left uncollapsed", fcfg.fmt_path(p) if p else None)
    # on a match: marker emitted, cursor := end
    tstarts = [e.dst for e in fcfg.out_edges(mt.id, N) if e.label == "T"]
    emits = [n for n, c in kit.call_sites(ft, lambda c: q.attr_call(c)[1] == "append" and repl in q.names_loaded(c))]
    jumps = [n for n in fcfg.nodes if n.kind == "stmt" and ((isinstance(n.ast, ast.Assign) and q.src(n.ast.targets[0]) == iv and q.src(n.ast.value) in jump_srcs)
                                                            or (form == "index" and isinstance(n.ast, ast.AugAssign) and isinstance(n.ast.op, ast.Add) and q.src(n.ast.target) == iv
                                                                and ("%s + %s" % (iv, q.src(n.ast.value))) in jump_srcs))]
    ohead = [n for n in fcfg.nodes if n.kind == "loop" and n.stmt is outer]
    p1 = fcfg.find_path(tstarts, ohead, N, cut_nodes=emits)
    p2 = fcfg.find_path(tstarts, ohead, N, cut_nodes=jumps)
    R.check(p1 is None and p2 is None and emits and jumps, "C18.FILTER", ft.qualname + ":advance", site,
            "a matched run emits its marker and moves the cursor past the run", "after a match the marker is not emitted or the cursor does not move past the run",
            fcfg.fmt_path(p1 or p2) if (p1 or p2) else None)
    # markers only on the match edge
    p = kit.path_avoiding_guard(fcfg, emits, lambda nd: "T" if nd is mt else None, N)
    R.check(p is None, "C18.FILTER", ft.qualname + ":marker", site, "a marker is emitted only for a complete matching run", "a marker can be emitted without a match",
            fcfg.fmt_path(p) if p else None)
    # otherwise the line is copied and the cursor advances by one
    copies = [n for n, c in kit.call_sites(ft, lambda c: q.attr_call(c)[1] == "append" and q.src(c.args[0]) == "%s[%s]" % (lst, iv))]
    by_one = [n for n in fcfg.nodes if n.kind == "stmt" and ((isinstance(n.ast, ast.AugAssign) and q.src(n.ast.target) == iv and q.src(n.ast.value) == "1")
                                                             or (isinstance(n.ast, ast.Assign) and q.src(n.ast.targets[0]) == iv and q.src(n.ast.value) == "%s + 1" % iv))]
    ok = bool(copies) and bool(by_one)
    for cn in copies:
        ok = ok and fcfg.find_path([e.dst for e in fcfg.out_edges(cn.id, N)], ohead, N, cut_nodes=by_one) is None
    R.check(ok, "C18.FILTER", ft.qualname + ":copy", site, "a line that starts no complete run is copied and the cursor advances by one",
            "a line that starts no run is not copied, or the cursor does not advance by one")
    R.info("filter_traceback is written in the %s form; the counter-loop rules do not apply" % form)
    return True


def filter_rules(R):
    repo = R.repo
    ft = repo.fn("debug.filter_traceback")
    fcfg = cfg_of(ft)
    lst = q.param_names(ft.node)[0]
    len_aliases = set(["len(%s)" % lst])
    for n in q.scope_nodes(ft.node):
        if isinstance(n, ast.Assign) and q.src(n.value) == "len(%s)" % lst:
            for t in n.targets:
                if isinstance(t, ast.Name):
                    len_aliases.add(t.id)
    # the lines that are not part of a boilerplate run come out as they went in: the input list is not rebuilt from converted elements
    # (inside asynq/debug.py the names str and repr are the module's own truncating converters, not the builtins)
    for n in q.scope_nodes(ft.node):
        if isinstance(n, ast.Assign) and any(isinstance(t, ast.Name) and t.id == lst for t in n.targets):
            v = n.value
            plain_copy = (isinstance(v, ast.Call) and q.call_name(v) in ("list", "tuple") and len(v.args) == 1 and q.src(v.args[0]) == lst) or \
                (isinstance(v, ast.Subscript) and q.src(v) == "%s[:]" % lst)
            R.check(plain_copy, "C18.FILTER", ft.qualname + ":input", R.site(ft, n),
                    "the input lines are only copied, never converted", "filter_traceback rebuilds its input as `%s`: every line passes through a conversion before it is "
                    "copied to the output - in this module `str`/`repr` are debug.str/debug.repr, which cut a line at DEBUG_STR_REPR_MAX_LENGTH characters and "
                    "drop its newline, so foreign lines do not come out untouched" % q.src(v)[:60])
    fors = [n for n in q.scope_nodes(ft.node) if isinstance(n, ast.For) and isinstance(n.target, ast.Tuple) and len(n.target.elts) == 2]
    R.need(len(fors) == 1, "idiom: filter_traceback has no single loop over (pattern, replacement) pairs")
    pfor = fors[0]
    pat, repl = pfor.target.elts[0].id, pfor.target.elts[1].id
    outer = [n for n in q.scope_nodes(ft.node) if isinstance(n, ast.While) and any(pfor is x for x in ast.walk(n))]
    R.need(len(outer) == 1, "idiom: the pattern loop is not inside one cursor loop")
    outer = outer[0]
    k, s_, pos = q.atom_test(outer.test)
    R.need(k == "lt" and pos and s_[1] in len_aliases, "idiom: unrecognised cursor loop condition `%s`" % q.src(outer.test))
    iv = s_[0]
    # counter: compared with len(pattern)
    jv = None
    plen = set(["len(%s)" % pat]) | set(t.id for n in ast.walk(pfor) if isinstance(n, ast.Assign) and q.src(n.value) == "len(%s)" % pat
                                         for t in n.targets if isinstance(t, ast.Name))
    for n in ast.walk(pfor):
        if isinstance(n, ast.Compare) and len(n.ops) == 1 and isinstance(n.ops[0], (ast.Eq, ast.Lt, ast.GtE, ast.NotEq)):
            sides = [q.src(n.left), q.src(n.comparators[0])]
            if any(x in plen for x in sides):
                other = [x for x in sides if x not in plen][0]
                if other.isidentifier():
                    jv = other
    has_inc = jv is not None and any(n.kind == "stmt" and isinstance(n.ast, ast.AugAssign) and q.src(n.ast.target) == jv and any(n.ast is x for x in ast.walk(pfor))
                                     for n in fcfg.nodes)
    if not has_inc and filter_slice_form(R, ft, fcfg, pfor, outer, pat, repl, lst, iv, len_aliases):
        return
    R.need(jv is not None, "idiom: the match counter compared with len(pattern) was not found")
    incs = [n for n in fcfg.nodes if n.kind == "stmt" and isinstance(n.ast, ast.AugAssign) and q.src(n.ast.target) == jv and isinstance(n.ast.op, ast.Add) and q.src(n.ast.value) == "1"
            and any(n.ast is x for x in ast.walk(pfor))]
    R.need(incs, "idiom: the match counter is never incremented")
    inner = [n for n in ast.walk(pfor) if isinstance(n, (ast.For, ast.While)) and n is not pfor and any(incs[0].ast is x for x in ast.walk(n))]
    R.need(len(inner) >= 1, "idiom: the counter is not incremented inside a matching loop")
    inner = inner[-1]
    ihead = [n for n in fcfg.nodes if (n.kind == "loop" and n.stmt is inner) or (n.kind == "for" and n.ast is inner)]
    R.need(len(ihead) == 1, "idiom: matching loop header")
    phead = kit.one(fcfg.nodes_for(pfor), "pattern loop header")
    ohead = [n for n in fcfg.nodes if n.kind == "loop" and n.stmt is outer]
    R.need(len(ohead) == 1, "idiom: cursor loop header")
    site = R.site(ft, pfor)
    # (a) counter reset per pattern
    resets = [n for n in fcfg.nodes if n.kind == "stmt" and isinstance(n.ast, ast.Assign) and jv in q.names_stored(n.ast) and q.const_value(n.ast.value) == 0]
    starts = [e.dst for e in fcfg.out_edges(phead.id, N) if e.label == "iter"]
    p = fcfg.find_path(starts, ihead, N, cut_nodes=resets)
    R.check(p is None and resets, "C18.FILTER", ft.qualname + ":reset", site,
            "the match counter is reset for every pattern that is tried",
            "the match counter is not reset per pattern: lines matched by an earlier, failed pattern count towards the next one, so an incomplete mixed run is collapsed",
            fcfg.fmt_path(p) if p else None)
    # element of the pattern under comparison
    elem = set(["%s[%s]" % (pat, jv)])
    if isinstance(inner, ast.For) and isinstance(inner.target, ast.Name) and q.src(inner.iter) == pat:
        elem.add(inner.target.id)
    line = "%s[%s + %s]" % (lst, iv, jv)

    def match_edge(nd):
        if nd.kind != "test":
            return None
        k2, s2, pos2 = q.atom_test(nd.ast)
        if k2 == "in" and s2[0] in elem and s2[1] == line:
            return "T" if pos2 else "F"
        return None

    def in_bounds(nd):
        if nd.kind != "test":
            return None
        k2, s2, pos2 = q.atom_test(nd.ast)
        if k2 == "lt" and s2[0].strip("()") == "%s + %s" % (iv, jv) and s2[1] in len_aliases:
            return "T" if pos2 else "F"
        return None
    tests = [n for n in fcfg.nodes if match_edge(n) is not None]
    R.check(len(tests) >= 1, "C18.FILTER", ft.qualname + ":compare", site, "pattern line j is looked for in traceback line i + j",
            "the line comparison is not <pattern line j> in %s" % line)
    # (b) the counter advances only over a matching line
    istarts = [e.dst for e in fcfg.out_edges(ihead[0].id, N)]
    p = kit.path_avoiding_guard(fcfg, incs, match_edge, N, sources=istarts)
    R.check(p is None, "C18.FILTER", ft.qualname + ":count-matches", site,
            "the counter is incremented only after the current pattern line was found in the current traceback line",
            "the counter can advance over a line that does not match", fcfg.fmt_path(p) if p else None)
    # (d) the traceback line is read only inside the list
    p = kit.path_avoiding_guard(fcfg, tests, in_bounds, N, sources=istarts)
    R.check(p is None, "C18.FILTER", ft.qualname + ":bounds", site, "line i + j is read only when i + j < len(tb_list) (a partial run at the end is not an error)",
            "line i + j can be read beyond the end of the list", fcfg.fmt_path(p) if p else None)
    # (c) emission only for a complete run
    emits = [n for n, c in kit.call_sites(ft, lambda c: q.attr_call(c)[1] == "append" and repl in q.names_loaded(c))]
    R.need(len(emits) == 1, "idiom: replacement emission")

    def complete(nd):
        if nd.kind != "test":
            return None
        k2, s2, pos2 = q.atom_test(nd.ast)
        if k2 == "eq" and jv in s2 and any(x in plen for x in s2) and len(set(s2)) == 2:
            return "T" if pos2 else "F"
        if k2 == "lt" and s2[0] == jv and s2[1] in plen:
            return "F" if pos2 else "T"
        return None
    p1 = kit.path_avoiding_guard(fcfg, emits, complete, N)
    R.check(p1 is None, "C18.FILTER", ft.qualname + ":complete-run", R.site(ft, emits[0].ast),
            "a marker is emitted only when the counter reached the pattern's length (every line of the run matched)",
            "a marker can be emitted for a partial run of boilerplate lines", fcfg.fmt_path(p1) if p1 else None)
    flags = [n for n in fcfg.nodes if n.kind == "test" and q.atom_test(n.ast)[:2] == ("truth", "matches")]
    if flags:
        def matched(nd):
            if nd.kind != "test":
                return None
            k2, s2, pos2 = q.atom_test(nd.ast)
            if k2 == "truth" and s2 == "matches":
                return "T" if pos2 else "F"
            return None
        p2 = kit.path_avoiding_guard(fcfg, emits, matched, N)
        fl_resets = [n for n in fcfg.nodes if n.kind == "stmt" and isinstance(n.ast, ast.Assign) and "matches" in q.names_stored(n.ast) and q.const_value(n.ast.value) is True]
        p3 = fcfg.find_path(starts, ihead, N, cut_nodes=fl_resets)
        R.check(p2 is None and p3 is None, "C18.FILTER", ft.qualname + ":flag", R.site(ft, emits[0].ast),
                "the mismatch flag guards the emission and is reset per pattern", "the mismatch flag does not guard the emission or is not reset per pattern")
    # (e) cursor updates
    adv = [n for n in fcfg.nodes if n.kind == "stmt" and isinstance(n.ast, (ast.Assign, ast.AugAssign)) and iv in q.names_stored(n.ast) and any(n.ast is x for x in ast.walk(outer))]
    by_run = [n for n in adv if q.src(n.ast) in ("%s = %s + %s" % (iv, iv, jv), "%s += %s" % (iv, jv), "%s = %s + %s" % (iv, jv, iv))]
    by_one = [n for n in adv if q.src(n.ast) in ("%s += 1" % iv, "%s = %s + 1" % (iv, iv))]
    R.check(len(by_run) >= 1 and len(by_one) >= 1 and len(by_run) + len(by_one) == len(adv), "C18.FILTER", ft.qualname + ":advance", R.site(ft, outer),
            "the cursor advances by the run length after a replacement and by one otherwise", "cursor updates are %s" % sorted(q.src(n.ast) for n in adv))
    copies = [n for n, c in kit.call_sites(ft, lambda c: q.attr_call(c)[1] == "append" and q.src(c.args[0]) == "%s[%s]" % (lst, iv))]
    R.need(copies, "idiom: unmatched lines are not copied as tb_list[i]")
    # after an emission: cursor advanced by the run length before the next outer iteration; no copy in the same iteration
    es = [e.dst for e in fcfg.out_edges(emits[0].id, N)]
    p = fcfg.find_path(es, ohead, N, cut_nodes=by_run)
    R.check(p is None, "C18.FILTER", ft.qualname + ":advance-run", R.site(ft, emits[0].ast), "after a replacement the cursor skips the whole run",
            "after a replacement the cursor can fail to skip the run", fcfg.fmt_path(p) if p else None)
    bool_flags = set()
    for n in q.scope_nodes(ft.node):
        if isinstance(n, ast.Assign) and isinstance(n.value, ast.Constant) and isinstance(n.value.value, bool):
            for t in n.targets:
                if isinstance(t, ast.Name):
                    bool_flags.add(t.id)
    p = fcfg.find_path_flags(es, copies, bool_flags, N, cut_nodes=ohead)
    R.check(p is None, "C18.FILTER", ft.qualname + ":no-double", R.site(ft, emits[0].ast), "a replaced line is not copied as well",
            "a line can be both replaced and copied", fcfg.fmt_path(p) if p else None)
    for cnode in copies:
        cs = [e.dst for e in fcfg.out_edges(cnode.id, N)]
        p = fcfg.find_path(cs, ohead, N, cut_nodes=by_one)
        R.check(p is None, "C18.FILTER", ft.qualname + ":advance-one", R.site(ft, cnode.ast), "after copying a line the cursor advances by one",
                "after copying a line the cursor can fail to advance by one", fcfg.fmt_path(p) if p else None)
    # every iteration of the cursor loop emits or copies (no line is dropped)
    os_ = [e.dst for e in fcfg.out_edges(ohead[0].id, N)]
    body_first = [n for n in fcfg.nodes if n.kind == "test" and n.stmt is outer]
    bs = []
    for t in body_first:
        bs += [e.dst for e in fcfg.out_edges(t.id, N) if e.label == "T"]
    p = fcfg.find_path_flags(bs, ohead, bool_flags, N, cut_nodes=emits + copies)
    R.check(p is None, "C18.FILTER", ft.qualname + ":copy", R.site(ft, outer), "every line either starts a complete run (marker) or is copied unchanged",
            "a line can be dropped (an iteration that neither emits a marker nor copies the line)", fcfg.fmt_path(p) if p else None)
    rets = [q.src(n.value) for n in q.scope_nodes(ft.node) if isinstance(n, ast.Return)]
    outn = q.dotted(q.attr_call(kit.node_calls(emits[0])[0])[0]) if kit.node_calls(emits[0]) else None
    R.check(len(rets) == 1 and rets[0] == outn, "C18.FILTER", ft.qualname + ":returns", R.site(ft), "the filtered list is returned", "returns %s" % rets)
    pats = [n for n in list(q.scope_nodes(ft.node)) + list(repo.modules["debug"].tree.body)
            if isinstance(n, ast.Assign) and isinstance(n.value, ast.Tuple) and len(n.value.elts) == 2 and isinstance(n.value.elts[0], ast.List)]
    R.check(len(pats) >= 3 and all(p_.value.elts[0].elts for p_ in pats), "C18.FILTER", ft.qualname + ":patterns", R.site(ft), "every boilerplate pattern is non-empty (%d patterns)" % len(pats),
            "a boilerplate pattern is empty (it would match everywhere)")


NULLABLE = ("gi_frame", "_generator", "_frame", "creator", "last_task", "tb_next", "f_back", "__traceback__", "cr_frame")


def reentrancy_guards(R, allm, rule):
    """A diagnostic method that guards itself against recursion with a flag (test the flag, set it, clear it in a finally) clears the flag
    only in the activation that set it.  If the early `return "<recursion>"` sits inside the try, the inner (recursion-detecting)
    call's finally clears the outer call's flag: the second reference to the same object recurses without bound."""
    n = 0
    for m in sorted(allm.values(), key=lambda f: f.qualname):
        if m.cls is None:
            continue
        flags = {}
        for recv, attr, node in q.attr_stores(m.node):
            st = q.enclosing_stmt(node)
            if recv == "self" and isinstance(st, ast.Assign) and isinstance(st.value, ast.Constant) and isinstance(st.value.value, bool):
                flags.setdefault(attr, set()).add(st.value.value)
        for attr, vals in sorted(flags.items()):
            if vals != {True, False}:
                continue
            tested = [x for x in q.scope_nodes(m.node) if isinstance(x, (ast.If, ast.IfExp)) and q.atom_test(x.test)[0] == "truth" and q.atom_test(x.test)[1] == "self." + attr]
            if not tested:
                continue
            n += 1
            cfg = cfg_of(m)
            sets_ = [x for x in kit.store_nodes(m, attr) if q.const_value(x.ast.value) is True]
            clears = [x for x in kit.store_nodes(m, attr) if q.const_value(x.ast.value) is False]
            p = cfg.find_path([cfg.entry], clears, N, cut_nodes=sets_)
            R.check(p is None, rule, "%s:%s" % (m.qualname, attr), R.site(m),
                    "self.%s is cleared only by the activation that set it" % attr,
                    "%s can clear self.%s without having set it (the recursion exit runs the finally that resets the flag): the enclosing activation loses its "
                    "guard, and an object that reaches itself twice (a list holding the future twice, two attributes) is printed with unbounded recursion"
                    % (m.qualname, attr), cfg.fmt_path(p) if p else None)
    return n


def diag_robust(R, allm, rule):
    """Diagnostic methods do not dereference attributes that are legitimately None in some lifecycle
    state, and do not use an arbitrary value as the right operand of % (a tuple would be unpacked)."""
    n = 0
    for m in sorted(allm.values(), key=lambda f: f.qualname):
        if m.cls is None:
            continue
        cfg = cfg_of(m)
        # (1) X.<nullable>.<attr> only behind `X.<nullable> is not None`
        for node in q.scope_nodes(m.node):
            if isinstance(node, ast.Attribute) and isinstance(node.value, ast.Attribute) and node.value.attr in NULLABLE and isinstance(node.ctx, ast.Load):
                base = q.src(node.value)
                st = q.enclosing_stmt(node)
                nodes = [x for x in cfg.nodes if x.stmt is st and any(node is y for e in kit.node_exprs(x) for y in ast.walk(e))]

                def notnone(nd, base=base):
                    if nd.kind != "test":
                        return None
                    k, s_, pos = q.atom_test(nd.ast)
                    if k == "isnone" and s_ == base:
                        return "F" if pos else "T"
                    if k == "truth" and s_ == base:
                        return "T" if pos else "F"
                    return None
                ok = bool(nodes) and kit.path_avoiding_guard(cfg, nodes, notnone, N, dead_ok=True) is None
                # expression-level guard: `A if base is not None else B`, `base is not None and base.x`
                if not ok:
                    cur = node
                    for a in q.ancestors(node):
                        if isinstance(a, ast.IfExp) and any(cur is y for y in ast.walk(a.body)):
                            k, s_, pos = q.atom_test(a.test)
                            ok = ok or (k == "isnone" and s_ == base and not pos) or (k == "truth" and s_ == base and pos)
                        if isinstance(a, ast.BoolOp) and isinstance(a.op, ast.And):
                            for v in a.values:
                                if any(cur is y for y in ast.walk(v)):
                                    break
                                k, s_, pos = q.atom_test(v)
                                ok = ok or (k == "isnone" and s_ == base and not pos) or (k == "truth" and s_ == base and pos)
                        if isinstance(a, ast.stmt):
                            break
                        cur = a
                n += 1
                R.check(ok, rule, "%s:%s" % (m.qualname, q.src(node)), R.site(m, node),
                        "%s is read only when %s is not None" % (q.src(node), base),
                        "%s.%s reads %s although %s is None in some lifecycle states (an exhausted generator has no frame, a top-level task no creator, ...): "
                        "printing the object then raises AttributeError" % (m.cls.name, m.name, q.src(node), base))
        # (2) "fmt" % <bare value>
        for node in q.scope_nodes(m.node):
            if isinstance(node, ast.BinOp) and isinstance(node.op, ast.Mod) and isinstance(node.left, ast.Constant) and isinstance(node.left.value, str):
                r = node.right
                if isinstance(r, (ast.Tuple, ast.Dict, ast.Call, ast.Constant, ast.BinOp, ast.JoinedStr)):
                    continue
                safe = False
                if isinstance(r, ast.Name):
                    vals = common.assigned_values(m.node, r.id)
                    # (a local bound to a tuple display whose length matches the directives is the tuple written in place)
                    n_dir = len([x for x in __import__("re").findall(r"%(?:\([^)]*\))?[-#0 +]*\d*(?:\.\d+)?([a-zA-Z%])", node.left.value) if x != "%"])
                    safe = bool(vals) and all(k == "expr" and (isinstance(v, (ast.Call, ast.Constant, ast.BinOp, ast.JoinedStr)) or
                                                              (isinstance(v, ast.Tuple) and len(v.elts) == n_dir and not any(isinstance(e_, ast.Starred) for e_ in v.elts))) for k, v in vals)
                n += 1
                R.check(safe, rule, "%s:%%:%s" % (m.qualname, q.src(r)), R.site(m, node),
                        "the right operand of %% is a tuple or an already formatted string",
                        "%s.%s formats `%s %% %s` with a bare value: when that value is a tuple it is unpacked as the argument list (TypeError for 0 or 2+ elements, "
                        "wrong text for 1)" % (m.cls.name, m.name, q.src(node.left)[:30], q.src(r)))
    return n


def link_recursion(R, ro, rule):
    """A diagnostic method that calls itself on an object reached through a field of self (self.creator.traceback()) recurses
    once per link.  The chains asynq builds - creators, awaiting tasks - are far longer than the interpreter can recurse (the
    scheduler itself is iterative for that reason), and compiled to C the recursion has no depth check at all: it ends in
    RecursionError or a crash instead of the list.  Such a walk is a loop, or carries an explicit depth limit (the dump methods:
    checked by C20.DUMP-BOUNDED)."""
    n = 0
    for cls in (ro.AsyncTask, ro.FutureBase, ro.BatchBase, ro.BatchItemBase):
        for name, m in sorted(cls.methods.items()):
            params = q.param_names(m.node)
            for c in q.calls(m.node):
                recv, attr = q.attr_call(c)
                if attr != name or recv is None:
                    continue
                rs = q.dotted(recv) or ""
                over_deps = any(isinstance(a, ast.For) and q.src(a.target) == rs and "_dependencies" in q.src(a.iter) for a in q.ancestors(c))
                if not (rs.startswith("self.") or over_deps):
                    continue        # (a base-class implementation called on the same object, an object of another kind)
                n += 1
                limited = False
                if len(params) > 1:
                    # depth parameter compared against a module constant before the recursive call, which passes it on increased
                    ind = params[1]
                    # (every path to the recursive call passes a test of the depth parameter; the exact shape is C20.DUMP-BOUNDED's business)
                    mcfg = cfg_of(m)
                    call_nodes = [x for x in mcfg.nodes if any(c is y for y in kit.node_calls(x))]
                    depth_tests = [x for x in mcfg.nodes if x.kind == "test" and ind in q.names_loaded(x.ast)]
                    limited = bool(depth_tests) and bool(call_nodes) and mcfg.find_path([mcfg.entry], call_nodes, N, cut_nodes=depth_tests) is None \
                        and any(ind in q.names_loaded(a) for a in c.args)
                R.check(limited, rule, "%s:%s" % (m.qualname, q.src(c)[:40]), R.site(m, c),
                        "the walk over linked objects in %s is depth-limited" % m.name,
                        "%s calls itself on `%s`: one recursion level per linked object. A chain of tasks is legal far beyond the recursion limit "
                        "(and the compiled method recurses in C without any check): format_asynq_stack() in a deep chain ends in RecursionError or "
                        "a crash instead of listing the tasks" % (m.qualname, rs))
    # the walk over creators exists and is a loop
    tb = ro.AsyncTask.methods.get("traceback")
    R.need(tb is not None, "anchor vanished: AsyncTask.traceback")
    # the line of a task is built from its frame's source, which need not exist (exec'd / generated code: code_context is None ->
    # TypeError; a frame that is gone): whatever goes wrong there, the entry falls back to the task's safe str()
    from ..cfg import ExcHierarchy
    hier_ = ExcHierarchy(R.repo)
    lines = [c for c in q.calls(tb.node) if q.attr_call(c)[1] == "_traceback_line"]
    for c in lines:
        cov = any(kit.handler_covers(h, "Exception", hier_) and not kit.handler_reraises(h) for t in kit.enclosing_try_handlers(c) for h in t.handlers)
        R.check(cov, rule, tb.qualname + ":line-fallback", R.site(tb, c),
                "a failure of _traceback_line() of any Exception class falls back to the task's safe str()",
                "only some exception classes of _traceback_line() are turned into the fallback entry: for a task whose function has no retrievable source "
                "(exec/compile, generated code) inspect yields no source text and the TypeError escapes from format_asynq_stack()")
    R.check(bool(lines), rule, tb.qualname + ":lines", R.site(tb), "traceback() builds its entries with _traceback_line()", "traceback() no longer calls _traceback_line()")
    loops = [w for w in ast.walk(tb.node) if isinstance(w, (ast.While, ast.For))]
    for w in loops:
        if isinstance(w, ast.While):
            k_, s_, pos_ = q.atom_test(w.test)
            only_chain = (k_ == "isnone" and not pos_) or (isinstance(w.test, ast.Constant) and w.test.value is True)
            cuts = [x for x in ast.walk(w) if isinstance(x, ast.Break)]
            early = [x for x in cuts if not any(isinstance(a_, ast.If) and q.atom_test(a_.test)[0] == "isnone" for a_ in q.ancestors(x))]
            R.check(only_chain and not early, rule, tb.qualname + ":whole-chain", R.site(tb, w),
                    "the walk over the creators ends only where the chain ends",
                    "the walk over the creators can stop before the chain ends (`while %s`%s): format_asynq_stack() lists only part of the tasks that created the "
                    "current one - the outermost ones are silently dropped" % (q.src(w.test)[:60], ", break" if early else ""))
    rec = [c for c in q.calls(tb.node) if q.attr_call(c)[1] == "traceback" and q.attr_call(c)[0] is not None and q.src(q.attr_call(c)[0]) != "self"]
    R.check(bool(loops) or bool(rec), rule, tb.qualname + ":walks-creators", R.site(tb),
            "traceback() visits the creating tasks (%s)" % ("in a loop" if loops else "recursively"),
            "traceback() neither loops nor recurses over the creating tasks: only the innermost task is listed")


def no_user_comparison(R, allm, rule):
    """A diagnostic method looks at the value / error a future holds only through identity tests and the containing converters:
    `==`, `<`, `in` on it run the user's __eq__/__lt__/__contains__ - an own-type-only __eq__ raises AttributeError for a future,
    an element-wise one (numpy) returns an array whose truth value raises - and str()/repr() of the future raises with it."""
    from ..cfg import ExcHierarchy
    hier = ExcHierarchy(R.repo)
    n = 0

    def user_value(f, e, depth=0):
        if depth > 3:
            return False
        s_ = q.src(e)
        if s_ in ("self._value", "self._error", "self.value()", "self.error()", "self._last_value"):
            return True
        if isinstance(e, ast.Name):
            vals = common.assigned_values(f.node, e.id)
            return any(k == "expr" and user_value(f, v, depth + 1) for k, v in vals)
        return False
    for f in sorted(allm.values(), key=lambda x: x.qualname):
        for node in q.scope_nodes(f.node):
            if not isinstance(node, ast.Compare):
                continue
            ops = [o for o in node.ops if not isinstance(o, (ast.Is, ast.IsNot))]
            if not ops:
                continue
            operands = [node.left] + list(node.comparators)
            if not any(user_value(f, o) for o in operands):
                continue
            n += 1
            prot = any(kit.handler_covers(h, "Exception", hier) and not kit.handler_reraises(h) for t in kit.enclosing_try_handlers(node) for h in t.handlers)
            R.check(prot, rule, "%s:compare:%s" % (f.qualname, q.src(node)[:40]), R.site(f, node),
                    "the comparison `%s` is contained" % q.src(node)[:40],
                    "%s compares the stored value with `%s`: that runs the value's own %s (a user type whose __eq__ only knows its own kind raises "
                    "AttributeError, an element-wise one returns something whose truth value raises) - str()/repr()/dump of the future raises; an identity "
                    "test (`is`) does not" % (f.qualname, q.src(node)[:50], "__eq__" if isinstance(ops[0], (ast.Eq, ast.NotEq)) else "comparison method"))
    if not n:
        R.ok(rule, "asynq/", "no diagnostic method compares a stored value or error by ==, <, in")


def format_error_total(R, rule):
    """format_error accepts any exception: what it passes to traceback.format_exception as the traceback is the `tb` argument or
    the attribute asynq stamps (`_traceback`) - the latter only when it really is a traceback object, because the attribute name is
    not asynq's alone (an RPC error carrying the remote traceback as text)."""
    f = R.repo.fn("debug.format_error")
    ps = q.param_names(f.node)
    ep, tbp = ps[0], ps[1]
    cfg = cfg_of(f)
    uses = [n for n, c in kit.call_sites(f, lambda c: (q.call_name(c) or "").endswith("format_exception") and len(c.args) >= 3)]
    reads = [n for n in cfg.nodes if n.kind == "stmt" and any(isinstance(x, ast.Attribute) and x.attr == "_traceback" and isinstance(x.ctx, ast.Load)
                                                             and isinstance(x.value, ast.Name) and x.value.id == ep for e_ in kit.node_exprs(n) for x in ast.walk(e_))]

    def checked(nd):
        if nd.kind != "test":
            return None
        k_, s_, pos_ = q.atom_test(nd.ast)
        if k_ == "isinstance" and "TracebackType" in s_[1]:
            return "T" if pos_ else "F"
        return None
    ok = True
    px = None
    if reads:
        # from the read of the attribute to its use as a traceback: through the kind test's true edge, or through a rebinding to None
        clears = [n for n in cfg.nodes if n.kind == "stmt" and isinstance(n.ast, ast.Assign) and any(q.src(t) == tbp for t in n.ast.targets) and q.is_none(n.ast.value)]
        has_test = bool(kit.guard_edges_exist(cfg, checked))
        for r_ in reads:
            after = [e.dst for e in cfg.out_edges(r_.id, N)]
            tests_ = [x for x in cfg.nodes if checked(x) is not None]
            px = cfg.find_path(after, uses, N, cut_nodes=tests_)
            if px is not None or not has_test:
                ok = False
    R.check(ok and bool(uses), rule, f.qualname + ":foreign-traceback", R.site(f),
            "error._traceback is used as a traceback only after a test that it is one",
            "format_error hands whatever `%s._traceback` holds to traceback.format_exception: an exception class with a _traceback attribute of its own "
            "(remote traceback text) makes format_error - and dump_error, the exception hook, the logging formatter - raise AttributeError" % ep,
            cfg.fmt_path(px) if px else None)


def frame_of_failure(R, ro, rule):
    """format_asynq_stack() shows, for a task that has failed, the line of *its own* body at which it failed or let an error through.
    When an error was thrown into the generator, the stepper has recorded the generator's frame (the yield that received it) before
    the throw; the generic handler takes the innermost frame of the traceback only when nothing was recorded - for an error that came
    from further down, that innermost frame belongs to whoever raised it, not to this task."""
    step = ro.generator_step_fn()
    cfg = cfg_of(step)
    stores = [n for n in kit.store_nodes(step, "_frame") if any(isinstance(a, ast.ExceptHandler) for a in q.ancestors(n.ast))]
    R.need(stores, "idiom: the stepper's handler no longer records the failing frame")

    def unset(nd):
        if nd.kind != "test":
            return None
        k_, s_, pos_ = q.atom_test(nd.ast)
        if k_ == "isnone" and s_ == "self._frame":
            return "T" if pos_ else "F"
        return None
    handlers = [n for n in cfg.nodes if n.kind == "except" and any(s_.ast is x for s_ in stores for x in ast.walk(n.ast))]
    p = kit.path_avoiding_guard(cfg, stores, unset, N, sources=handlers) if handlers else None
    R.check(p is None and bool(kit.guard_edges_exist(cfg, unset)), rule, step.qualname + ":own-frame", R.site(step, stores[0].ast),
            "the handler records the traceback's innermost frame only when no frame was recorded before the throw",
            "the handler overwrites the frame recorded before an error was thrown in with the innermost frame of the traceback: for a task that failed by "
            "letting a delivered error through, that is the frame of whoever raised it - format_asynq_stack() in a task created by it lists the raiser "
            "instead of the creating task", cfg.fmt_path(p) if p else None)


def reraise_in_handler(R, rule):
    """An exception that crosses a library task is re-raised where it was caught: a bare `raise` inside the handler adds no frame.
    `raise <remembered error>` after the handler has ended re-raises it from a second place: the traceback gets two frames for that
    one task level."""
    n = 0
    for f in R.repo.all_functions():
        if f.module.name.startswith("tests") or not q.has_yield(f.node):
            continue
        for r in [x for x in q.scope_nodes(f.node) if isinstance(x, ast.Raise) and isinstance(x.exc, ast.Name)]:
            vals = common.assigned_values(f.node, r.exc.id)
            from_handler = [v for k_, v in vals if k_ == "handler"]
            via = []
            for k_, v in vals:
                if k_ == "expr" and isinstance(v, ast.Name):
                    via += [h for kk, h in common.assigned_values(f.node, v.id) if kk == "handler"]
            if not (from_handler or via):
                continue
            n += 1
            inside = any(isinstance(a_, ast.ExceptHandler) and (a_.name == r.exc.id or any(isinstance(h, ast.ExceptHandler) and h is a_ for h in via)) for a_ in q.ancestors(r))
            R.check(inside, rule, "%s:raise:%s" % (f.qualname, r.exc.id), R.site(f, r),
                    "`raise %s` re-raises the exception inside the handler that caught it" % r.exc.id,
                    "%s re-raises a remembered exception (`raise %s`) after the handler that caught it has ended: the traceback of an error that crosses this task "
                    "gets a second frame for the same level (the raise line and the yield line)" % (f.qualname, r.exc.id))
    if not n:
        R.ok(rule, "asynq/", "no library task re-raises a remembered exception outside the handler that caught it")
