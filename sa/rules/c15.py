"""C15 - fn.asyncio() under an event loop matches the asynq result."""
import ast

from ..cfg import cfg_of, N, X, ExcHierarchy
from ..roles import Roles
from .. import q, kit
from . import common

EXPLANATION = (
    "Sibling-agreement, ordering and pairing rules over decorators.convert_asynq_to_async and "
    "asynq_to_async.py: the asyncio driver turns the same generator-termination signals into a result "
    "as the scheduler's driver (StopIteration.value and AsyncTaskResult.result), chooses throw iff an "
    "exception is pending and clears the pending exception after a successful resolve; "
    "resolve_awaitables handles the same structure kinds and preserves kind and order; _gather reads "
    "results only after asyncio.wait(..., ALL_COMPLETED), per task and in input order, distinguishing "
    "failure from a value through task.result(); the mode variable's set() keeps its token and is reset "
    "on every exit; both drivers run inside AsyncioMode; in asyncio mode a synchronous call cannot reach "
    "the blocking path and .asynq() is redirected to .asyncio()."
)


def run(R):
    common.caught_exception_attributes(R, "C15.ENGINES")
    _run(R)


def _run(R):
    R.extra["explanation"] = EXPLANATION
    ro = Roles(R)
    repo = R.repo
    hier = ExcHierarchy(repo)
    conv = repo.fn("decorators.convert_asynq_to_async")
    wrappers = [f for f in conv.nested.values()]
    front = None
    if len(wrappers) != 2:
        # a front function that hands `fn` on to the builder: the builder is analysed in its place, the front separately below
        for c in q.calls(conv.node):
            nm = q.call_name(c)
            cand = repo.fn_opt("decorators.%s" % nm) if nm and nm.isidentifier() else None
            if cand is not None and cand is not conv and len(cand.nested) == 2 and c.args and q.src(c.args[0]) == conv.node.args.args[0].arg:
                front, conv = conv, cand
                wrappers = [f for f in conv.nested.values()]
                break
    R.need(len(wrappers) == 2, "idiom: convert_asynq_to_async no longer defines two wrappers")
    if front is not None:
        # the coroutine function closes over *this* fn: what the front returns must be built for the fn it was given, never looked up
        # under a key that several functions share (code object, name, qualname: closures of one factory share all three)
        mod_tables = set()
        for targets, value, node in repo.module_assigns(front.module):
            if isinstance(value, (ast.Dict, ast.List, ast.Set)) or (isinstance(value, ast.Call) and (q.call_name(value) or "").split(".")[-1] in
                    ("dict", "list", "set", "WeakKeyDictionary", "WeakValueDictionary", "OrderedDict", "defaultdict", "LRUCache")):
                mod_tables.update(targets)
        used = sorted(set(n.id for n in ast.walk(front.node) if isinstance(n, ast.Name) and n.id in mod_tables))
        # a table keyed by the function object itself is a memo per function, which shares nothing between functions
        fparam = front.node.args.args[0].arg if front.node.args.args else None
        def keyed_by_fn(tname):
            uses = [n for n in ast.walk(front.node) if isinstance(n, ast.Name) and n.id == tname]
            keys = []
            for n in ast.walk(front.node):
                if isinstance(n, ast.Subscript) and isinstance(n.value, ast.Name) and n.value.id == tname:
                    keys.append(q.src(n.slice))
                if isinstance(n, ast.Call) and isinstance(n.func, ast.Attribute) and isinstance(n.func.value, ast.Name) and n.func.value.id == tname:
                    if n.func.attr in ("get", "setdefault", "pop") and n.args:
                        keys.append(q.src(n.args[0]))
                    else:
                        keys.append("<%s>" % n.func.attr)
            fal = set([fparam]) | set(t.id for n in ast.walk(front.node) if isinstance(n, ast.Assign) and isinstance(n.value, ast.Name) and n.value.id == fparam
                                      for t in n.targets if isinstance(t, ast.Name))
            for a in list(fal - set([fparam])):
                # the alias is bound exactly once
                if sum(1 for n in ast.walk(front.node) if isinstance(n, ast.Name) and n.id == a and isinstance(n.ctx, ast.Store)) != 1:
                    fal.discard(a)
            return bool(keys) and len(keys) == len(uses) and all(k in fal for k in keys)
        used = [t for t in used if not keyed_by_fn(t)]
        R.check(not used, "C15.FRESH-WRAPPER", front.qualname, R.site(front),
                "fn.asyncio is built from the function it is asked for (no table shared between functions)",
                "%s takes the coroutine function from the module-level table %s: two asynq functions that share the key (closures made by one factory "
                "share __code__, __name__ and __qualname__) get one wrapper, so .asyncio() of the second runs the first one's closure" % (front.qualname, ", ".join(used)))
    gen_w = [w for w in wrappers if any(q.attr_call(c)[1] in ("send", "throw") for c in q.calls(w.node))]
    plain_w = [w for w in wrappers if w not in gen_w]
    R.need(len(gen_w) == 1 and len(plain_w) == 1, "idiom: cannot tell the generator wrapper from the plain wrapper")
    gw, pw = gen_w[0], plain_w[0]
    # ---- ENGINES: termination signals of the scheduler's driver
    drv = ro.step_method_task()
    sched_signals = set()
    for h in [n for n in ast.walk(drv.node) if isinstance(n, ast.ExceptHandler)]:
        t = q.src(h.type) if h.type is not None else None
        if t == "StopIteration" and (any(q.src(x).endswith(".value") for x in ast.walk(h) if isinstance(x, ast.Attribute))
                                     or any(isinstance(x, ast.Call) and q.call_name(x) == "getattr" and len(x.args) >= 2 and q.const_value(x.args[1]) == "value"
                                            and q.src(x.args[0]) == h.name for x in ast.walk(h))):
            sched_signals.add("StopIteration.value")
        if t == "GeneratorExit" and any(isinstance(x, ast.Attribute) and x.attr == "result" for x in ast.walk(h)):
            sched_signals.add("AsyncTaskResult.result")
    R.need(sched_signals == {"StopIteration.value", "AsyncTaskResult.result"}, "idiom: the scheduler's driver no longer converts StopIteration.value / AsyncTaskResult.result (%s)" % sorted(sched_signals))

    def signals_of(w, call_pred):
        out = set()
        for c in [c for c in q.calls(w.node) if call_pred(c)]:
            for tr in kit.enclosing_try_handlers(c)[:1]:
                for h in tr.handlers:
                    t = q.src(h.type) if h.type is not None else ""
                    rets = [x for x in ast.walk(h) if isinstance(x, ast.Return) and x.value is not None]
                    # single-exit form: the handler stores the outcome in a local that the function returns
                    returned = set(x.value.id for x in q.scope_nodes(w.node) if isinstance(x, ast.Return) and isinstance(x.value, ast.Name))
                    stored = [x.value for x in ast.walk(h) if isinstance(x, ast.Assign) and any(isinstance(t_, ast.Name) and t_.id in returned for t_ in x.targets)]
                    vals = [q.src(r.value) for r in rets] + [q.src(v) for v in stored]
                    if t.endswith("StopIteration") and "%s.value" % h.name in vals:
                        out.add("StopIteration.value")
                    if t.endswith("AsyncTaskResult") and "%s.result" % h.name in vals:
                        out.add("AsyncTaskResult.result")
        return out
    gs = signals_of(gw, lambda c: q.attr_call(c)[1] in ("send", "throw"))
    R.check(gs == sched_signals, "C15.ENGINES", gw.qualname + ":signals", R.site(gw),
            "the asyncio driver returns StopIteration.value and AsyncTaskResult.result, like the scheduler's driver",
            "the asyncio driver handles %s but the scheduler's driver handles %s: a body that ends with result(x) works synchronously and raises AsyncTaskResult under .asyncio()"
            % (sorted(gs), sorted(sched_signals)))
    # ... at every place the generator is stepped (send, throw, and a priming next()): each step can be the one at which the body ends
    gen_names = set(t.id for n in q.scope_nodes(gw.node) if isinstance(n, ast.Assign) and isinstance(n.value, ast.Call) and q.call_name(n.value) == "fn"
                    for t in n.targets if isinstance(t, ast.Name))
    step_calls = [c for c in q.calls(gw.node) if (q.attr_call(c)[1] in ("send", "throw", "__next__") and q.attr_call(c)[0] is not None and q.src(q.attr_call(c)[0]) in gen_names)
                  or (q.call_name(c) == "next" and c.args and q.src(c.args[0]) in gen_names)]
    for c in step_calls:
        one = signals_of(gw, lambda x, c=c: x is c)
        R.check(one == sched_signals, "C15.ENGINES", "%s:signals:%s" % (gw.qualname, q.src(c)[:30]), R.site(gw, c),
                "`%s` is covered by the handlers for StopIteration and AsyncTaskResult" % q.src(c)[:30],
                "the step `%s` is covered only by %s: a body that ends there with %s (e.g. `result(cached); return` before its first yield) raises out of "
                ".asyncio() although the synchronous call returns the value" % (q.src(c)[:30], sorted(one) or "no end-of-body handler", sorted(sched_signals - one)))
    R.check(len(step_calls) >= 2, "C15.ENGINES", gw.qualname + ":steps", R.site(gw), "%d generator steps examined" % len(step_calls), "fewer than two generator steps found")
    ps = signals_of(pw, lambda c: q.call_name(c) == "fn")
    R.check("AsyncTaskResult.result" in ps, "C15.ENGINES", pw.qualname + ":signals", R.site(pw),
            "the wrapper for plain functions also converts AsyncTaskResult.result (the scheduler's wrapper routes it the same way)",
            "a plain function that ends with result(x) raises AsyncTaskResult under .asyncio()")
    # send vs throw selection and clearing of the pending exception
    cfg = cfg_of(gw)
    sends = [n for n, c in kit.call_sites(gw, lambda c: q.attr_call(c)[1] == "send")]
    throws = [(n, c) for n, c in kit.call_sites(gw, lambda c: q.attr_call(c)[1] == "throw")]
    R.need(sends and throws, "idiom: the asyncio driver lost send or throw")
    exn = q.src(throws[0][1].args[0])

    def pending(nd, want):
        if nd.kind != "test":
            return None
        k, s, pos = q.atom_test(nd.ast)
        if k == "isnone" and s == exn:
            # isnone true == no exception pending
            return ("F" if pos else "T") if want else ("T" if pos else "F")
        return None
    p = kit.path_avoiding_guard(cfg, [n for n, c in throws], lambda nd: pending(nd, True), N)
    R.check(p is None, "C15.ENGINES", gw.qualname + ":throw-iff-pending", R.site(gw), "throw() only when an exception is pending",
            "throw() can be reached with no pending exception", cfg.fmt_path(p) if p else None)
    p = kit.path_avoiding_guard(cfg, sends, lambda nd: pending(nd, False), N)
    R.check(p is None, "C15.ENGINES", gw.qualname + ":send-iff-clear", R.site(gw), "send() only when no exception is pending",
            "send() can be reached although an exception is pending (it is lost)", cfg.fmt_path(p) if p else None)
    resolves = [n for n in cfg.nodes if n.kind == "stmt" and any(isinstance(x, ast.Await) and isinstance(x.value, ast.Call) and q.call_name(x.value) == "resolve_awaitables" for x in ast.walk(n.ast))]
    R.need(len(resolves) == 1, "idiom: the asyncio driver does not await resolve_awaitables exactly once per iteration")
    rn = resolves[0]
    clears = [n for n in cfg.nodes if n.kind == "stmt" and isinstance(n.ast, ast.Assign) and any(exn in q.names_stored(t) for t in n.ast.targets)]
    starts = [e.dst for e in cfg.out_edges(rn.id, N) if e.label != "exc"]
    p = cfg.find_path(starts, [n for n, c in throws], N, cut_nodes=clears)
    R.check(p is None, "C15.ENGINES", gw.qualname + ":clear-pending", R.site(gw, rn.ast),
            "after a successful resolve the pending exception is cleared before the next step",
            "after a successful resolve the old exception is still pending: once one yield failed (and was caught by the body) every later step throws the stale exception again",
            cfg.fmt_path(p) if p else None)
    # ... on every way from one step to the next throw (a shortcut for a bare `yield` that skips the resolve must not skip the clearing)
    for sn in sends + [n for n, c in throws]:
        after_step = [e.dst for e in cfg.out_edges(sn.id, N) if e.label != "exc"]
        pst = cfg.find_path(after_step, [n for n, c in throws], N, cut_nodes=clears)
        R.check(pst is None, "C15.ENGINES", "%s:fresh-between-steps:%d" % (gw.qualname, sn.lineno - gw.lineno), R.site(gw, sn.ast),
                "between two steps the pending-exception variable is assigned anew",
                "from one step of the generator a throw() can be reached without `%s` being assigned again: an exception the body has caught and handled is thrown "
                "into it a second time at a later, unrelated yield" % exn, cfg.fmt_path(pst) if pst else None)
    okc = all(isinstance(n.ast.value, ast.Constant) and n.ast.value.value is None or isinstance(n.ast.value, (ast.Name, ast.Tuple)) for n in clears)
    # the value sent is the resolved value of the previous yield
    sv = q.src(kit.call_sites(gw, lambda c: q.attr_call(c)[1] == "send")[0][1].args[0])
    okv = isinstance(rn.ast, ast.Assign) and any(sv in q.names_stored(t) for t in rn.ast.targets)
    R.check(okv, "C15.ENGINES", gw.qualname + ":send-value", R.site(gw, rn.ast), "the value sent into the generator is the resolved value of what it yielded",
            "the resolved value is not what is sent into the generator")
    # the caught exception is the one thrown
    hs = [h for tr in kit.enclosing_try_handlers([x for x in ast.walk(rn.ast) if isinstance(x, ast.Await)][0])[:1] for h in tr.handlers]
    okh = bool(hs) and kit.handler_covers(hs[0], "Exception", hier) and any(isinstance(x, ast.Assign) and exn in q.names_stored(x.targets[0]) and hs[0].name in q.names_loaded(x.value) for x in ast.walk(hs[0]))
    R.check(okh, "C15.ENGINES", gw.qualname + ":catch", R.site(gw), "a failure while resolving is caught (Exception) and becomes the pending exception, unchanged",
            "a failure while resolving is not turned into the pending exception")
    # ---- inside AsyncioMode
    for w, pred, what in ((gw, lambda c: q.attr_call(c)[1] in ("send", "throw") or q.call_name(c) == "fn", "generator steps"), (pw, lambda c: q.call_name(c) == "fn", "the function call")):
        for c in [c for c in q.calls(w.node) if pred(c)]:
            withs = [a for a in q.ancestors(c) if isinstance(a, (ast.With, ast.AsyncWith)) and any(q.call_name(it.context_expr) == "AsyncioMode" for it in a.items if isinstance(it.context_expr, ast.Call))]
            R.check(bool(withs), "C15.MODE", "%s:%s" % (w.qualname, q.stmt_key(c)[:40]), R.site(w, c),
                    "%s run inside `with AsyncioMode()`" % what, "%s can run outside AsyncioMode" % what)
    # ---- MODE pairing
    am = repo.modules["asynq_to_async"]
    mode_var = None
    for targets, value, node in repo.module_assigns(am):
        if isinstance(value, ast.Call) and q.call_name(value) in ("ContextVar", "contextvars.ContextVar"):
            mode_var = targets[0]
            dflt = [k.value for k in value.keywords if k.arg == "default"]
            R.check(bool(dflt) and q.const_value(dflt[0]) is False, "C15.MODE", "asynq_to_async:default", R.site(am, node),
                    "asyncio mode is off by default", "the asyncio-mode variable does not default to False")
    if mode_var is None:
        # what does is_asyncio_mode() read instead?
        iam = am.functions.get("is_asyncio_mode")
        names = sorted(set(x.id for x in ast.walk(iam.node) if isinstance(x, ast.Name))) if iam is not None else []
        glob = [nm for nm in names if any(nm in tg for tg, v_, nd_ in repo.module_assigns(am))]
        if glob:
            R.violation("C15.MODE", "asynq_to_async:not-a-contextvar", R.site(iam),
                        "asyncio mode is kept in the module global %s, not in a ContextVar: the flag is process-wide - while one coroutine (or another thread's event "
                        "loop) is inside .asyncio(), unrelated code sees asyncio mode on: a synchronous call raises RuntimeError, .asynq() of a deduplicated function "
                        "returns a coroutine instead of the shared task" % ", ".join(glob))
    R.need(mode_var is not None, "anchor vanished: the asyncio-mode ContextVar")
    setters = []
    for f in repo.all_functions():
        for n, c in kit.call_sites(f, lambda c: q.call_name(c) == "%s.set" % mode_var):
            setters.append((f, n, c))
    R.need(setters, "idiom: nobody sets the asyncio-mode variable")
    for f, n, c in setters:
        site = R.site(f, c)
        key = "%s:set" % f.qualname
        st = q.enclosing_stmt(c)
        tok = None
        if isinstance(st, ast.Assign) and st.value is c:
            tok = q.src(st.targets[0])
        R.check(tok is not None, "C15.MODE", key + ":token", site, "the token returned by set() is kept (%s)" % tok, "the token returned by set() is dropped: the previous value cannot be restored")
        if tok is None:
            continue
        if f.cls is not None and f.name == "__enter__":
            ex = f.cls.methods.get("__exit__")
            R.need(ex is not None, "anchor vanished: %s.__exit__" % f.cls.qualname)
            ecfg = cfg_of(ex)
            tok_names = set([tok])
            for nn in q.scope_nodes(ex.node):
                if isinstance(nn, ast.Assign) and q.src(nn.value) == tok:
                    tok_names.update(t.id for t in nn.targets if isinstance(t, ast.Name))
            resets = [x for x, cc in kit.call_sites(ex, lambda cc: q.call_name(cc) == "%s.reset" % mode_var and cc.args and q.src(cc.args[0]) in tok_names)]

            def no_token(nd):
                if nd.kind != "test":
                    return None
                k, s, pos = q.atom_test(nd.ast)
                if (k == "truth" and s in tok_names):
                    return "F" if pos else "T"
                if k == "isnone" and s in tok_names:
                    return "T" if pos else "F"
                return None

            def keep(e):
                lab = no_token(ecfg.nodes[e.src])
                return not (lab is not None and e.label == lab)
            p = ecfg.find_path([ecfg.entry], [ecfg.exit], N, cut_nodes=resets, keep_edge=keep)
            R.check(p is None and resets, "C15.MODE", key + ":reset", R.site(ex),
                    "__exit__ resets the variable with the kept token on every path (it runs on every exit of the with block)",
                    "__exit__ can return without resetting the asyncio-mode variable", ecfg.fmt_path(p) if p else None)
        else:
            # generator-based context manager or plain function: the reset must run on every exit, exceptional included
            fcfg = cfg_of(f)
            resets = [x for x, cc in kit.call_sites(f, lambda cc: q.call_name(cc) == "%s.reset" % mode_var and cc.args and q.src(cc.args[0]) == tok)]
            starts = [e.dst for e in fcfg.out_edges(n.id, N)]
            p = fcfg.find_path(starts, [fcfg.exit, fcfg.raise_exit], X, cut_nodes=resets)
            R.check(p is None and resets, "C15.MODE", key + ":reset", site,
                    "after set() every exit - exceptional ones included - passes reset(token)",
                    "after set() the function can be left (in particular by an exception thrown in at the yield) without reset(token): asyncio mode stays on "
                    "in the caller's context after a failing .asyncio() call", fcfg.fmt_path(p) if p else None)
    # ---- STRUCT
    ra = repo.fn("asynq_to_async.resolve_awaitables")
    par = q.param_names(ra.node)[0]
    # Each kind of yielded object is followed through the function's flow graph: at a kind test (isinstance(x, K), x is None - also one
    # kept in a boolean local) only the edge that holds for an object of exactly that kind is taken.  What such an object reaches must be
    # one return of the expected shape (locals that merely name a sub-expression are looked through); anything else reaches the TypeError.
    import re as _re
    KINDS = ("Awaitable", "ConstFuture", "BatchItemBase", "list", "tuple", "dict")
    rcfg = cfg_of(ra)

    def truth_of(expr, kind, flags):
        """True/False when the test is decided for an object of `kind`, None when it is not a kind test."""
        k, subj, pos = q.atom_test(expr)
        val = None
        if k == "isinstance" and subj[0] == par:
            names = set(x_.split(".")[-1] for x_ in _re.findall(r"[A-Za-z_][A-Za-z_0-9.]*", subj[1]))
            if names and names <= set(KINDS):
                val = kind in names
        elif k == "isnone" and subj == par:
            val = kind == "None"
        elif k == "truth" and isinstance(subj, str) and subj in flags and isinstance(flags[subj], bool):
            val = flags[subj]
        elif k == "eq" and isinstance(subj, tuple) and len(subj) == 2:
            # a tag chosen under the kind tests and compared later: `kind = _KIND_LIST` ... `if kind == _KIND_LIST:`
            a_, b_ = subj
            if b_ in flags and a_ not in flags:
                a_, b_ = b_, a_
            if a_ in flags and isinstance(flags[a_], tuple):
                other = tag_value(b_)
                if other is not None:
                    val = flags[a_] == other
        if val is None:
            return None
        return val if pos else (not val)

    mod_consts = {}
    for st_ in ra.module.tree.body if hasattr(ra.module, "tree") else []:
        if isinstance(st_, ast.Assign) and len(st_.targets) == 1 and isinstance(st_.targets[0], ast.Name) and isinstance(st_.value, ast.Constant):
            mod_consts[st_.targets[0].id] = mod_consts.get(st_.targets[0].id, []) + [st_.value.value]

    def tag_value(text):
        """("tag", value) for a literal or a module-level name bound once to a literal"""
        try:
            e_ = ast.parse(text, mode="eval").body
        except SyntaxError:
            return None
        if isinstance(e_, ast.Constant):
            return ("tag", repr(e_.value))
        if isinstance(e_, ast.Name) and len(mod_consts.get(e_.id, [])) == 1:
            return ("tag", repr(mod_consts[e_.id][0]))
        return None

    def follow(kind):
        from collections import deque
        seen = set()
        dq = deque([(rcfg.entry if isinstance(rcfg.entry, int) else rcfg.entry.id, ())])
        ends = []
        while dq:
            u, fl = dq.popleft()
            if (u, fl) in seen:
                continue
            seen.add((u, fl))
            nd = rcfg.nodes[u]
            flags = dict(fl)
            only = None
            if nd.kind == "test":
                t = truth_of(nd.ast, kind, flags)
                if t is not None:
                    only = "T" if t else "F"
            elif nd.kind == "stmt" and isinstance(nd.ast, ast.Assign) and len(nd.ast.targets) == 1 and isinstance(nd.ast.targets[0], ast.Name):
                t = truth_of(nd.ast.value, kind, flags) if isinstance(nd.ast.value, (ast.Call, ast.Compare, ast.UnaryOp)) else None
                if t is None and isinstance(nd.ast.value, (ast.Name, ast.Constant)):
                    t = tag_value(q.src(nd.ast.value))
                if t is not None:
                    flags[nd.ast.targets[0].id] = t
                else:
                    flags.pop(nd.ast.targets[0].id, None)
            if nd.kind == "stmt" and isinstance(nd.ast, (ast.Return, ast.Raise)):
                ends.append(nd.ast)
                continue
            nfl = tuple(sorted(flags.items()))
            for e in rcfg.succ[u]:
                if not rcfg.edge_ok(e, N):
                    continue
                if only is not None and e.label in ("T", "F") and e.label != only:
                    continue
                dq.append((e.dst, nfl))
        return ends

    def through(e, depth=0):
        """The expression with single-definition locals replaced by what they name."""
        if depth > 3:
            return e
        class Sub(ast.NodeTransformer):
            def visit_Name(self, node):
                if isinstance(node.ctx, ast.Load) and node.id != par:
                    vals = common.assigned_values(ra.node, node.id)
                    if vals and all(k_ == "expr" for k_, v_ in vals) and len(set(ast.unparse(v_) for k_, v_ in vals)) == 1:
                        # (one definition, or the same expression in several arms)
                        return through(vals[0][1], depth + 1)
                return node
        import copy as _copy
        return Sub().visit(_copy.deepcopy(e))
    reached = dict((kind, follow(kind)) for kind in ("list", "tuple", "dict", "None", "Awaitable", "ConstFuture", "other"))
    for kind in ("list", "tuple", "dict", "None", "Awaitable", "ConstFuture"):
        rets_ = [x_ for x_ in reached[kind] if isinstance(x_, ast.Return)]
        R.check(len(rets_) == 1 and len(reached[kind]) == 1, "C15.STRUCT", ra.qualname + ":" + kind, R.site(ra), "resolve_awaitables handles %s (one way through)" % kind,
                "resolve_awaitables no longer handles %s: an object of that kind reaches %s" % (kind, [q.src(x_)[:50] for x_ in reached[kind]] or "nothing"))

    def ret_of(kind):
        rets_ = [x_ for x_ in reached[kind] if isinstance(x_, ast.Return)]
        if len(rets_) != 1 or len(reached[kind]) != 1:
            return None
        return through(rets_[0].value) if rets_[0].value is not None else ast.Constant(value=None)
    r = ret_of("Awaitable")
    R.check(r is not None and isinstance(r, ast.Await) and q.src(r.value) == par, "C15.STRUCT", ra.qualname + ":awaitable-shape", R.site(ra),
            "an awaitable resolves to its awaited result", "the Awaitable arm returns `%s`" % (ast.unparse(r) if r is not None else None))
    r = ret_of("ConstFuture")
    R.check(r is not None and ast.unparse(r) == "%s.value()" % par, "C15.STRUCT", ra.qualname + ":const-shape", R.site(ra),
            "a ConstFuture resolves to its value", "the ConstFuture arm returns `%s`" % (ast.unparse(r) if r is not None else None))
    r = ret_of("None")
    R.check(r is not None and ast.unparse(r) in ("None", par), "C15.STRUCT", ra.qualname + ":none-shape", R.site(ra), "None resolves to None",
            "the None arm returns `%s`" % (ast.unparse(r) if r is not None else None))
    gl = "await _gather([resolve_awaitables(item) for item in %s])" % par
    r = ret_of("list")
    R.check(r is not None and ast.unparse(r) == gl, "C15.STRUCT", ra.qualname + ":list-shape", R.site(ra), "a list resolves to the list of its resolved members, in order",
            "the list arm returns `%s`" % (ast.unparse(r) if r is not None else None))
    r = ret_of("tuple")
    R.check(r is not None and ast.unparse(r) == "tuple(%s)" % gl, "C15.STRUCT", ra.qualname + ":tuple-shape", R.site(ra), "a tuple resolves to a tuple, in order",
            "the tuple arm returns `%s`" % (ast.unparse(r) if r is not None else None))
    r = ret_of("dict")
    okd = isinstance(r, ast.DictComp) and ast.unparse(r.generators[0].iter).startswith("zip(%s.keys()," % par) and isinstance(r.key, ast.Name)
    okd = okd or (isinstance(r, ast.Call) and q.call_name(r) == "dict" and len(r.args) == 1 and ast.unparse(r.args[0]).startswith("zip(%s.keys()," % par))
    # ... and the values come from the wait-for-all helper, once
    gath = [c for c in ast.walk(r) if isinstance(c, ast.Call) and q.call_name(c) == "_gather"] if r is not None else []
    okd = okd and len(gath) == 1 and ("%s.values()" % par) in ast.unparse(gath[0])
    R.check(okd, "C15.STRUCT", ra.qualname + ":dict-shape", R.site(ra), "a dict resolves to a dict with the same keys in the same order", "the dict arm does not rebuild the dict from its own keys in order")
    raises = [x_ for x_ in reached["other"] if isinstance(x_, ast.Raise)]
    R.check(len(raises) == 1 and len(reached["other"]) == 1 and (q.call_name(raises[0].exc) == "TypeError"), "C15.STRUCT", ra.qualname + ":default", R.site(ra),
            "anything else raises TypeError (as unwrap does)", "an unsupported yielded object no longer raises TypeError")
    # ---- GATHER
    g = repo.fn("asynq_to_async._gather")
    graises = [x for x in q.scope_nodes(g.node) if isinstance(x, ast.Raise)]
    R.check(not graises, "C15.GATHER", "asynq_to_async._gather:first-failure", R.site(g),
            "_gather raises nothing itself: a failure surfaces through task.result() of the first failing awaitable in structure order",
            "_gather raises an exception it picked itself (`%s`): with several failures the one reported need not be the first in structure order, "
            "which is the one the asynq engine throws into the task" % (q.src(graises[0])[:50] if graises else ""))
    gcfg = cfg_of(g)
    gp = q.param_names(g.node)[0]
    waits = [n for n, c in kit.call_sites(g, lambda c: q.call_name(c) == "asyncio.wait" and any(k.arg == "return_when" and q.src(k.value) == "asyncio.ALL_COMPLETED" for k in c.keywords))]
    rets = [n for n in gcfg.nodes if n.kind == "stmt" and isinstance(n.ast, ast.Return) and not (isinstance(n.ast.value, ast.List) and not n.ast.value.elts)]
    p = gcfg.find_path([gcfg.entry], rets, N, cut_nodes=waits)
    R.check(p is None and waits, "C15.GATHER", g.qualname + ":all-completed", R.site(g),
            "results are read only after asyncio.wait(tasks, return_when=ALL_COMPLETED)",
            "_gather does not wait for all awaitables (asyncio.wait ... ALL_COMPLETED) before producing results or raising", gcfg.fmt_path(p) if p else None)
    okr = False
    for n in rets:
        comp = kit.as_comprehension(g.node, n.ast.value)
        if comp is not None and not comp[3] and isinstance(comp[0], ast.Call) and q.attr_call(comp[0])[1] == "result" and q.src(q.attr_call(comp[0])[0]) == comp[1] and isinstance(comp[2], ast.Name):
            tasks_name = comp[2].id
            tv = [v for k, v in common.assigned_values(g.node, tasks_name) if k == "expr"]
            tcomp = kit.as_comprehension(g.node, tv[0] if len(tv) == 1 and not (isinstance(tv[0], ast.List) and not tv[0].elts) else comp[2])
            okr = tcomp is not None and not tcomp[3] and isinstance(tcomp[0], ast.Call) and q.call_name(tcomp[0]) == "asyncio.ensure_future" \
                and [q.src(a) for a in tcomp[0].args] == [tcomp[1]] and q.src(tcomp[2]) == gp
    R.check(okr, "C15.GATHER", g.qualname + ":per-task", R.site(g),
            "each awaitable becomes a task (input order) and its outcome is read with task.result(): the first failure in structure order is raised, and a value "
            "that happens to be an exception object stays a value",
            "_gather does not read each task's outcome with task.result() in input order (e.g. gather(return_exceptions=True) cannot tell a returned exception object from a failure)")
    # ---- REFUSE
    for cq in ("decorators.AsyncDecorator", "decorators.AsyncAndSyncPairDecorator"):
        cls = repo.cls(cq)
        m = cls.methods.get("__call__")
        R.need(m is not None, "anchor vanished: %s.__call__" % cq)
        mcfg = cfg_of(m)
        blocking = [n for n, c in kit.call_sites(m, lambda c: q.attr_call(c)[1] == "value" or q.call_name(c) in ("self.sync_fn", "self._call_pure"))]
        R.need(blocking, "idiom: %s.__call__ has no blocking path" % cq)

        def sync_mode(nd):
            if nd.kind != "test":
                return None
            k, s, pos = q.atom_test(nd.ast)
            if k == "call" and s == "is_asyncio_mode":
                return "F" if pos else "T"
            return None
        p = kit.path_avoiding_guard(mcfg, blocking, sync_mode, N)
        R.check(p is None, "C15.REFUSE", m.qualname + ":no-block", R.site(m),
                "the blocking call is reachable only outside asyncio mode", "in asyncio mode a synchronous call can reach the blocking .value()/sync_fn path",
                mcfg.fmt_path(p) if p else None)
        # in asyncio mode without allow_sync_call -> RuntimeError
        for gnode in kit.guard_edges_exist(mcfg, sync_mode):
            am_lab = "T" if sync_mode(gnode) == "F" else "F"
            starts = [e.dst for e in mcfg.out_edges(gnode.id, N) if e.label == am_lab]

            def allowed(nd):
                if nd.kind != "test":
                    return None
                k, s, pos = q.atom_test(nd.ast)
                if k == "truth" and s == "self.allow_sync_call":
                    return "T" if pos else "F"
                return None

            def keep(e):
                lab = allowed(mcfg.nodes[e.src])
                return not (lab is not None and e.label == lab)
            p = mcfg.find_path(starts, [mcfg.exit], N, keep_edge=keep)
            rr = [n for n in mcfg.nodes if n.kind == "stmt" and isinstance(n.ast, ast.Raise) and q.call_name(n.ast.exc) == "RuntimeError"]
            R.check(p is None and rr, "C15.REFUSE", m.qualname + ":raises", R.site(m, gnode.ast),
                    "in asyncio mode (allow_sync_call off) a synchronous call raises RuntimeError", "in asyncio mode a synchronous call can return without raising RuntimeError",
                    mcfg.fmt_path(p) if p else None)
    # .asynq() redirected to .asyncio() in asyncio mode, before a task is created
    for mq in ("decorators.PureAsyncDecorator._call_pure", "decorators.AsyncProxyDecorator._call_pure", "tools.DeduplicateDecorator.asynq"):
        m = repo.fn(mq)
        mcfg = cfg_of(m)

        def am(nd):
            if nd.kind != "test":
                return None
            k, s, pos = q.atom_test(nd.ast)
            if k == "call" and s == "is_asyncio_mode":
                return "T" if pos else "F"
            return None
        ok = True
        gns = kit.guard_edges_exist(mcfg, am)
        for gnode in gns:
            starts = [e.dst for e in mcfg.out_edges(gnode.id, N) if e.label == am(gnode)]
            redirect = [n for n in mcfg.nodes if n.kind == "stmt" and isinstance(n.ast, ast.Return) and isinstance(n.ast.value, ast.Call) and
                        (q.call_name(n.ast.value) or "").endswith(".asyncio") and common_forward(n.ast.value)]
            p = mcfg.find_path(starts, [mcfg.exit], N, cut_nodes=redirect)
            ok = ok and p is None and bool(redirect)
        R.check(ok and gns, "C15.REDIRECT", mq, R.site(m), "in asyncio mode .asynq(...) returns .asyncio(*args, **kwargs)",
                "in asyncio mode %s does not redirect to .asyncio(*args, **kwargs)" % m.name)
    # the synchronous entry of bound methods goes through the decorator's __call__ (where the refusal lives), and .asyncio()
    # of a bound method passes the instance: the binder rules of C09
    from . import c09
    c09.run(R, "C15.CALLCONV")
    # the asyncio twin is built lazily: it is never called while still None, and a user-supplied one is never replaced
    for cq in ("decorators.PureAsyncDecorator", "decorators.AsyncProxyDecorator"):
        m = repo.cls(cq).methods.get("asyncio")
        R.need(m is not None, "anchor vanished: %s.asyncio" % cq)
        mc = cfg_of(m)
        builds = [n for n in mc.nodes if n.kind == "stmt" and isinstance(n.ast, ast.Assign) and any(q.src(t) == "self.asyncio_fn" for t in n.ast.targets)]
        uses = [n for n, c in kit.call_sites(m, lambda c: q.src(c.func) == "self.asyncio_fn")]
        R.need(builds and uses, "idiom: %s.asyncio no longer builds/calls self.asyncio_fn" % cq)

        def given(nd, want=True):
            if nd.kind != "test":
                return None
            k, s, pos = q.atom_test(nd.ast)
            if k == "isnone" and s == "self.asyncio_fn":
                return ("F" if pos else "T") if want else ("T" if pos else "F")
            return None
        p = mc.find_path([mc.entry], uses, N, cut_nodes=builds, keep_edge=lambda e: not (given(mc.nodes[e.src]) is not None and e.label == given(mc.nodes[e.src])))
        R.check(p is None, "C15.ENGINES", m.qualname + ":built", R.site(m), "self.asyncio_fn is called only after it was given or built",
                "self.asyncio_fn can be called while it is None", mc.fmt_path(p) if p else None)
        p = kit.path_avoiding_guard(mc, builds, lambda nd: given(nd, False), N)
        R.check(p is None, "C15.ENGINES", m.qualname + ":kept", R.site(m), "a given asyncio_fn is never replaced by the converted generator",
                "an asyncio_fn given to the decorator can be overwritten by the converted generator", mc.fmt_path(p) if p else None)
        conv = [c for c in q.calls(m.node) if q.call_name(c) == "convert_asynq_to_async"]
        R.check(len(conv) == 1 and [q.src(a) for a in conv[0].args] == ["self.fn"], "C15.ENGINES", m.qualname + ":source", R.site(m),
                "the twin is converted from the decorated function itself", "the asyncio twin is not built from self.fn")
    # the pair decorator's per-access copy receives the asyncio twin as it was given: the binder's .asyncio() passes the instance
    # itself (like .asynq()), so a twin that __get__ has bound already is handed the instance twice
    pd = repo.cls("decorators.AsyncAndSyncPairDecorator")
    g = pd.methods.get("__get__")
    init = pd.methods.get("__init__")
    R.need(g is not None and init is not None, "anchor vanished: AsyncAndSyncPairDecorator.__get__/__init__")
    ips = q.param_names(init.node)
    R.need("asyncio_fn" in ips and ips[:2] == ["self", "fn"], "idiom: AsyncAndSyncPairDecorator.__init__ lost its asyncio_fn parameter")
    pos = ips.index("asyncio_fn") - 2
    ctor = [c for c in q.calls(g.node) if (q.call_name(c) or "").endswith("decorate") and c.args and q.src(c.args[0]).split(".")[-1] == pd.name]
    R.need(ctor, "idiom: AsyncAndSyncPairDecorator.__get__ no longer builds its copy through decorate()")
    for c in ctor:
        extra = c.args[1:]
        arg = extra[pos] if pos < len(extra) else None
        for k in c.keywords:
            if k.arg == "asyncio_fn":
                arg = k.value
        srcs = [arg]
        if isinstance(arg, ast.Name):
            srcs = [v for k_, v in common.assigned_values(g.node, arg.id) if k_ == "expr"] or [arg]
        bound = [x for x in srcs if x is not None and any(isinstance(y, ast.Call) and (q.attr_call(y)[1] in ("__get__", "partial") or (q.call_name(y) or "").endswith("partial")
                                                                                          or (q.call_name(y) or "").endswith("MethodType")) for y in ast.walk(x))]
        plain = arg is not None and all(q.src(x) == "self.asyncio_fn" for x in srcs)
        if not plain and not bound and arg is not None:
            R.need(False, "idiom: the asyncio_fn handed to the per-access copy (`%s`) is neither self.asyncio_fn nor a recognisable binding of it" % q.src(arg)[:50])
        R.check(plain, "C15.ENGINES", g.qualname + ":asyncio_fn", R.site(g, c),
                "the per-access copy of the pair decorator receives self.asyncio_fn unchanged",
                "__get__ hands the copy %s: the binder's .asyncio() already passes the instance as first argument, so a user-supplied asyncio_fn of a "
                "method is called with the instance twice (obj.m.asyncio(x) raises TypeError while obj.m(x) works)"
                % ("a bound asyncio_fn (`%s`)" % q.src(bound[0])[:50] if bound else "no asyncio_fn at all: a user-supplied twin is dropped for bound access"))
    # the refusal of synchronous calls in asyncio mode is the default: every `allow_sync_call` parameter of the decorators and of their
    # factories defaults to False (with True the call only logs a warning and then blocks the event loop)
    dm_ = repo.modules["decorators"]
    n_allow = 0
    for fdef in [x for x in ast.walk(dm_.tree) if isinstance(x, (ast.FunctionDef, ast.AsyncFunctionDef))]:
        args_ = fdef.args.args
        defaults_ = [None] * (len(args_) - len(fdef.args.defaults)) + list(fdef.args.defaults)
        pairs_ = list(zip(args_, defaults_)) + list(zip(fdef.args.kwonlyargs, fdef.args.kw_defaults))
        for a_, d_ in pairs_:
            if a_.arg != "allow_sync_call" or d_ is None:
                continue
            n_allow += 1
            R.check(isinstance(d_, ast.Constant) and d_.value is False, "C15.MODE", "decorators.%s:allow_sync_call" % fdef.name, R.site(dm_, fdef),
                    "%s(allow_sync_call=False) by default" % fdef.name,
                    "%s() defaults allow_sync_call to %s: a plain synchronous call of an async function inside asyncio mode is then only logged, and blocks the event loop, "
                    "instead of raising RuntimeError" % (fdef.name, q.src(d_)))
    R.need(n_allow >= 4, "fewer allow_sync_call parameters than confirmed by hand (%d < 4)" % n_allow)
    R.require_min("C15.ENGINES", 7)
    R.require_min("C15.MODE", 5)


def common_forward(call):
    star = any(isinstance(a, ast.Starred) for a in call.args)
    dstar = any(k.arg is None for k in call.keywords)
    return star and dstar
