"""C09 - all ways of calling an async function agree, for every kind of callable."""
import ast

from ..cfg import cfg_of, N, X
from ..roles import Roles
from .. import q, kit
from . import common

EXPLANATION = (
    "Argument-forwarding, sibling-agreement and classification rules over decorators.py and the "
    "decorator classes of tools.py: every entry point taking (*args, **kwargs) forwards both, unmodified "
    "and together, on every returning path; the synchronous entry is .value() of the very call the "
    "asynchronous entry makes (or sync_fn for the pair decorators); every binder method tests "
    "`self.instance is None` (identity, not truthiness) and prepends the instance exactly once; the pair "
    "decorator rebinds sync_fn on every attribute access without caching; async_call dispatches every arm "
    "with the same arguments; is_pure_async_fn is constant and consistent with the presence of .asynq; "
    "the helper functions test .asynq, .async, pure in the same precedence; deduplicate keys on the "
    "function's identity and the calling thread evaluated per call."
)

DECORATOR_CLASSES = (
    "decorators.PureAsyncDecorator", "decorators.AsyncDecorator", "decorators.AsyncAndSyncPairDecorator",
    "decorators.AsyncProxyDecorator", "decorators.AsyncAndSyncPairProxyDecorator", "decorators.AsyncWrapper",
    "tools.DeduplicateDecorator",
)
BINDER_CLASSES = (
    "decorators.AsyncDecoratorBinder", "decorators.AsyncAndSyncPairDecoratorBinder", "tools.DeduplicateDecoratorBinder",
)


def forwards(call, va, kw):
    """How does this call use the (*args, **kwargs) of the enclosing entry point?
    'full' (*args and **kwargs), 'pair' (args, kwargs positionally), 'partial', or None."""
    star = any(isinstance(a, ast.Starred) and isinstance(a.value, ast.Name) and a.value.id == va for a in call.args)
    # (self.instance,) + args
    star = star or any(isinstance(a, ast.Starred) and va in q.names_loaded(a.value) for a in call.args)
    dstar = any(k.arg is None and isinstance(k.value, ast.Name) and k.value.id == kw for k in call.keywords)
    if star and dstar:
        return "full"
    plain = [a.id for a in call.args if isinstance(a, ast.Name)]
    if va in plain and kw in plain:
        if plain.index(kw) == plain.index(va) + 1:
            return "pair"
        return "partial"
    if star or dstar or va in plain or kw in plain:
        return "partial"
    return None


def run(R, P="C09"):
    if P == "C09":
        R.extra["explanation"] = EXPLANATION
    ro = Roles(R)
    repo = R.repo
    n_entry = 0
    # ---- FORWARD
    for cq in DECORATOR_CLASSES + BINDER_CLASSES:
        cls = repo.cls(cq)
        for mname, m in cls.methods.items():
            a = m.node.args
            if not (a.vararg and a.kwarg):
                continue
            n_entry += 1
            va, kw = a.vararg.arg, a.kwarg.arg
            site = R.site(m)
            key = m.qualname
            stored = [n for n in q.scope_nodes(m.node) if isinstance(n, ast.Name) and isinstance(n.ctx, ast.Store) and n.id in (va, kw)
                      and not (isinstance(getattr(n, "_parent", None), ast.Assign) and q.src(n._parent.value) in ("(self.instance,) + %s" % va,))]
            R.check(not stored, P + ".FORWARD", key + ":unmodified", site,
                    "%s does not rebind %s/%s" % (mname, va, kw), "%s rebinds its %s/%s before forwarding them" % (mname, va, kw))
            cfg = cfg_of(m)
            fw_nodes, partial = [], []
            for n in cfg.nodes:
                for c in kit.node_calls(n):
                    f = forwards(c, va, kw)
                    if f in ("full", "pair"):
                        fw_nodes.append(n)
                    elif f == "partial":
                        partial.append(c)
            R.check(not partial, P + ".FORWARD", key + ":complete", site,
                    "every call that receives the caller's arguments receives both *%s and **%s" % (va, kw),
                    "%s passes only part of the caller's arguments on (%s): positional or keyword arguments are dropped for this calling convention"
                    % (mname, "; ".join(q.src(c)[:60] for c in partial)))
            # every normal return passes a forwarding call (asyncio-mode refusal paths end in raise or a bare warning)
            rets = [n for n in cfg.nodes if n.kind == "stmt" and isinstance(n.ast, ast.Return) and n.ast.value is not None and not q.is_none(n.ast.value)]
            p = cfg.find_path([cfg.entry], rets, N, cut_nodes=fw_nodes)
            R.check(p is None and fw_nodes, P + ".FORWARD", key + ":reaches", site,
                    "every value-returning path of %s goes through a call that received (*%s, **%s)" % (mname, va, kw),
                    "%s can return a value without having forwarded the caller's arguments" % mname, cfg.fmt_path(p) if p else None)
    R.need(n_entry >= 16, "fewer entry points with (*args, **kwargs) than confirmed by hand (%d < 16)" % n_entry)
    # every other wrapper in the package (module-level helpers, nested closures, methods taking `args, kwargs` as a pair):
    # a call that unpacks one of the two must unpack both.  Plain uses (len(args), key computation) are not forwarding.
    def all_funcs(fi):
        yield fi
        for nf in fi.nested.values():
            for x in all_funcs(nf):
                yield x
    n_sites = 0
    seen_fn = set()
    for f0 in repo.all_functions():
        for f in all_funcs(f0):
            if id(f.node) in seen_fn:
                continue
            seen_fn.add(id(f.node))
            a = f.node.args
            if a.vararg and a.kwarg:
                va, kw = a.vararg.arg, a.kwarg.arg
            elif "args" in [x.arg for x in a.args] and "kwargs" in [x.arg for x in a.args]:
                va, kw = "args", "kwargs"
            else:
                continue
            # a nested wrapper with parameters of its own forwards ITS arguments, not those its enclosing function was called with
            # (those are the arguments of whichever call created the closure - the first one, when the closure is cached)
            enc = f.parent
            if enc is not None and enc.node.args.vararg and enc.node.args.kwarg and (a.vararg and a.kwarg):
                eva, ekw = enc.node.args.vararg.arg, enc.node.args.kwarg.arg
                if (eva, ekw) != (va, kw):
                    for c in ast.walk(f.node):
                        if isinstance(c, ast.Call):
                            st_ = any(isinstance(x, ast.Starred) and eva in q.names_loaded(x.value) for x in c.args)
                            ds_ = any(k.arg is None and ekw in q.names_loaded(k.value) for k in c.keywords)
                            if st_ or ds_:
                                R.violation(P + ".FORWARD", "%s:captured:%s" % (f.qualname, q.src(c.func)[:40]), R.site(f, c),
                                            "%s takes (*%s, **%s) but passes on (*%s, **%s) of the enclosing %s: every call re-uses the arguments of the "
                                            "call that created the closure" % (f.qualname, va, kw, eva, ekw, enc.name))
            for c in ast.walk(f.node):
                if not isinstance(c, ast.Call):
                    continue
                star = any(isinstance(x, ast.Starred) and va in q.names_loaded(x.value) for x in c.args)
                dstar = any(k.arg is None and kw in q.names_loaded(k.value) for k in c.keywords)
                if not (star or dstar):
                    continue
                n_sites += 1
                R.check(star and dstar, P + ".FORWARD", "%s:unpack:%s" % (f.qualname, q.src(c.func)[:40]), R.site(f, c),
                        "%s receives both *%s and **%s" % (q.src(c.func)[:40], va, kw),
                        "%s passes only %s on to %s: the caller's %s arguments are dropped" % (f.qualname, "*" + va if star else "**" + kw, q.src(c.func)[:40],
                                                                                           "keyword" if star else "positional"))

    # ---- FACTORY: asynq(...) / async_proxy(...) pick the decorator class by (pure, sync_fn) and hand every option to the constructor
    # parameter of the same (public) name
    alias = {"cls": "task_cls"}
    want_guard = {
        "decorators.asynq.decorate": {"PureAsyncDecorator": [("pure", True)], "AsyncDecorator": [("pure", False), ("sync_fn", None)],
                                      "AsyncAndSyncPairDecorator": [("pure", False), ("sync_fn", "given")]},
        "decorators.async_proxy.decorate": {"AsyncProxyDecorator": [("pure", False), ("sync_fn", None)],
                                            "AsyncAndSyncPairProxyDecorator": [("pure", False), ("sync_fn", "given")], "<fn>": [("pure", True)]},
    }
    for fq, table in want_guard.items():
        fac = repo.fn(fq)
        outer_params = set(q.param_names(fac.parent.node)) | set([fac.parent.node.args.kwarg.arg] if fac.parent.node.args.kwarg else [])
        fcfg = cfg_of(fac)
        seen_cls = set()
        for n in fcfg.nodes:
            if n.kind != "stmt":
                continue
            tgt = None
            for c in kit.node_calls(n):
                if (q.call_name(c) or "").endswith("decorate") and c.args and isinstance(c.args[0], ast.Name) and c.args[0].id in table:
                    tgt = c.args[0].id
                    cls_ = repo.cls("decorators." + tgt)
                    init = cls_.find_method("__init__")
                    ps = q.param_names(init.node)[2:]
                    for i, a in enumerate(c.args[1:]):
                        if isinstance(a, ast.Name) and a.id in outer_params:
                            R.check(i < len(ps) and ps[i] in (a.id, alias.get(a.id, a.id)), P + ".FACTORY", "%s:%s:%s" % (fq, tgt, a.id), R.site(fac, c),
                                    "%s= reaches %s.__init__'s parameter %s" % (a.id, tgt, alias.get(a.id, a.id)),
                                    "the option %s= is handed to %s.__init__ as its parameter `%s`" % (a.id, tgt, ps[i] if i < len(ps) else "<none>"))
                    for k_ in c.keywords:
                        if k_.arg is not None and isinstance(k_.value, ast.Name) and k_.value.id in outer_params:
                            R.check(k_.arg in (k_.value.id, alias.get(k_.value.id, k_.value.id)), P + ".FACTORY", "%s:%s:%s" % (fq, tgt, k_.value.id), R.site(fac, c),
                                    "%s= reaches the parameter of the same name" % k_.value.id, "the option %s= is passed as %s=" % (k_.value.id, k_.arg))
            if tgt is None and isinstance(n.ast, ast.Return) and isinstance(n.ast.value, ast.Name) and n.ast.value.id == q.param_names(fac.node)[0] and "<fn>" in table:
                tgt = "<fn>"
            if tgt is None:
                continue
            seen_cls.add(tgt)
            for var, want in table[tgt]:
                def g(nd, var=var, want=want):
                    if nd.kind != "test":
                        return None
                    k, s, pos = q.atom_test(nd.ast)
                    if var == "pure" and k == "truth" and s == "pure":
                        return ("T" if pos else "F") if want else ("F" if pos else "T")
                    if var == "sync_fn" and k == "isnone" and s == "sync_fn":
                        return ("T" if pos else "F") if want is None else ("F" if pos else "T")
                    return None
                p = kit.path_avoiding_guard(fcfg, [n], g, N)
                R.check(p is None, P + ".FACTORY", "%s:%s:when-%s" % (fq, tgt, var), R.site(fac, n.ast),
                        "%s is chosen only when %s is %s" % (tgt, var, want), "%s can be chosen although %s is not %s: the function gets the calling conventions of another decorator kind" % (tgt, var, want),
                        fcfg.fmt_path(p) if p else None)
        R.check(seen_cls == set(table), P + ".FACTORY", fq + ":kinds", R.site(fac), "the factory can build %s" % sorted(table), "the factory builds %s, not %s" % (sorted(seen_cls), sorted(table)))
    # constructors: every option is kept under its own name or handed to the base constructor's parameter of that name
    same = lambda a, b: a == b or alias.get(a, a) == b or alias.get(b, b) == a
    for cq in DECORATOR_CLASSES:
        cls_ = repo.cls(cq)
        init = cls_.methods.get("__init__")
        if init is None:
            continue
        ps = q.param_names(init.node)[1:]
        loads = set(x.id for x in q.scope_nodes(init.node) if isinstance(x, ast.Name) and isinstance(x.ctx, ast.Load))
        for p_ in ps:
            R.check(p_ in loads, P + ".FACTORY", "%s:uses:%s" % (init.qualname, p_), R.site(init), "%s.__init__ uses its parameter %s" % (cls_.name, p_),
                    "%s.__init__ ignores its parameter %s: the option given to the decorator is dropped" % (cls_.name, p_))
        for st in q.scope_nodes(init.node):
            if isinstance(st, ast.Assign) and isinstance(st.value, ast.Name) and st.value.id in ps:
                for t in st.targets:
                    if isinstance(t, ast.Attribute) and q.src(t.value) == "self" and t.attr in ps + [alias.get(x, x) for x in ps] and not same(t.attr, st.value.id):
                        R.violation(P + ".FACTORY", "%s:store:%s" % (init.qualname, t.attr), R.site(init, st),
                                    "%s.__init__ stores its parameter %s in the field %s, which belongs to another option" % (cls_.name, st.value.id, t.attr))
        for c in q.calls(init.node):
            if not (isinstance(c.func, ast.Attribute) and c.func.attr == "__init__"):
                continue
            tg = [t for cc, tgs, kind in R.res.callees(init) if cc is c for t in tgs]
            explicit_self = bool(c.args) and q.src(c.args[0]) == "self"
            for t in tg[:1]:
                bps = q.param_names(t.node)[1:]
                args_ = c.args[1:] if explicit_self else c.args
                for i, a in enumerate(args_):
                    if isinstance(a, ast.Name) and a.id in ps and i < len(bps):
                        R.check(same(bps[i], a.id) or bps[i] not in ps + [alias.get(x, x) for x in ps], P + ".FACTORY", "%s:base:%s" % (init.qualname, a.id), R.site(init, c),
                                "%s is handed to the base constructor's parameter %s" % (a.id, bps[i]),
                                "%s.__init__ hands %s to the base constructor's parameter `%s`" % (cls_.name, a.id, bps[i]))
                for k_ in c.keywords:
                    if k_.arg is not None and isinstance(k_.value, ast.Name) and k_.value.id in ps:
                        R.check(same(k_.arg, k_.value.id), P + ".FACTORY", "%s:base:%s" % (init.qualname, k_.value.id), R.site(init, c),
                                "%s is handed to the base constructor as %s=" % (k_.value.id, k_.arg), "%s.__init__ hands %s to the base constructor as %s=" % (cls_.name, k_.value.id, k_.arg))
    # the task object is built by the class given with cls=, from the generator and the call's own (fn, args, kwargs), with the
    # decorator's extra keyword options passed on
    pcp = repo.cls("decorators.PureAsyncDecorator").methods.get("_call_pure")
    R.need(pcp is not None, "anchor vanished: PureAsyncDecorator._call_pure")
    tcs = [c for c in q.calls(pcp.node) if q.src(c.func) == "self.task_cls"]
    pp_ = q.param_names(pcp.node)
    okt = len(tcs) == 1 and len(tcs[0].args) == 4 and [q.src(a) for a in tcs[0].args[1:]] == ["self.fn", pp_[1], pp_[2]] \
        and any(k.arg is None and q.src(k.value) == "self.kwargs" for k in tcs[0].keywords)
    if okt:
        gen = tcs[0].args[0]
        gv = [v for k_, v in common.assigned_values(pcp.node, gen.id) if k_ == "expr"] if isinstance(gen, ast.Name) else []
        okt = bool(gv) and all(isinstance(v, ast.Call) and q.src(v.func) in ("self.fn", "self._fn_wrapper") for v in gv)
    R.check(okt, P + ".FACTORY", pcp.qualname + ":task", R.site(pcp),
            "the task is self.task_cls(<generator of this call>, self.fn, args, kwargs, **self.kwargs)",
            "the task object is not built as self.task_cls(generator, self.fn, args, kwargs, **self.kwargs): a custom task class (cls=) or its "
            "keyword options are bypassed, or the task records other arguments than the call's")
    # a decorator that stacks on another one (deduplicate on an @asynq function) leaves the synchronous call to the wrapped
    # decorator: it inherits __call__ (-> self.fn(*args, **kwargs)), so that a sync_fn given there keeps being honoured
    dd_ = repo.cls("tools.DeduplicateDecorator")
    own_call = dd_.methods.get("__call__")
    okc = own_call is None
    if own_call is not None:
        ocfg = cfg_of(own_call)
        good_ = [n for n in ocfg.nodes if n.kind == "stmt" and isinstance(n.ast, ast.Return) and isinstance(n.ast.value, ast.Call)
                 and q.src(n.ast.value.func) in ("self.fn", "AsyncDecorator.__call__", "super().__call__") and forwards(n.ast.value, "args", "kwargs") == "full"]
        okc = ocfg.find_path([ocfg.entry], [ocfg.exit], N, cut_nodes=good_) is None and bool(good_)
    R.check(okc, P + ".ROUTE", dd_.qualname + ":sync", R.site(dd_.module, dd_.node),
            "the synchronous call of a deduplicated function goes to the wrapped function's own synchronous call",
            "DeduplicateDecorator.__call__ does not hand the synchronous call to the wrapped function: a sync_fn given to the underlying "
            "@asynq(sync_fn=...) is bypassed and the async body runs instead")
    # ---- ROUTE: sync = .value() of async
    def ret_srcs(m):
        return [q.src(n.value) for n in ast.walk(m.node) if isinstance(n, ast.Return) and n.value is not None and not q.is_none(n.value)]

    ad = repo.cls("decorators.AsyncDecorator")
    pad = repo.cls("decorators.PureAsyncDecorator")
    aw = repo.cls("decorators.AsyncWrapper")
    for cls in (ad, aw):
        asy, syn = cls.methods.get("asynq"), cls.methods.get("__call__")
        R.need(asy is not None and syn is not None, "anchor vanished: %s.asynq/__call__" % cls.qualname)
        ra = ret_srcs(asy)
        R.check(len(ra) == 1 and ("args" in ra[0] and "kwargs" in ra[0]), P + ".ROUTE", asy.qualname, R.site(asy),
                ".asynq(...) returns %s" % (ra[0] if ra else None), ".asynq(...) does not return one call built from (args, kwargs): %s" % ra)
        rs = ret_srcs(syn)
        R.check(len(ra) == 1 and rs == [ra[0] + ".value()"], P + ".ROUTE", syn.qualname, R.site(syn),
                "the synchronous call is .value() of the very expression .asynq returns", "the synchronous call returns %s, not (%s).value()" % (rs, ra[0] if ra else None))
    # make_async_decorator hands the user's wrapper (any callable that returns a future) to AsyncWrapper as it is, and AsyncWrapper
    # calls exactly that: a wrapper that is "normalised" first (get_async_fn(..., wrap_if_none=True) boxes what a plain function
    # returns in a ConstFuture) makes every convention deliver the inner task object instead of its result
    mad = repo.modules["decorators"].functions.get("make_async_decorator")
    R.need(mad is not None, "anchor vanished: decorators.make_async_decorator")
    wp = q.param_names(mad.node)[1]
    rebound = [n for n in q.scope_nodes(mad.node) if isinstance(n, (ast.Assign, ast.AugAssign)) and wp in q.names_stored(n)]
    decs = [c for c in q.calls(mad.node) if (q.call_name(c) or "").split(".")[-1] == "decorate" and c.args and q.src(c.args[0]).split(".")[-1] == "AsyncWrapper"]
    okw = len(decs) == 1 and len(decs[0].args) >= 2 and q.src(decs[0].args[1]) == wp and not rebound
    R.check(okw, P + ".ROUTE", mad.qualname + ":wrapper", R.site(mad, (rebound or decs or [mad.node])[0]),
            "make_async_decorator builds AsyncWrapper from the wrapper function it was given",
            "make_async_decorator does not hand `%s` itself to AsyncWrapper (%s): an ordinary function that returns a future - the documented kind of wrapper - "
            "is taken for a synchronous function and its future is boxed, so every calling convention delivers the uncomputed inner task"
            % (wp, "; ".join(q.src(n)[:60] for n in rebound) or "other argument"))
    ca_ = aw.methods.get("_call_async")
    via_ = ret_srcs(ca_) if ca_ is not None else ret_srcs(aw.methods["asynq"])
    R.check(via_ == ["self.wrapper_fn(*args, **kwargs)"], P + ".ROUTE", aw.qualname + ":calls-wrapper", R.site(aw.module, aw.node),
            "AsyncWrapper calls self.wrapper_fn(*args, **kwargs)", "AsyncWrapper's asynchronous call returns %s" % via_)
    cpa = ret_srcs(ad.methods["asynq"])
    R.check(cpa == ["self._call_pure(args, kwargs)"], P + ".ROUTE", ad.qualname + ":call_pure", R.site(ad.methods["asynq"]),
            "AsyncDecorator.asynq goes through _call_pure(args, kwargs)", "AsyncDecorator.asynq returns %s" % cpa)
    pc = pad.methods.get("__call__")
    R.check(ret_srcs(pc) == ["self._call_pure(args, kwargs)"], P + ".ROUTE", pc.qualname, R.site(pc),
            "calling a pure async function returns the task of _call_pure(args, kwargs)", "pure __call__ no longer returns _call_pure(args, kwargs)")
    for cq in ("decorators.AsyncAndSyncPairDecorator", "decorators.AsyncAndSyncPairProxyDecorator"):
        c = repo.cls(cq)
        syn = c.methods.get("__call__")
        R.need(syn is not None, "anchor vanished: %s.__call__" % cq)
        rs = ret_srcs(syn)
        R.check(rs == ["self.sync_fn(*args, **kwargs)"], P + ".ROUTE", syn.qualname, R.site(syn),
                "with sync_fn supplied the synchronous call runs sync_fn(*args, **kwargs)", "the pair decorator's synchronous call returns %s" % rs)
    # _call_pure builds the task from the same fn/args/kwargs
    cp = pad.methods.get("_call_pure")
    tc = [c for c in q.calls(cp.node) if q.call_name(c) == "self.task_cls"]
    okt = len(tc) == 1 and [q.src(a) for a in tc[0].args][1:] == ["self.fn", "args", "kwargs"]
    R.check(okt, P + ".ROUTE", cp.qualname + ":task", R.site(cp), "_call_pure creates task_cls(<generator>, self.fn, args, kwargs, ...)",
            "_call_pure no longer creates the task from (self.fn, args, kwargs)")
    gens = common.assigned_values(cp.node, q.src(tc[0].args[0])) if tc and isinstance(tc[0].args[0], ast.Name) else []
    gsrc = sorted(q.src(v) for k, v in gens if k == "expr")
    R.check(gsrc == ["self._fn_wrapper(args, kwargs)", "self.fn(*args, **kwargs)"], P + ".ROUTE", cp.qualname + ":body", R.site(cp),
            "the task's generator is self.fn(*args, **kwargs) or the wrapper around it", "the task's generator is built from %s" % gsrc)
    fw = pad.methods.get("_fn_wrapper")
    inner = [c for c in q.calls(fw.node) if q.call_name(c) == "self.fn"]
    R.check(len(inner) == 1 and forwards(inner[0], "args", "kwargs") == "full", P + ".ROUTE", fw.qualname, R.site(fw),
            "the wrapper calls self.fn(*args, **kwargs)", "the wrapper does not call self.fn(*args, **kwargs)")
    # ... and completes the task with whatever the function returned, unconditionally (a plain body may return anything a generator
    # body may return after its last yield - a future object included)
    if len(inner) == 1:
        par = getattr(inner[0], "_parent", None)
        how = None
        if isinstance(par, ast.Call) and isinstance(getattr(par, "_parent", None), ast.Raise) and (q.call_name(par) or "").split(".")[-1] == "AsyncTaskResult":
            how = "direct"
        elif isinstance(par, ast.Call):
            nm_ = q.call_name(par) or ""
            tgt = None
            for c_, tg_, k_ in R.res.callees(fw):
                if c_ is par and k_ in ("resolved", "cha") and tg_:
                    tgt = tg_[0]
            if tgt is not None:
                conditional = [x for x in ast.walk(tgt.node) if isinstance(x, (ast.Assert, ast.If, ast.Try))]
                raises_ = [x for x in ast.walk(tgt.node) if isinstance(x, ast.Raise) and isinstance(x.exc, ast.Call) and (q.call_name(x.exc) or "").split(".")[-1] == "AsyncTaskResult"]
                how = "helper" if raises_ and not conditional else "conditional:%s" % tgt.qualname
            else:
                how = "unresolved:%s" % nm_
        elif isinstance(par, ast.Return):
            how = "direct"
        R.check(how in ("direct", "helper"), P + ".ROUTE", fw.qualname + ":result", R.site(fw, inner[0]),
                "the wrapper hands the function's return value to the task as it is",
                "the wrapper passes the function's return value through %s, which accepts only some values (an assertion / a test on the value): a plain body "
                "that returns a future object fails with AssertionError, while the same function written as a generator hands the future back - the calling "
                "conventions no longer agree" % (how or "?").split(":")[-1])
    # proxy: _call_pure returns self.fn(*args, **kwargs)
    apd = repo.cls("decorators.AsyncProxyDecorator")
    pcp = apd.methods.get("_call_pure")
    rs = ret_srcs(pcp)
    R.check("self.fn(*args, **kwargs)" in rs, P + ".ROUTE", pcp.qualname, R.site(pcp), "async_proxy returns the future its function returns",
            "async_proxy no longer returns self.fn(*args, **kwargs)")

    # ---- BINDERS
    n_b = 0
    for cq in BINDER_CLASSES:
        cls = repo.cls(cq)
        for mname, m in cls.methods.items():
            a = m.node.args
            if not (a.vararg and a.kwarg):
                continue
            n_b += 1
            site = R.site(m)
            if cq.endswith("AsyncAndSyncPairDecoratorBinder") and mname == "__call__":
                rs = ret_srcs(m)
                R.check(rs == ["self.decorator(*args, **kwargs)"], P + ".BINDERS", m.qualname, site,
                        "the pair binder calls the decorator without the instance (sync_fn was bound by __get__)",
                        "the pair binder's __call__ returns %s: the instance is added a second time or the arguments change" % rs)
                continue
            target = "self.decorator." + mname
            form = binder_form(m, target)
            if form is None:
                truthy = [x for x in ast.walk(m.node) if isinstance(x, (ast.If, ast.IfExp, ast.While)) and q.atom_test(x.test)[0] == "truth" and q.atom_test(x.test)[1] == "self.instance"]
                if truthy:
                    R.violation(P + ".BINDERS", m.qualname + ":test", site,
                                "the binder decides by the truth value of self.instance (`%s`): an instance that is falsy (an empty container, a zero-like "
                                "value object) is treated as 'not bound' and dropped from the call" % q.src(truthy[0].test))
                    continue
            R.need(form is not None, "idiom: binder method %s is neither an if/else on self.instance nor a conditional expression" % m.qualname)
            test, none_args, inst_args, kw_ok = form
            k, s, pos = q.atom_test(test)
            R.check(k == "isnone" and s == "self.instance", P + ".BINDERS", m.qualname + ":test", site,
                    "the binder tests `self.instance is None` (identity)",
                    "the binder tests `%s` instead of `self.instance is None`: a bound instance that is falsy (empty container, zero-like object) "
                    "is treated as unbound and loses its self argument" % q.src(test))
            if not (k == "isnone" and pos):
                # `is not None` / truthiness: the first arm is the instance arm
                none_args, inst_args = inst_args, none_args
                if k == "isnone" and not pos:
                    pass
                elif k != "isnone" and not pos:
                    none_args, inst_args = inst_args, none_args
            okn = none_args == ["*args"] and kw_ok
            oki = inst_args in (["self.instance", "*args"], ["*(self.instance,) + args"], ["*((self.instance,) + args)"]) and kw_ok
            R.check(okn, P + ".BINDERS", m.qualname + ":unbound", site, "unbound: %s(*args, **kwargs)" % target,
                    "the unbound arm is not %s(*args, **kwargs)" % target)
            R.check(oki, P + ".BINDERS", m.qualname + ":bound", site, "bound: %s(self.instance, *args, **kwargs) - instance first and once" % target,
                    "the bound arm does not pass the instance exactly once, first: %s" % inst_args)
    R.need(n_b >= 4, "fewer binder methods than confirmed by hand (%d < 4)" % n_b)
    # every decorator class that defines asynq uses a binder that defines asynq
    for cq in DECORATOR_CLASSES:
        cls = repo.cls(cq)
        if cls.find_method("asynq") is None:
            continue
        b = None
        for c in cls.mro():
            if hasattr(c, "class_assigns") and "binder_cls" in c.class_assigns:
                b = c.class_assigns["binder_cls"].value
                break
        bc = repo.resolve_dotted(cls.module, q.dotted(b)) if b is not None else None
        okb = bc is not None and bc[0] == "class" and bc[1].find_method("asynq") is not None
        R.check(okb, P + ".BINDERS", cq + ":binder_cls", R.site(cls.module, cls.node),
                "%s binds methods with a binder that offers .asynq" % cls.name, "%s has .asynq but its binder class does not: bound methods lose .asynq" % cls.name)
        # a binder whose synchronous __call__ does not pass the instance on is only right for a decorator that binds the
        # instance itself when it is looked up (a __get__ of its own, as the async/sync pair has)
        if bc is not None and bc[0] == "class":
            bcall = bc[1].find_method("__call__")
            if bcall is not None:
                passes = any("self.instance" in q.src(c_) for c_ in q.calls(bcall.node))
                R.check(passes or cls.find_method("__get__") is not None, P + ".BINDERS", cq + ":binder-call", R.site(cls.module, cls.node),
                        "the synchronous call of a bound %s receives the instance (from the binder or from the decorator's own __get__)" % cls.name,
                        "%s uses %s, whose __call__ does not pass the instance on, but does not bind it in a __get__ of its own either: "
                        "obj.method(x) calls the synchronous function without self" % (cls.name, bc[1].name))
        for extra in ("asyncio", "dirty"):
            if cls.find_method(extra) is not None and extra in cls.methods:
                okx = bc is not None and bc[0] == "class" and bc[1].find_method(extra) is not None
                R.check(okx, P + ".BINDERS", cq + ":binder:" + extra, R.site(cls.module, cls.node),
                        "the binder of %s offers .%s" % (cls.name, extra), "%s defines .%s but its binder does not" % (cls.name, extra))

    # ---- PAIR-REBIND
    pd = repo.cls("decorators.AsyncAndSyncPairDecorator")
    g = pd.methods.get("__get__")
    R.need(g is not None, "anchor vanished: AsyncAndSyncPairDecorator.__get__")
    gcfg = cfg_of(g)
    gp = q.param_names(g.node)
    bind = [n for n, c in kit.call_sites(g, lambda c: q.call_name(c) == "self.sync_fn.__get__" and [q.src(a) for a in c.args] == gp[1:3])]
    bound_names = set(t.id for n in q.scope_nodes(g.node) if isinstance(n, ast.Assign) and isinstance(n.value, ast.Call) and q.call_name(n.value) == "self.sync_fn.__get__"
                      for t in n.targets if isinstance(t, ast.Name))
    # a fresh copy of the decorator is built with the freshly bound sync_fn: decorate(<cls>, ..., <bound>, ...)
    fresh = [n for n, c in kit.call_sites(g, lambda c: (q.call_name(c) or "").endswith("decorate") and (bound_names & q.names_loaded(c)))]
    rets = [n for n in gcfg.nodes if n.kind == "stmt" and isinstance(n.ast, ast.Return)]
    p1 = gcfg.find_path([gcfg.entry], rets, N, cut_nodes=bind)
    p2 = gcfg.find_path([gcfg.entry], rets, N, cut_nodes=fresh)
    R.check(p1 is None and p2 is None and bind and fresh, P + ".PAIR-REBIND", g.qualname, R.site(g),
            "every attribute access binds sync_fn to the accessing (owner, cls) and builds a fresh copy of the decorator with it",
            "__get__ can return without rebinding sync_fn for this (owner, cls) (cached copy): the synchronous call runs sync_fn on whichever instance touched the attribute first",
            gcfg.fmt_path(p1 or p2) if (p1 or p2) else None)
    st = [x for x in q.attr_stores(g.node) if x[0] == "self"] + [n for n in ast.walk(g.node) if isinstance(n, ast.Subscript) and isinstance(n.ctx, ast.Store) and q.src(n.value).startswith("self.")]
    R.check(not st, P + ".PAIR-REBIND", g.qualname + ":stateless", R.site(g), "__get__ keeps no state on the decorator",
            "__get__ stores state on the shared decorator object")
    # staticmethod/classmethod preserved on the copy
    tests = [n for n in ast.walk(g.node) if isinstance(n, ast.Compare) and q.src(n.left) == "self.type"]
    okt = len(tests) == 1 and isinstance(tests[0].ops[0], ast.In) and sorted(q.src(e) for e in tests[0].comparators[0].elts) == ["classmethod", "staticmethod"]
    R.check(okt, P + ".PAIR-REBIND", g.qualname + ":type", R.site(g), "the copy keeps staticmethod and classmethod wrappers of the async function",
            "the copy no longer keeps both the staticmethod and the classmethod wrapper of the async function: the binding differs between calling conventions")

    # ---- ASYNC-CALL
    ac = repo.fn("decorators.async_call")
    # decided as a table: for every combination of "is pure", "has .asynq", "has .async" the function is followed through its flow
    # graph along the decided edges; what it returns there is compared with the dispatch order pure > .asynq > .async > plain
    import itertools as _it

    def dispatch_table(fi, preds, expected):
        """preds: [(name, matcher(atom kind, subject) -> bool)]; expected(assignment dict) -> source of the returned expression"""
        fcfg = cfg_of(fi)
        bad = []
        for combo in _it.product((True, False), repeat=len(preds)):
            asg = dict(zip([p_[0] for p_ in preds], combo))

            def truth_of(expr, flags, asg=asg):
                k_, s_, pos_ = q.atom_test(expr)
                if isinstance(expr, ast.Constant) and isinstance(expr.value, bool):
                    return expr.value
                val = None
                for nm, match in preds:
                    if match(k_, s_, expr):
                        val = asg[nm]
                if val is None and k_ == "truth" and isinstance(s_, str) and s_ in flags:
                    val = flags[s_]
                if val is None:
                    return None
                return val if pos_ else (not val)
            ends = kit.follow_decided_env(fcfg, truth_of)

            def shown(e_, env_):
                # the returned expression with the plain locals bound on this path written out (`target = fn.asynq; return target(*a)`)
                if not (isinstance(e_, ast.Return) and e_.value is not None):
                    return type(e_).__name__
                import copy as _copy

                class Sub(ast.NodeTransformer):
                    def visit_Name(self, node):
                        if isinstance(node.ctx, ast.Load) and node.id in env_:
                            return _copy.deepcopy(env_[node.id])
                        return node
                return q.src(ast.fix_missing_locations(Sub().visit(_copy.deepcopy(e_.value))))
            got = sorted(set(shown(e_, env_) for e_, env_ in ends))
            want = expected(asg)
            if got != [want]:
                bad.append((asg, got, want))
        return bad
    p0 = q.param_names(ac.node)[0]
    preds_ac = [("pure", lambda k_, s_, e_: k_ == "call" and s_ == "is_pure_async_fn"),
                ("asynq", lambda k_, s_, e_: k_ == "call" and s_ == "hasattr" and isinstance(e_, (ast.Call, ast.UnaryOp)) and "'asynq'" in q.src(e_).replace('"', "'")),
                ("async", lambda k_, s_, e_: k_ == "call" and s_ == "hasattr" and isinstance(e_, (ast.Call, ast.UnaryOp)) and "'async'" in q.src(e_).replace('"', "'"))]

    def want_ac(asg):
        if asg["pure"]:
            return "%s(*args, **kwargs)" % p0
        if asg["asynq"]:
            return "%s.asynq(*args, **kwargs)" % p0
        if asg["async"]:
            return "getattr(%s, 'async')(*args, **kwargs)" % p0
        return "futures.ConstFuture(%s(*args, **kwargs))" % p0
    bad_ac = dispatch_table(ac, preds_ac, want_ac)
    R.check(not bad_ac, P + ".ASYNC-CALL", ac.qualname, R.site(ac),
            "async_call dispatches pure / .asynq / .async / plain, in this order, each with the same (*args, **kwargs) (8 combinations followed)",
            "async_call: for %s it returns %s, expected `%s`" % ((bad_ac[0][0], bad_ac[0][1], bad_ac[0][2]) if bad_ac else ("", "", "")))
    # the asyncio twin: every path ends by returning the (awaited) result of a call that received (*args, **kwargs)
    aio = repo.fn("decorators.asyncio_call")
    acfg = cfg_of(aio)
    good = []
    for n in acfg.nodes:
        if n.kind == "stmt" and isinstance(n.ast, ast.Return) and n.ast.value is not None:
            v = n.ast.value.value if isinstance(n.ast.value, ast.Await) else n.ast.value
            if isinstance(v, ast.Call) and forwards(v, "args", "kwargs") == "full":
                good.append(n)
    p = acfg.find_path([acfg.entry], [acfg.exit], N, cut_nodes=good)
    R.check(p is None and good, P + ".ASYNC-CALL", aio.qualname + ":returns", R.site(aio),
            "asyncio_call returns the result of calling fn with (*args, **kwargs) on every path",
            "asyncio_call can finish without returning the result of calling fn with the caller's arguments", acfg.fmt_path(p) if p else None)
    # ---- CLASSIFY
    for cq in DECORATOR_CLASSES:
        cls = repo.cls(cq)
        ip = cls.find_method("is_pure_async_fn")
        if ip is None:
            R.violation(P + ".CLASSIFY", cq, R.site(cls.module, cls.node),
                        "%s defines no is_pure_async_fn(): is_pure_async_fn(obj) falls through to the wrapped function, so an object that is called like an "
                        "impure async function can be classified as pure (async_call then calls it directly and gets a plain value instead of a future)" % cls.name)
            continue
        rs = [n.value for n in ast.walk(ip.node) if isinstance(n, ast.Return)]
        const = rs[0].value if len(rs) == 1 and isinstance(rs[0], ast.Constant) else None
        has_asynq = cls.find_method("asynq") is not None
        R.check(const is (not has_asynq), P + ".CLASSIFY", cq, R.site(ip),
                "%s: is_pure_async_fn() is %s and .asynq is %s" % (cls.name, const, "defined" if has_asynq else "absent"),
                "%s: is_pure_async_fn() returns %s but .asynq is %s - the classification disagrees with how the object can be called"
                % (cls.name, const, "defined" if has_asynq else "absent"))
    def hasattr_seq(fn):
        out = []
        for n in ast.walk(fn.node):
            pass
        for st in fn.node.body:
            for n in ast.walk(st):
                if isinstance(n, ast.Call) and q.call_name(n) == "hasattr" and len(n.args) == 2 and isinstance(n.args[1], ast.Constant):
                    out.append(n.args[1].value)
                elif isinstance(n, ast.Call) and q.call_name(n) == "is_pure_async_fn":
                    out.append("<pure>")
        return out
    expect = {
        "decorators.has_async_fn": (["async", "asynq"], True),
        "decorators.is_async_fn": (["asynq", "async", "<pure>"], True),
        "decorators.get_async_fn": (["asynq", "async", "<pure>"], False),
        "decorators.get_async_or_sync_fn": (["asynq", "async"], False),
    }
    for fq, (seq, unordered) in expect.items():
        f = repo.fn(fq)
        got = hasattr_seq(f)
        ok = sorted(got) == sorted(seq) if unordered else got == seq
        R.check(ok, P + ".CLASSIFY", fq, R.site(f), "%s consults %s" % (f.name, seq), "%s consults %s instead of %s" % (f.name, got, seq))
        if unordered:
            # any one of the markers suffices
            rs_ = [n.value for n in q.scope_nodes(f.node) if isinstance(n, ast.Return) and n.value is not None]
            if len(rs_) == 1 and isinstance(rs_[0], ast.BoolOp):
                R.check(isinstance(rs_[0].op, ast.Or), P + ".CLASSIFY", fq + ":any", R.site(f), "%s is true when any marker is present" % f.name,
                        "%s requires all markers at once: a function offering only .asynq (every @asynq() function) is no longer recognised as async" % f.name)
    # the helpers answer for the object they are handed, each time: a memoising decorator keys its table on the argument's
    # __eq__/__hash__, and bound async methods compare equal when their instances do - two distinct instances that compare equal
    # would be handed each other's bound .asynq (the body runs with the wrong self), and an unhashable instance makes the helper raise
    for fq in ("decorators.is_pure_async_fn", "decorators.is_async_fn", "decorators.has_async_fn", "decorators.get_async_fn", "decorators.get_async_or_sync_fn"):
        f = repo.fn(fq)
        decs = [q.src(d) for d in f.node.decorator_list]
        memo = [d for d in decs if any(w in d.lower() for w in ("cache", "memo", "lru"))]
        R.need(len(memo) == len(decs), "idiom: %s carries a decorator that is not modelled (%s)" % (fq, [d for d in decs if d not in memo]))
        R.check(not memo, P + ".CLASSIFY", fq + ":undecorated", R.site(f), "%s computes its answer from the object it is given on every call" % f.name,
                "%s is memoised (@%s): the table is keyed by the argument's __eq__/__hash__, so equal-comparing bound methods of different instances share "
                "one answer - get_async_fn(b.m) returns a.m's .asynq and the body runs with the wrong self - and an unhashable callable makes the helper raise"
                % (f.name, memo[0] if memo else ""))
    # is_pure_async_fn(): every exit is the object's own answer, False, or the answer obtained for the wrapped function (which is also what
    # is memoised on the wrapper) - a first call that returns nothing while later calls use the memo classifies one object two ways
    ipf = repo.fn("decorators.is_pure_async_fn")
    p0_ = q.param_names(ipf.node)[0]
    for rn in [x for x in q.scope_nodes(ipf.node) if isinstance(x, ast.Return)]:
        v = rn.value
        okv = False
        if v is not None:
            if isinstance(v, ast.Constant) and v.value is False:
                okv = True
            elif isinstance(v, ast.Call) and q.src(v) == "%s.is_pure_async_fn()" % p0_:
                okv = True
            elif isinstance(v, ast.Call) and q.call_name(v) == "is_pure_async_fn" and [q.src(a) for a in v.args] == ["%s.fn" % p0_]:
                okv = True
            elif isinstance(v, ast.Name):
                vals_ = common.assigned_values(ipf.node, v.id)
                okv = bool(vals_) and all(k_ == "expr" and isinstance(e_, ast.Call) and q.call_name(e_) == "is_pure_async_fn" and [q.src(a) for a in e_.args] == ["%s.fn" % p0_]
                                          for k_, e_ in vals_)
                # the memo stored on the wrapper agrees with what is returned
                for n_ in q.scope_nodes(ipf.node):
                    if isinstance(n_, ast.Assign) and isinstance(n_.value, ast.IfExp) and q.src(n_.value.test) == v.id:
                        okv = okv and q.src(n_.value.body).endswith("true_fn") and q.src(n_.value.orelse).endswith("false_fn")
        R.check(okv, P + ".CLASSIFY", "decorators.is_pure_async_fn:returns:%s" % q.stmt_key(rn)[:40], R.site(ipf, rn),
                "is_pure_async_fn returns `%s`: the object's own answer, False, or the wrapped function's answer" % (q.src(v) if v is not None else None),
                "is_pure_async_fn returns `%s`: the first classification of a wrapper disagrees with the memoised one used afterwards (or is not a boolean at all)"
                % (q.src(v) if v is not None else None))
    # what the two lookup helpers return is decided as a table, like async_call above: .asynq > .async > (pure: the function itself) >
    # (wrap_if_none: the wrapper) > None / the function
    for fq in ("decorators.get_async_fn", "decorators.get_async_or_sync_fn"):
        f = repo.fn(fq)
        fp = q.param_names(f.node)
        p0_ = fp[0]
        full = fq.endswith("get_async_fn")
        preds_ = [("asynq", lambda k_, s_, e_: k_ == "call" and s_ == "hasattr" and "'asynq'" in q.src(e_).replace('"', "'")),
                  ("async", lambda k_, s_, e_: k_ == "call" and s_ == "hasattr" and "'async'" in q.src(e_).replace('"', "'"))]
        if full:
            flagp = fp[1] if len(fp) > 1 else "wrap_if_none"
            preds_ += [("pure", lambda k_, s_, e_: k_ == "call" and s_ == "is_pure_async_fn"),
                       ("wrap", lambda k_, s_, e_, flagp=flagp: k_ == "truth" and s_ == flagp)]
        wrappers = [n.name for n in ast.walk(f.node) if isinstance(n, ast.FunctionDef) and n is not f.node]

        def want_(asg, p0_=p0_, full=full, wrappers=wrappers):
            if asg["asynq"]:
                return "%s.asynq" % p0_
            if asg["async"]:
                return "getattr(%s, 'async')" % p0_
            if not full:
                return p0_
            if asg["pure"]:
                return p0_
            if asg["wrap"]:
                return wrappers[0] if wrappers else "?"
            return "None"
        bad_ = dispatch_table(f, preds_, want_)
        R.check(not bad_, P + ".CLASSIFY", fq + ":returns", R.site(f),
                "%s returns .asynq / .async / the function%s in this order of precedence (%d combinations followed)" % (f.name, " / the wrapper / None" if full else "", 2 ** len(preds_)),
                "%s: for %s it returns %s, expected `%s`" % ((f.name,) + ((bad_[0][0], bad_[0][1], bad_[0][2]) if bad_ else ("", "", ""))))
    # a marker attribute is read only where its presence was established
    def has_marker(attr):
        def g(nd):
            if nd.kind != "test":
                return None
            e, pos = nd.ast, True
            while isinstance(e, ast.UnaryOp) and isinstance(e.op, ast.Not):
                e, pos = e.operand, not pos
            if isinstance(e, ast.Call) and q.call_name(e) == "hasattr" and len(e.args) == 2 and isinstance(e.args[1], ast.Constant) and e.args[1].value == attr:
                return "T" if pos else "F"
            return None
        return g
    for fq in ("decorators.get_async_fn", "decorators.get_async_or_sync_fn", "decorators.async_call", "decorators.asyncio_call"):
        f = repo.fn(fq)
        fcfg = cfg_of(f)
        p0 = q.param_names(f.node)[0]
        for n in fcfg.nodes:
            if n.kind != "stmt":
                continue
            for x in ast.walk(n.ast):
                attr = None
                if isinstance(x, ast.Attribute) and q.src(x.value) == p0 and x.attr == "asynq":
                    attr = "asynq"
                elif isinstance(x, ast.Call) and q.call_name(x) == "getattr" and len(x.args) == 2 and q.src(x.args[0]) == p0 and isinstance(x.args[1], ast.Constant) and x.args[1].value == "async":
                    attr = "async"
                if isinstance(x, ast.Attribute) and q.src(x.value) == p0 and x.attr == "asyncio":
                    # .asyncio exists on what the decorators produce: objects with .asynq, and pure async functions - not on an object
                    # that only has the legacy `async` attribute (is_async_fn() is true for those as well)
                    def has_asyncio(nd, p0=p0):
                        if nd.kind != "test":
                            return None
                        k_, s_, pos_ = q.atom_test(nd.ast)
                        e_ = nd.ast
                        while isinstance(e_, ast.UnaryOp) and isinstance(e_.op, ast.Not):
                            e_ = e_.operand
                        if isinstance(e_, ast.Call) and q.call_name(e_) == "hasattr" and len(e_.args) == 2 and isinstance(e_.args[1], ast.Constant) \
                                and e_.args[1].value in ("asynq", "asyncio") and q.src(e_.args[0]) == p0:
                            return "T" if pos_ else "F"
                        if isinstance(e_, ast.Call) and q.call_name(e_) == "is_pure_async_fn" and e_.args and q.src(e_.args[0]) == p0:
                            return "T" if pos_ else "F"
                        return None
                    p = kit.path_avoiding_guard(fcfg, [n], has_asyncio, N)
                    R.check(p is None, P + ".CLASSIFY", "%s:reads:asyncio" % fq, R.site(f, n.ast),
                            "%s.asyncio is read only for objects known to have it (.asynq present, or a pure async function)" % p0,
                            "%s.asyncio is read on a path where only `some async marker` was established: an object that offers just the legacy `async` attribute "
                            "has no .asyncio - AttributeError at the yield in asyncio mode, while the synchronous call works" % p0, fcfg.fmt_path(p) if p else None)
                if attr is None:
                    continue
                p = kit.path_avoiding_guard(fcfg, [n], has_marker(attr), N)
                R.check(p is None, P + ".CLASSIFY", "%s:reads:%s" % (fq, attr), R.site(f, n.ast), "%s.%s is read only after hasattr(%s, %r)" % (p0, attr, p0, attr),
                        "%s.%s is read on a path where hasattr(%s, %r) was not established (plain callables raise AttributeError)" % (p0, attr, p0, attr),
                        fcfg.fmt_path(p) if p else None)
    # ---- DEDUP-KEY (function identity, thread per call)
    from .c12 import dedup_key_rule
    dedup_key_rule(R, P + ".DEDUP-KEY")
    R.require_min(P + ".FORWARD", 45 + 40)
    R.require_min(P + ".BINDERS", 12)


def binder_form(m, target):
    """(test expr, args of the first arm, args of the second arm, kwargs forwarded) for a binder
    method written as `if T: return D(A1) else: return D(A2)` or `return D(*(X if T else Y), **kwargs)`."""
    body = [s for s in m.node.body if not (isinstance(s, ast.Expr) and isinstance(s.value, ast.Constant))]
    ifs = [s for s in body if isinstance(s, ast.If)]
    if len(ifs) == 1 and len(body) == 1:
        def arm(stmts):
            cs = [c for st in stmts for c in q.calls(st) if q.call_name(c) == target]
            if len(cs) != 1:
                return None, False
            return [q.src(x) for x in cs[0].args], forwards(cs[0], "args", "kwargs") == "full"
        a, ka = arm(ifs[0].body)
        b, kb = arm(ifs[0].orelse)
        if a is None or b is None:
            return None
        return ifs[0].test, a, b, ka and kb
    if len(ifs) == 1 and len(body) == 2 and body[0] is ifs[0] and not ifs[0].orelse and isinstance(body[1], ast.Return):
        tail = [c for c in q.calls(body[1]) if q.call_name(c) == target]
        if len(tail) == 1:
            inner = [c for st in ifs[0].body for c in q.calls(st) if q.call_name(c) == target]
            if len(inner) == 1 and isinstance(ifs[0].body[-1], ast.Return):
                # if T: return D(A1)   /   return D(A2)
                return ifs[0].test, [q.src(x) for x in inner[0].args], [q.src(x) for x in tail[0].args], \
                    forwards(inner[0], "args", "kwargs") == "full" and forwards(tail[0], "args", "kwargs") == "full"
            if not inner and len(ifs[0].body) == 1 and isinstance(ifs[0].body[0], ast.Assign) and q.src(ifs[0].body[0].targets[0]) == "args":
                # if T: args = <expr>   /   return D(*args, **kwargs)
                if [q.src(x) for x in tail[0].args] == ["*args"]:
                    return ifs[0].test, ["*" + q.src(ifs[0].body[0].value)], ["*args"], forwards(tail[0], "args", "kwargs") == "full"
    if len(body) == 1 and isinstance(body[0], (ast.Return, ast.Expr)) and isinstance(body[0].value, ast.Call) and q.call_name(body[0].value) == target:
        c = body[0].value
        if len(c.args) == 1 and isinstance(c.args[0], ast.Starred) and isinstance(c.args[0].value, ast.IfExp):
            ie = c.args[0].value
            kw = any(k.arg is None and q.src(k.value) == "kwargs" for k in c.keywords)
            return ie.test, ["*" + q.src(ie.body)], ["*" + q.src(ie.orelse)], kw
    return None
