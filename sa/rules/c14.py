"""C14 - collection helpers equal their built-in counterparts, in one batching round."""
import ast

from ..cfg import cfg_of, N, X
from ..roles import Roles
from .. import q, kit
from . import common

EXPLANATION = (
    "Shape and data-flow rules over the helpers of tools.py: all per-element .asynq(...) calls of one "
    "helper sit in a single comprehension that is the operand of one yield (never a yield per element); "
    "an argument that may be a one-shot iterator is iterated at most once on any path unless it was "
    "materialised (list()/tuple()) or is known to be a list/tuple; asorted sorts (key, value) pairs on the "
    "key component only with reverse forwarded, amax/amin use the builtin of the same polarity over "
    "enumerate() with an index-only key (first extreme wins) and delegate to the builtin without a key; "
    "aretry's loop runs range(max_tries), catches exactly the listed exceptions and re-raises on the last "
    "attempt; the scheduler rules that make 'issued together' mean 'one flush' (C04) are re-checked."
)

HELPERS = ("amap", "afilter", "afilterfalse", "asorted", "amax", "amin", "asift")
ITER_CONSUMERS = ("zip", "enumerate", "list", "tuple", "sorted", "max", "min", "filter", "map", "set", "frozenset", "sum", "any", "all",
                  "itertools.compress", "itertools.chain", "itertools.filterfalse", "reversed", "iter", "dict")


def iteration_uses(fi, var):
    """CFG nodes that iterate the current binding of `var`, and nodes that rebind it."""
    cfg = cfg_of(fi)
    uses, rebinds, materialising = [], [], []
    for n in cfg.nodes:
        exprs = kit.node_exprs(n)
        used = False
        if n.kind == "for" and isinstance(n.ast.iter, ast.Name) and n.ast.iter.id == var:
            used = True
        for e in exprs:
            for sub in ast.walk(e):
                if isinstance(sub, (ast.ListComp, ast.SetComp, ast.GeneratorExp, ast.DictComp)):
                    for g in sub.generators:
                        if isinstance(g.iter, ast.Name) and g.iter.id == var:
                            used = True
                if isinstance(sub, ast.Call):
                    nm = q.call_name(sub) or ""
                    args = [a for a in sub.args] + [k.value for k in sub.keywords]
                    direct = [a for a in args if isinstance(a, ast.Name) and a.id == var] + \
                             [a.value for a in args if isinstance(a, ast.Starred) and isinstance(a.value, ast.Name) and a.value.id == var]
                    if direct and (nm in ITER_CONSUMERS or nm.endswith(".asynq") or nm.endswith(".join")):
                        # amap.asynq(key, values): the callee iterates its sequence argument
                        if nm.endswith(".asynq") and not (nm.startswith("amap") or nm.startswith("afilter")):
                            continue
                        used = True
        if n.kind == "stmt" and isinstance(n.ast, ast.Assign) and any(isinstance(t, ast.Name) and t.id == var for t in n.ast.targets):
            rebinds.append(n)
            v = n.ast.value
            if isinstance(v, ast.Call) and q.call_name(v) in ("list", "tuple", "sorted") and v.args and isinstance(v.args[0], ast.Name):
                materialising.append(n)
        if used:
            uses.append(n)
    return uses, rebinds, materialising


def iter_rule(R, fi, var, prefix):
    cfg = cfg_of(fi)
    uses, rebinds, mat = iteration_uses(fi, var)
    if not uses:
        return 0

    def known_seq(nd):
        if nd.kind != "test":
            return None
        k, s, pos = q.atom_test(nd.ast)
        if k == "isinstance" and s[0] == var:
            classes = set(x.strip() for x in s[1].strip("()").split(","))
            classes.discard("")
            if classes and classes <= {"list", "tuple"}:
                return "T" if pos else "F"
        return None

    def keep(e):
        lab = known_seq(cfg.nodes[e.src])
        return not (lab is not None and e.label == lab)

    bad = None
    for u1 in uses:
        if u1 in rebinds and u1 in mat:
            continue  # after `x = list(x)` the binding is a list
        starts = [e.dst for e in cfg.out_edges(u1.id, N)]
        # a later use of the same (possibly one-shot) binding; a `for` statement iterates once however
        # often its body runs, so its own back edge is not a second iteration
        others = [u for u in uses if not (u is u1 and u1.kind == "for")]
        cut = [r for r in rebinds if r not in others]
        p = cfg.find_path(starts, others, N, cut_nodes=cut, keep_edge=keep)
        # reaching a rebinding use (x = list(x)) after having iterated x is also a second iteration
        if p is not None:
            # if the path passes a rebind before reaching the target it was cut already; a target that is itself a
            # materialising rebind counts (it iterates the exhausted iterator)
            # the first use must be reachable without x being a known list/tuple or materialised
            pre = cfg.find_path([cfg.entry], [u1], N, cut_nodes=mat, keep_edge=keep)
            if pre is not None or u1 in mat:
                bad = [u1] + p
                break
    site = R.site(fi)
    R.check(bad is None, prefix + ".ITER", "%s:%s" % (fi.qualname, var), site,
            "`%s` is iterated at most once on every path unless it is a list/tuple or was materialised first (%d iteration site(s))" % (var, len(uses)),
            "`%s` may be a one-shot iterator and is iterated twice (no list()/tuple() copy and no isinstance(%s, (list, tuple)) guard on this path): "
            "the second pass sees an exhausted iterator" % (var, var), cfg.fmt_path(bad) if bad else None)
    return 1


def run(R):
    R.extra["explanation"] = EXPLANATION
    repo = R.repo
    tm = repo.modules["tools"]
    n_iter = 0
    for h in HELPERS:
        f = repo.fn("tools." + h)
        cfg = cfg_of(f)
        site = R.site(f)
        # ---- ONE-YIELD
        ynodes = [n for n in cfg.nodes if n.kind in ("stmt", "test") and any(isinstance(x, (ast.Yield, ast.YieldFrom)) for e in kit.node_exprs(n) for x in ast.walk(e))]
        in_loop = [n for n in ynodes if q.in_loop(n.ast)]
        inner = [y for n in ynodes for e in kit.node_exprs(n) for y in ast.walk(e) if isinstance(y, ast.Yield) and q.enclosing(y, (ast.ListComp, ast.GeneratorExp, ast.SetComp, ast.DictComp)) is not None]
        R.check(not in_loop and not inner, "C14.ONE-YIELD", f.qualname + ":no-loop", site,
                "%s has no yield inside a loop or comprehension" % h, "%s yields inside a loop: the per-element calls are issued one after another, one flush each" % h)
        p = kit.at_most_once(f, ynodes, N)
        R.check(p is None, "C14.ONE-YIELD", f.qualname + ":single", site,
                "at most one yield on any path of %s" % h, "%s can yield twice on one path (two batching rounds)" % h, cfg.fmt_path(p) if p else None)
        # the yield's operand issues all element calls together
        for n in ynodes:
            for e in kit.node_exprs(n):
                for y in ast.walk(e):
                    if not isinstance(y, ast.Yield):
                        continue
                    v = y.value
                    ok = False
                    why = q.src(v)[:60] if v is not None else "nothing"
                    comp = kit.as_comprehension(f.node, v) if v is not None else None
                    if isinstance(v, ast.Call) and q.call_name(v) == "amap.asynq" and len(v.args) == 2:
                        ok = True
                    elif comp is not None and not comp[3]:
                        el, tgt = comp[0], comp[1]
                        ok = isinstance(el, ast.Call) and (q.call_name(el) or "").endswith(".asynq") and [q.src(a) for a in el.args] == [tgt]
                    R.check(ok, "C14.ONE-YIELD", f.qualname + ":operand", R.site(f, y),
                            "the yield's operand is the list of all per-element tasks (or amap.asynq over all elements)",
                            "the yield's operand `%s` does not issue one task per element, unfiltered, in one list" % why)
        # ---- ITER: every local/param that is iterated
        names = set(q.param_names(f.node))
        for nn in q.scope_nodes(f.node):
            if isinstance(nn, ast.Assign):
                for t in nn.targets:
                    if isinstance(t, ast.Name):
                        names.add(t.id)
        for var in sorted(names):
            # only bindings that can hold the caller's iterable: parameters and names assigned from args[...] / a parameter
            vals = common.assigned_values(f.node, var)
            from_caller = any(k == "param" for k, v in vals) or any(k == "expr" and (q.src(v).startswith("args") or (isinstance(v, ast.Name) and v.id in q.param_names(f.node))) for k, v in vals)
            if not from_caller or var in ("function", "key", "pred", "key_fn", "kwargs", "reverse"):
                continue
            n_iter += iter_rule(R, f, var, "C14")
    R.need(n_iter >= 6, "fewer iterated arguments than confirmed by hand (%d < 6)" % n_iter)

    # ---- SORT-KEY
    f = repo.fn("tools.asorted")
    sc = [c for c in q.calls(f.node) if q.call_name(c) == "sorted"]
    R.need(len(sc) == 1, "idiom: asorted does not call sorted() exactly once")
    c = sc[0]
    kws = dict((k.arg, k.value) for k in c.keywords)
    zipped = c.args[0] if c.args else None
    okz = isinstance(zipped, ast.Call) and q.call_name(zipped) == "zip" and len(zipped.args) == 2
    # the same thing as an index sort: sorted(range(len(values)), key=keys.__getitem__ | lambda i: keys[i]) and [values[i] for i in order]
    idx_form = isinstance(zipped, ast.Call) and q.call_name(zipped) == "range" and len(zipped.args) == 1 and isinstance(zipped.args[0], ast.Call) \
        and q.call_name(zipped.args[0]) == "len" and len(zipped.args[0].args) == 1
    if idx_form:
        varg = q.src(zipped.args[0].args[0])
        kf = kws.get("key")
        karg = None
        if isinstance(kf, ast.Attribute) and kf.attr == "__getitem__":
            karg = q.src(kf.value)
        elif isinstance(kf, ast.Lambda) and len(kf.args.args) == 1 and isinstance(kf.body, ast.Subscript) and q.src(kf.body.slice) == kf.args.args[0].arg:
            karg = q.src(kf.body.value)
        R.check(karg is not None, "C14.SORT-KEY", f.qualname + ":key", R.site(f, c),
                "asorted sorts the positions by their keys only (values are never compared, ties keep input order)",
                "asorted's index sort does not use the key list alone as its key (`%s`)" % q.src(c)[:90])
        R.check("reverse" in kws and q.src(kws["reverse"]) == "reverse", "C14.SORT-KEY", f.qualname + ":reverse", R.site(f, c),
                "reverse is forwarded to sorted()", "reverse is not forwarded to sorted()")
        rets = [n.value for n in q.scope_nodes(f.node) if isinstance(n, ast.Return)]
        order_names = set(t.id for n in q.scope_nodes(f.node) if isinstance(n, ast.Assign) and n.value is c for t in n.targets if isinstance(t, ast.Name))
        okr = len(rets) == 1 and isinstance(rets[0], ast.ListComp) and len(rets[0].generators) == 1 and not rets[0].generators[0].ifs \
            and q.src(rets[0].elt) == "%s[%s]" % (varg, q.src(rets[0].generators[0].target)) \
            and (q.src(rets[0].generators[0].iter) in order_names or rets[0].generators[0].iter is c)
        R.check(okr, "C14.SORT-KEY", f.qualname + ":values", R.site(f), "the values are read back by the sorted positions", "the result does not read the values at the sorted positions")
        if karg is not None:
            kvals = common.assigned_values(f.node, karg)
            okkeys = any(k == "expr" and q.src(v) == "(yield amap.asynq(key, %s))" % varg for k, v in kvals) and any(k == "expr" and q.src(v) == varg for k, v in kvals)
            R.check(okkeys, "C14.SORT-KEY", f.qualname + ":keys", R.site(f), "keys are the values themselves (no key) or amap(key, values) over the same list",
                    "keys are not computed from the same list of values that is sorted")
        okz = False
    keypos = 0
    okk = isinstance(kws.get("key"), ast.Lambda) and len(kws["key"].args.args) == 1 and \
        q.src(kws["key"].body) == "%s[%d]" % (kws["key"].args.args[0].arg, keypos)
    if not idx_form:
      R.check(okz and okk, "C14.SORT-KEY", f.qualname + ":key", R.site(f, c),
            "asorted sorts zip(keys, values) with key= selecting the key component only (values are never compared, ties keep input order)",
            "asorted does not sort (key, value) pairs on the key component alone (`%s`): equal keys fall through to other tuple components - values get "
            "compared, or a position tie-breaker is reversed together with reverse=True" % q.src(c)[:90])
      R.check("reverse" in kws and q.src(kws["reverse"]) == "reverse", "C14.SORT-KEY", f.qualname + ":reverse", R.site(f, c),
            "reverse is forwarded to sorted()", "reverse is not forwarded to sorted()")
    if okz:
        karg, varg = q.src(zipped.args[0]), q.src(zipped.args[1])
        rets = [n.value for n in q.scope_nodes(f.node) if isinstance(n, ast.Return)]
        okr = len(rets) == 1 and isinstance(rets[0], ast.ListComp) and q.src(rets[0].elt) == "%s[1]" % rets[0].generators[0].target.id
        R.check(okr, "C14.SORT-KEY", f.qualname + ":values", R.site(f), "the values are read back from the value component of the sorted pairs", "the result does not read the value component")
        kvals = common.assigned_values(f.node, karg)
        okkeys = any(k == "expr" and q.src(v) == "(yield amap.asynq(key, %s))" % varg for k, v in kvals) and any(k == "expr" and q.src(v) == varg for k, v in kvals)
        R.check(okkeys, "C14.SORT-KEY", f.qualname + ":keys", R.site(f), "keys are the values themselves (no key) or amap(key, values) over the same list",
                "keys are not computed from the same list of values that is sorted")
    # ---- TIE (amax / amin)
    for h, builtin in (("amax", "max"), ("amin", "min")):
        f = repo.fn("tools." + h)
        bc = [c for c in q.calls(f.node) if q.call_name(c) in ("max", "min")]
        keyed = [c for c in bc if any(k.arg == "key" for k in c.keywords)]
        plain = [c for c in bc if not c.keywords]
        R.check(all(q.call_name(c) == builtin for c in bc) and keyed and plain, "C14.TIE", f.qualname + ":polarity", R.site(f),
                "%s uses the builtin %s on both paths" % (h, builtin), "%s uses %s" % (h, sorted(set(q.call_name(c) for c in bc))))
        for c in keyed:
            a0 = c.args[0] if c.args else None
            oke = isinstance(a0, ast.Call) and q.call_name(a0) == "enumerate" and len(a0.args) == 1
            lam = [k.value for k in c.keywords if k.arg == "key"][0]
            seqname = q.src(a0.args[0]) if oke else None
            okl = isinstance(lam, ast.Lambda) and len(lam.args.args) == 1 and isinstance(lam.body, ast.Subscript) and \
                q.src(lam.body.slice) == "%s[0]" % lam.args.args[0].arg
            keys_name = q.src(lam.body.value) if okl else None
            R.check(oke and okl, "C14.TIE", f.qualname + ":index-key", R.site(f, c),
                    "%s(enumerate(seq), key=index -> keys[index]): the first extreme wins, elements are never compared" % builtin,
                    "the keyed %s is not over enumerate(seq) with an index-only key (`%s`)" % (builtin, q.src(c)[:80]))
            if oke and okl:
                kv = common.assigned_values(f.node, keys_name)
                okk = len(kv) == 1 and q.src(kv[0][1]) == "(yield amap.asynq(key_fn, %s))" % seqname
                R.check(okk, "C14.TIE", f.qualname + ":keys", R.site(f, c), "keys are amap(key_fn, seq) over the same sequence that is enumerated",
                        "keys are not computed over the sequence that is enumerated")
        for c in plain:
            R.check(len(c.args) == 1 and q.src(c.args[0]) == "iterable", "C14.TIE", f.qualname + ":no-key", R.site(f, c),
                    "without a key %s delegates to %s(iterable)" % (h, builtin), "without a key %s does not delegate to %s(iterable)" % (h, builtin))
        rets = [q.src(n.value) for n in q.scope_nodes(f.node) if isinstance(n, ast.Return)]
        pairs = [r for r in rets if r.endswith("[1]")]
        R.check(len(pairs) == 1, "C14.TIE", f.qualname + ":returns", R.site(f), "the element (not the index) of the winning pair is returned", "returns %s" % rets)
        # varargs handling: 0 args TypeError, 1 arg -> iterable, else args
        iv = common.assigned_values(f.node, "iterable")
        flat = []
        for k, v in iv:
            if k == "expr" and isinstance(v, ast.IfExp):
                flat += [("expr", v.body), ("expr", v.orelse)]
            else:
                flat.append((k, v))
        srcs = sorted(q.src(v) for k, v in flat if k == "expr")
        R.check(srcs[:2] == ["args", "args[0]"], "C14.TIE", f.qualname + ":varargs", R.site(f),
                "one positional argument is the iterable, several are the elements", "argument handling differs from %s: iterable is %s" % (builtin, srcs))
        # which path is taken: plain builtin only without a key, keyed path only with one; a single positional argument is the iterable
        fcfg = cfg_of(f)
        kf = common.assigned_values(f.node, "key_fn")
        R.check(len(kf) == 1 and q.src(kf[0][1]) == "kwargs.pop('key', None)", "C14.TIE", f.qualname + ":key-arg", R.site(f),
                "the key function is the `key` keyword argument (default None)", "key_fn is %s" % [q.src(v) for k, v in kf if k == "expr"])

        def guard_of(kind, subj, want_pos):
            def g(nd):
                if nd.kind != "test":
                    return None
                k, s, pos = q.atom_test(nd.ast)
                if k == kind and s == subj:
                    return ("T" if pos else "F") if want_pos else ("F" if pos else "T")
                return None
            return g
        for c in plain:
            nodes = [n for n in fcfg.nodes if c in kit.node_calls(n)]
            p = kit.path_avoiding_guard(fcfg, nodes, guard_of("isnone", "key_fn", True), N)
            R.check(p is None, "C14.TIE", f.qualname + ":no-key-path", R.site(f, c), "the plain %s(iterable) is used only when no key was given" % builtin,
                    "the plain %s(iterable) can be used although a key function was given: the key is ignored" % builtin, fcfg.fmt_path(p) if p else None)
        for c in keyed:
            nodes = [n for n in fcfg.nodes if c in kit.node_calls(n)]
            p = kit.path_avoiding_guard(fcfg, nodes, guard_of("isnone", "key_fn", False), N)
            R.check(p is None, "C14.TIE", f.qualname + ":key-path", R.site(f, c), "the keyed path is taken only when a key function was given",
                    "the keyed path can be taken with key_fn None", fcfg.fmt_path(p) if p else None)
        one = [n for n in fcfg.nodes if n.kind == "stmt" and isinstance(n.ast, ast.Assign) and q.src(n.ast.value) == "args[0]"]
        if one:
            len_names = set(["len(args)"]) | set(t.id for n in q.scope_nodes(f.node) if isinstance(n, ast.Assign) and q.src(n.value) == "len(args)"
                                                 for t in n.targets if isinstance(t, ast.Name))

            def one_given(nd):
                if nd.kind != "test":
                    return None
                k, s, pos = q.atom_test(nd.ast)
                if k == "eq" and "1" in s and any(x in len_names for x in s):
                    return "T" if pos else "F"
                return None
            p = kit.path_avoiding_guard(fcfg, one, one_given, N)
            R.check(p is None, "C14.TIE", f.qualname + ":one-arg", R.site(f), "args[0] is the iterable only when exactly one positional argument was given",
                    "args[0] can be taken as the iterable although several elements were given", fcfg.fmt_path(p) if p else None)
    # ---- afilter / afilterfalse / asift use the same materialised sequence for calls and selection
    for h, negate in (("afilter", False), ("afilterfalse", True)):
        f = repo.fn("tools." + h)
        # the selection, in normal form (elements, flags, negated): itertools.compress(elements, flags) - flags possibly a list of
        # negations of another list - or [e for e, f in zip(elements, flags) if f] / `if not f`
        cc = [c for c in q.calls(f.node) if q.call_name(c) == "itertools.compress"]
        sel_elems = sel_flags = None
        sel_neg = False
        if len(cc) == 1 and len(cc[0].args) == 2:
            sel_elems, fl = q.src(cc[0].args[0]), cc[0].args[1]
            if isinstance(fl, ast.Name):
                vals = [v for k, v in common.assigned_values(f.node, fl.id)]
                src_e = vals[0] if len(vals) == 1 and not (isinstance(vals[0], ast.List) and not vals[0].elts) else fl
                comp = kit.as_comprehension(f.node, src_e)
                if comp is not None and not comp[3] and isinstance(comp[0], ast.UnaryOp) and isinstance(comp[0].op, ast.Not) and q.src(comp[0].operand) == comp[1]:
                    sel_flags, sel_neg = q.src(comp[2]), True
                else:
                    sel_flags = fl.id
        else:
            for rn in [n for n in q.scope_nodes(f.node) if isinstance(n, ast.Return) and n.value is not None]:
                e_ = rn.value.args[0] if isinstance(rn.value, ast.Call) and q.call_name(rn.value) == "list" and len(rn.value.args) == 1 else rn.value
                if isinstance(e_, (ast.ListComp, ast.GeneratorExp)) and len(e_.generators) == 1:
                    g_ = e_.generators[0]
                    if isinstance(g_.iter, ast.Call) and q.call_name(g_.iter) == "zip" and len(g_.iter.args) == 2 and isinstance(g_.target, ast.Tuple) \
                            and len(g_.target.elts) == 2 and len(g_.ifs) == 1 and q.src(e_.elt) == q.src(g_.target.elts[0]):
                        k_, s_, pos_ = q.atom_test(g_.ifs[0])
                        if k_ == "truth" and s_ == q.src(g_.target.elts[1]):
                            sel_elems, sel_flags, sel_neg = q.src(g_.iter.args[0]), q.src(g_.iter.args[1]), not pos_
                            cc = [g_.iter]
        R.check(sel_elems == "sequence", "C14.FILTER", f.qualname, R.site(f),
                "%s selects from the same (materialised) sequence the predicate was applied to" % h, "%s does not select from the sequence the predicate ran on" % h)
        # the flags are the results of the one yield of per-element predicate calls
        fv = [v for k, v in common.assigned_values(f.node, sel_flags)] if sel_flags else []
        from_yield = len(fv) == 1 and isinstance(fv[0], ast.Yield)
        if negate:
            R.check(from_yield and sel_neg, "C14.FILTER", f.qualname + ":negate", R.site(f),
                    "afilterfalse keeps the elements whose predicate is false", "afilterfalse does not negate the predicate results")
        else:
            R.check(from_yield and not sel_neg, "C14.FILTER", f.qualname + ":select", R.site(f),
                    "afilter keeps the elements whose predicate is true", "afilter does not select by the predicate results")
        # the shortcut that ignores the predicate (filter(None, ...) / filterfalse(None, ...)) is taken only when there is none
        fcfg = cfg_of(f)
        short = [n for n, c in kit.call_sites(f, lambda c: q.call_name(c) in ("filter", "filterfalse", "itertools.filterfalse") and c.args and q.is_none(c.args[0]))]
        if short:
            def no_pred(nd):
                if nd.kind != "test":
                    return None
                k, s, pos = q.atom_test(nd.ast)
                if k == "isnone" and s == "function":
                    return "T" if pos else "F"
                return None
            p = kit.path_avoiding_guard(fcfg, short, no_pred, N)
            R.check(p is None, "C14.FILTER", f.qualname + ":shortcut", R.site(f), "%s ignores the predicate only when it is None" % h,
                    "%s can take the truthiness shortcut although a predicate was given: the async predicate is never applied" % h, fcfg.fmt_path(p) if p else None)
        # filter() and itertools.filterfalse() both accept None as the predicate (truthiness of the element): the helper
        # must not ask None for its .asynq attribute, and the shortcut is the builtin of the same polarity
        pred = q.param_names(f.node)[0]
        uses = [n for n in fcfg.nodes if any(isinstance(x, ast.Attribute) and isinstance(x.value, ast.Name) and x.value.id == pred for e_ in kit.node_exprs(n) for x in ast.walk(e_))]

        def has_pred(nd):
            if nd.kind != "test":
                return None
            k, s, pos = q.atom_test(nd.ast)
            if k == "isnone" and s == pred:
                return "F" if pos else "T"
            return None
        p = kit.path_avoiding_guard(fcfg, uses, has_pred, N) if uses else None
        want = "filterfalse" if negate else "filter"
        names_ = set((q.call_name(c) or "").split(".")[-1] for n, c in kit.call_sites(f, lambda c: (q.call_name(c) or "").split(".")[-1] in ("filter", "filterfalse")
                                                                                   and c.args and q.is_none(c.args[0])))
        R.check(p is None and names_ == {want}, "C14.FILTER", f.qualname + ":none-predicate", R.site(f),
                "%s(None, seq) is answered by %s(None, seq), like the synchronous equivalent" % (h, want),
                "%s: %s" % (h, ("a None predicate reaches `%s.asynq`: %s(None, seq) raises AttributeError where the synchronous %s(None, seq) selects by the "
                                "truthiness of the elements" % (pred, h, want)) if p is not None else
                            "the None-predicate shortcut uses %s, not %s" % (sorted(names_) or "nothing", want)), fcfg.fmt_path(p) if p else None)
        live = fcfg.reachable([fcfg.entry], N)
        sel_nodes = [n for n in fcfg.nodes if any(c is x for c in cc for x in kit.node_calls(n))]
        R.check(any(n.id in live for n in sel_nodes), "C14.FILTER", f.qualname + ":live", R.site(f), "the predicate path of %s is reachable" % h,
                "the path of %s that applies the predicate is unreachable" % h)
    f = repo.fn("tools.asift")
    zc = [c for c in q.calls(f.node) if q.call_name(c) == "zip"]
    okz = len(zc) == 1 and [q.src(a) for a in zc[0].args] == ["items", "results"]
    R.check(okz, "C14.FILTER", f.qualname, R.site(f), "asift pairs each item with its predicate result", "asift does not pair items with their results")
    rets = [q.src(n.value) for n in q.scope_nodes(f.node) if isinstance(n, ast.Return)]
    R.check(rets == ["(yes, no)"], "C14.FILTER", f.qualname + ":returns", R.site(f), "asift returns (yes, no)", "asift returns %s" % rets)

    # ---- RETRY
    w = repo.fn("tools.aretry.decorator.wrapper")
    top = repo.fn("tools.aretry")
    common.int_identity(R, "C14.RETRY", [w] + [repo.fn("tools." + nm) for nm in ("amap", "afilter", "afilterfalse", "asorted", "amax", "amin", "asift")])
    # the attempt count belongs to the call: several calls of one decorated function are in flight together (amap over it), so a
    # counter kept on the function object, in the closure or in a global is shared - and reset - by all of them
    shared = []
    for n in q.scope_nodes(w.node):
        if isinstance(n, (ast.Assign, ast.AugAssign)):
            for t in (n.targets if isinstance(n, ast.Assign) else [n.target]):
                if isinstance(t, ast.Attribute) and isinstance(t.value, ast.Name) and t.value.id in (w.name, "fn", "self"):
                    shared.append(n)
        if isinstance(n, (ast.Nonlocal, ast.Global)):
            shared.append(n)
    R.check(not shared, "C14.RETRY", w.qualname + ":per-call-state", R.site(w, shared[0] if shared else None),
            "the wrapper keeps its attempt count in locals of the call",
            "the wrapper keeps state outside the call (`%s`): calls of the same decorated function that are in flight together (issued by amap, each "
            "waiting for a batch) share and reset one attempt counter, so a call gives up after fewer than min(k+1, max_tries) runs of its body"
            % (q.src(shared[0])[:50] if shared else ""))
    loops = [n for n in q.scope_nodes(w.node) if isinstance(n, ast.For)]
    R.need(len(loops) == 1, "idiom: aretry's wrapper is not a single for loop")
    lp = loops[0]
    okl = q.src(lp.iter) == "range(max_tries)" and isinstance(lp.target, ast.Name)
    R.check(okl, "C14.RETRY", w.qualname + ":range", R.site(w, lp), "the loop runs range(max_tries)", "the retry loop iterates `%s`" % q.src(lp.iter))
    iv = lp.target.id if isinstance(lp.target, ast.Name) else "i"
    trys = [n for n in lp.body if isinstance(n, ast.Try)]
    outside = [c for st in lp.body if not isinstance(st, ast.Try) for c in q.calls(st) if q.src(c.func).endswith("fn.asynq")]
    if outside:
        R.violation("C14.RETRY", w.qualname + ":body", R.site(w, outside[0]),
                    "the attempt is created (`%s`) outside the try block: a listed exception raised while the call is made - an @async_proxy body, any "
                    "wrapper that raises before returning its future - is not retried" % q.src(outside[0])[:50])
        return
    R.need(len(trys) == 1 and len(lp.body) == 1, "idiom: the retry loop body is not a single try")
    tr = trys[0]
    okh = len(tr.handlers) == 1 and q.src(tr.handlers[0].type) == "exception_cls" and not tr.finalbody
    R.check(okh, "C14.RETRY", w.qualname + ":handler", R.site(w, tr), "only the listed exception classes are caught (anything else propagates immediately)",
            "the retry handler catches `%s`" % ", ".join(q.src(h.type) if h.type else "everything" for h in tr.handlers))
    if okh:
        h = tr.handlers[0]
        last = [n for n in h.body if isinstance(n, ast.If)]
        okr = False
        if last:
            tst = last[0].test
            if isinstance(tst, ast.Name):
                # the condition was put into a local first (`out_of_tries = i + 1 == max_tries`)
                tv = common.assigned_values(w.node, tst.id)
                if len(tv) == 1 and tv[0][0] == "expr":
                    tst = tv[0][1]
            k, s, pos = q.atom_test(tst)
            okr = k == "eq" and pos and set(s) in (set(["%s + 1" % iv, "max_tries"]), set([iv, "max_tries - 1"])) and any(isinstance(x, ast.Raise) and x.exc is None for x in last[0].body)
        R.check(okr, "C14.RETRY", w.qualname + ":last", R.site(w, h), "the last attempt's exception is re-raised (bare raise when i + 1 == max_tries)",
                "the handler does not re-raise exactly on the last attempt")
    ys = [x for n in tr.body for x in ast.walk(n) if isinstance(x, ast.Yield)]
    def returns_yield(stmts):
        # `return (yield ...)`  or  `x = yield ...; return x`
        for n in stmts:
            if isinstance(n, ast.Return) and n.value is not None:
                if isinstance(n.value, ast.Yield):
                    return True
                if isinstance(n.value, ast.Name):
                    vals = [a.value for a in stmts if isinstance(a, ast.Assign) and any(q.src(t) == n.value.id for t in a.targets)]
                    return len(vals) == 1 and isinstance(vals[0], ast.Yield)
        return False
    oky = len(ys) == 1 and q.src(ys[0].value) == "fn.asynq(*args, **kwargs)" and returns_yield(list(tr.body) + list(tr.orelse))
    R.check(oky, "C14.RETRY", w.qualname + ":body", R.site(w, tr), "each attempt yields fn.asynq(*args, **kwargs) and returns its result",
            "an attempt does not yield fn.asynq(*args, **kwargs) and return its result")
    asserts = [n for n in top.node.body if isinstance(n, ast.Assert)]
    oka = any(q.atom_test(a.test)[:2] == ("lt", ("0", "max_tries")) and q.atom_test(a.test)[2] for a in asserts)
    R.check(oka, "C14.RETRY", top.qualname + ":positive", R.site(top), "max_tries > 0 is asserted (the last-attempt test is reachable)", "max_tries > 0 is no longer asserted")

    common.safe_trigger_selects_failures(R, "C14.ONE-YIELD")
    # ---- AsyncEventHook: all handlers in one yield
    for mq in ("tools.AsyncEventHook.trigger", "tools.AsyncEventHook.safe_trigger"):
        m = repo.fn(mq)
        ys = [x for x in q.scope_nodes(m.node) if isinstance(x, ast.Yield)]
        oky = len(ys) == 1 and isinstance(ys[0].value, ast.ListComp) and not q.in_loop(ys[0])
        R.check(oky, "C14.ONE-YIELD", mq, R.site(m), "all handlers are invoked in one yield", "handlers are not invoked in a single yield")

    # ---- exception precedence: the list of per-element results is unwrapped first to last, so the first failing element's error is raised
    from .structs import unwrap_rules
    unwrap_rules(R, "C14", order_only=True)
    from .c04 import no_sync_in_library_tasks
    no_sync_in_library_tasks(R, "C14.YIELD-ONLY")
    # ---- SCHED (shared with C04): 'issued together' means 'one flush' only if the scheduler batches maximally
    ro = Roles(R)
    from .c04 import wait_for_rules, revisit_rules
    wait_for_rules(R, ro, "C14.SCHED")
    revisit_rules(R, ro, "C14.SCHED.REVISIT")
    common.blocked_all(R, ro, "C14.SCHED.BLOCKED-ALL")
    R.require_min("C14.ONE-YIELD", 20)
    R.require_min("C14.ITER", 6)
