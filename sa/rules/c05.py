"""C05 - each batch is flushed once, highest priority first; every item is answered."""
import ast

from ..cfg import cfg_of, N, X
from ..errors import AnalysisError
from ..roles import Roles
from .. import q, kit
from . import common

EXPLANATION = (
    "Static rules over the CFGs of the scheduler's batch selection / flush methods and of "
    "BatchBase.flush/_computed: selection guard (empty or finished batches can never become the "
    "candidate), argmax direction of the priority comparison, removal from the pending set "
    "before the flush starts, completion check between the last drain and every flush, "
    "before/after flush events paired on every exit (exceptional included), second-flush guard, "
    "item-completed-once guard.  Decides the shape of the mechanism on all paths; does not "
    "execute asynq."
)


def _loop_over_batches(R, ro, sel):
    bf = ro.batches_field()
    loops = []
    for n in ast.walk(sel.node):
        if isinstance(n, ast.For) and isinstance(n.target, ast.Name):
            srcs = [q.dotted(n.iter)] + [q.dotted(a) for a in getattr(n.iter, "args", [])]
            if "self." + bf in srcs:
                if any(kit.q.is_attr_call(c, "get_priority") for c in q.calls(n)):
                    loops.append(n)
    R.need(len(loops) == 1, "idiom: expected one loop over self.%s computing priorities in %s, found %d"
           % (bf, sel.qualname, len(loops)))
    return loops[0]


def _returned_names(fn_node):
    out = set()
    for n in q.scope_nodes(fn_node):
        if isinstance(n, ast.Return) and n.value is not None:
            if isinstance(n.value, ast.Name):
                out.add(n.value.id)
            elif not q.is_none(n.value):
                out.add(None)
    return out


def selection_rules(R, ro, P="C05"):
    sel = ro.select_method()
    cfg = cfg_of(sel)
    loop = _loop_over_batches(R, ro, sel)
    lv = loop.target.id
    ret = _returned_names(sel.node)
    # selection by max()/sorted() over (priority, batch) pairs without a key: when two priorities are equal the comparison goes on to the
    # batch objects themselves, which have no order - TypeError out of the scheduler exactly when two batches tie for the maximum
    for rn in [x for x in q.scope_nodes(sel.node) if isinstance(x, ast.Return) and x.value is not None]:
        for c_ in [y for y in ast.walk(rn.value) if isinstance(y, ast.Call) and q.call_name(y) in ("max", "min", "sorted") and y.args and not any(k.arg == "key" for k in y.keywords)]:
            src0 = c_.args[0]
            pairs = []
            if isinstance(src0, ast.Name):
                for ap in [y for y in q.calls(sel.node) if q.call_name(y) == src0.id + ".append" and y.args and isinstance(y.args[0], ast.Tuple)]:
                    pairs.append(ap.args[0])
                for k_, v_ in common.assigned_values(sel.node, src0.id):
                    if k_ == "expr" and isinstance(v_, (ast.ListComp, ast.GeneratorExp)) and isinstance(v_.elt, ast.Tuple):
                        pairs.append(v_.elt)
            elif isinstance(src0, (ast.ListComp, ast.GeneratorExp)) and isinstance(src0.elt, ast.Tuple):
                pairs.append(src0.elt)
            if any(any(isinstance(e, ast.Name) and e.id == lv for e in t.elts[1:]) for t in pairs):
                R.violation(P + ".ARGMAX", sel.qualname + ":tuple-order", R.site(sel, rn),
                            "the batch to flush is chosen with %s() over (priority, batch) tuples and no key: two pending batches with equal get_priority() are compared "
                            "with each other (batches are not orderable) - TypeError escapes the scheduler and nothing is flushed" % q.call_name(c_))
    R.need(None not in ret and len(ret) == 1,
           "idiom: %s must return a single candidate variable (found %s)" % (sel.qualname, sorted(map(str, ret))))
    cand = ret.pop()
    loop_node = kit.one(cfg.nodes_for(loop), "loop header")
    iter_starts = [e.dst for e in cfg.out_edges(loop_node.id, N) if e.label == "iter"]
    # stores to the candidate inside the loop
    cand_stores = []
    for n in cfg.nodes_in(loop):
        if n.kind == "stmt" and isinstance(n.ast, (ast.Assign, ast.AugAssign)) and cand in q.names_stored(n.ast):
            if n.ast is not loop:
                cand_stores.append(n)
    R.need(cand_stores, "idiom: no assignment to candidate %r inside the selection loop" % cand)
    for st in cand_stores:
        site = R.site(sel, st.ast)
        # the stored value must be the loop variable itself
        val = st.ast.value if isinstance(st.ast, ast.Assign) else None
        R.check(isinstance(val, ast.Name) and val.id == lv, P + ".SELECT-VALUE", "%s:%s" % (sel.qualname, q.stmt_key(st.ast)),
                site, "candidate is assigned the batch under examination",
                "candidate %r is assigned something other than the examined batch %r" % (cand, lv))
        # SELECT-GUARD a: non-empty
        def nonempty(node):
            if node.kind != "test":
                return None
            k, s, pos = q.atom_test(node.ast)
            if k == "truth" and s == "%s.items" % lv:
                return "T" if pos else "F"
            if k == "call" and s == "%s.is_empty" % lv:
                return "F" if pos else "T"
            if k == "lt" and s == ("0", "len(%s.items)" % lv):
                return "T" if pos else "F"
            if k == "eq" and s == tuple(sorted(["0", "len(%s.items)" % lv])):
                return "F" if pos else "T"
            return None

        def unflushed(node):
            if node.kind != "test":
                return None
            k, s, pos = q.atom_test(node.ast)
            if k == "call" and s in ("%s.is_flushed" % lv, "%s.is_computed" % lv):
                return "F" if pos else "T"
            return None

        p = kit.path_avoiding_guard(cfg, [st], nonempty, N, sources=iter_starts)
        R.check(p is None, P + ".SELECT-GUARD", "%s:nonempty:%s" % (sel.qualname, q.stmt_key(st.ast)), site,
                "every path from the loop head to the candidate assignment crosses the `%s.items` non-empty edge" % lv,
                "an empty batch can become the flush candidate (no non-empty guard on some path)",
                cfg.fmt_path(p) if p else None)
        p = kit.path_avoiding_guard(cfg, [st], unflushed, N, sources=iter_starts)
        R.check(p is None, P + ".SELECT-GUARD", "%s:unflushed:%s" % (sel.qualname, q.stmt_key(st.ast)), site,
                "every path to the candidate assignment crosses the not-flushed edge of %s.is_flushed()" % lv,
                "an already flushed/cancelled batch can become the flush candidate",
                cfg.fmt_path(p) if p else None)
        if st is cand_stores[0]:
            # the user hook is asked only of batches that can be flushed: a get_priority() override written for a pending, non-empty
            # batch (max(item.urgency for item in self.items)) raises for an empty or finished one that is still on the list
            for hn, hc in kit.call_sites(sel, lambda c: q.is_attr_call(c, "get_priority", lv)):
                for gname, gfn in (("nonempty", nonempty), ("unflushed", unflushed)):
                    ph = kit.path_avoiding_guard(cfg, [hn], gfn, N, sources=iter_starts)
                    R.check(ph is None, P + ".SELECT-GUARD", "%s:hook-%s" % (sel.qualname, gname), R.site(sel, hc),
                            "%s.get_priority() is asked only after the batch passed the %s test" % (lv, gname),
                            "%s.get_priority() is asked of a batch that has not passed the %s test: a batch that is still listed although it is empty or has "
                            "been flushed / cancelled meanwhile (a nested call, item.value()) reaches the user's override, whose exception escapes from "
                            "wait_for() - nothing more is flushed" % (lv, gname), cfg.fmt_path(ph) if ph else None)
        # ARGMAX
        # current priority: a name assigned from <lv>.get_priority() in the loop, or the call
        cur_names = set(["%s.get_priority()" % lv])
        for n in ast.walk(loop):
            if isinstance(n, ast.Assign) and isinstance(n.value, ast.Call) and q.is_attr_call(n.value, "get_priority", lv):
                for t in n.targets:
                    if isinstance(t, ast.Name):
                        cur_names.add(t.id)
        R.need(len(cur_names) >= 1, "idiom: priority of the examined batch not found")
        # best priority: names assigned from a current-priority name next to the candidate store
        best_names = set()
        for n in ast.walk(loop):
            if isinstance(n, ast.Assign) and q.src(n.value) in cur_names:
                for t in n.targets:
                    if isinstance(t, ast.Name) and t.id not in cur_names:
                        best_names.add(t.id)
        R.need(best_names, "idiom: variable remembering the best priority not found in %s" % sel.qualname)

        # "there is no candidate yet" may be kept in a boolean local: False before the loop, set to True exactly where the candidate is stored
        cand_flags = set()
        for cs in cand_stores:
            blk = q.enclosing_block(cs.ast) if hasattr(q, "enclosing_block") else None
            sibs = blk if blk is not None else []
            for sb in sibs:
                if isinstance(sb, ast.Assign) and isinstance(sb.value, ast.Constant) and sb.value.value is True:
                    for t in sb.targets:
                        if isinstance(t, ast.Name):
                            inits = [v for k_, v in common.assigned_values(sel.node, t.id) if k_ == "expr"]
                            if inits and all(isinstance(v, ast.Constant) and isinstance(v.value, bool) for v in inits) and any(v.value is False for v in inits):
                                cand_flags.add(t.id)

        def argmax(node):
            if node.kind != "test":
                return None
            k, s, pos = q.atom_test(node.ast)
            if k == "isnone" and (s == cand or s in best_names):
                return "T" if pos else "F"
            if k == "truth" and s in cand_flags:
                return "F" if pos else "T"
            if k == "lt":
                a, b = s
                if a in best_names and b in cur_names:  # best < cur  -> replace
                    return "T" if pos else "F"
                if a in cur_names and b in best_names:  # cur < best -> must NOT replace
                    return "F" if pos else "T"
            return None

        p = kit.path_avoiding_guard(cfg, [st], argmax, N, sources=iter_starts)
        R.check(p is None, P + ".ARGMAX", "%s:%s" % (sel.qualname, q.stmt_key(st.ast)), site,
                "candidate replaced only when it is the first one or its get_priority() is greater",
                "the candidate can be replaced by a batch whose priority is not greater (comparison direction / missing comparison)",
                cfg.fmt_path(p) if p else None)
        # the first eligible batch is taken without comparing (there is nothing to compare it with yet)
        lt_tests = [n for n in cfg.nodes_in(loop) if n.kind == "test" and q.atom_test(n.ast)[0] == "lt"
                    and set(q.atom_test(n.ast)[1]) & best_names]

        def first_edge(e):
            nd = cfg.nodes[e.src]
            if nd.kind != "test":
                return True
            k, s, pos = q.atom_test(nd.ast)
            if k == "isnone" and (s == cand or s in best_names):
                return e.label == ("T" if pos else "F")     # we are on the "no candidate yet" side
            if k == "truth" and s in cand_flags:
                return e.label == ("F" if pos else "T")
            return True
        p = cfg.find_path(iter_starts, list(cand_stores), N, cut_nodes=lt_tests, keep_edge=first_edge)
        R.check(p is not None, P + ".ARGMAX", "%s:first" % sel.qualname, site,
                "while there is no candidate yet, an eligible batch becomes the candidate without a priority comparison",
                "with no candidate yet, a batch becomes the candidate only through a comparison with the (still unset) best priority: "
                "the first batch is never selected / None is compared with a priority")
        # the remembered best priority changes only together with the candidate
        for n in cfg.nodes_in(loop):
            if n.kind == "stmt" and isinstance(n.ast, (ast.Assign, ast.AugAssign)) and (q.names_stored(n.ast) & best_names):
                p = kit.path_avoiding_guard(cfg, [n], argmax, N, sources=iter_starts)
                p2 = None
                if p is None:
                    # ... and whenever the candidate changes, so does the remembered priority
                    pass
                R.check(p is None, P + ".ARGMAX-PAIR", "%s:%s" % (sel.qualname, q.stmt_key(n.ast)), R.site(sel, n.ast),
                        "the remembered best priority is updated only when the candidate is replaced",
                        "the remembered priority is overwritten although the candidate is kept: later batches are compared with the wrong priority",
                        cfg.fmt_path(p) if p else None)
        # every candidate replacement also records its priority before the next comparison
        best_store_nodes = [n for n in cfg.nodes_in(loop) if n.kind == "stmt" and isinstance(n.ast, ast.Assign)
                            and (q.names_stored(n.ast) & best_names) and q.src(n.ast.value) in cur_names]
        nxt = [e.dst for e in cfg.out_edges(st.id, N)]
        if st in best_store_nodes:
            p = None
        else:
            p = cfg.find_path(nxt, [loop_node, cfg.exit], N, cut_nodes=best_store_nodes)
            # a store that precedes the candidate store in the same block is fine as well
            if p is not None:
                back = cfg.find_path(iter_starts, [st], N, cut_nodes=best_store_nodes)
                if back is None:
                    p = None
        R.check(p is None, P + ".ARGMAX-PAIR", "%s:records:%s" % (sel.qualname, q.stmt_key(st.ast)), site,
                "replacing the candidate records its priority for the following comparisons",
                "the candidate can be replaced without recording its priority",
                cfg.fmt_path(p) if p else None)
    R.require_min(P + ".SELECT-GUARD", 2)
    R.require_min(P + ".ARGMAX", 1)
    return sel



def run(R):
    R.extra["explanation"] = EXPLANATION
    ro = Roles(R)
    sel = selection_rules(R, ro, "C05")
    # REMOVE-BEFORE-FLUSH --------------------------------------------------------------
    fo = ro.flush_one_method()
    fcfg = cfg_of(fo)
    bf = ro.batches_field()
    flush_calls = []
    for fm in ro.flush_method():
        flush_calls += ro.calls_to(fo, [fm])
    direct = ro.flush_sites_in(fo)
    flush_calls += direct
    R.need(flush_calls, "role: %s does not reach a flush" % fo.qualname)
    for node, call in flush_calls:
        if (node, call) in direct:
            arg = q.dotted(q.attr_call(call)[0])
        else:
            arg = q.dotted(call.args[0]) if call.args else None
        R.need(arg is not None, "idiom: flushed batch expression not a plain name in %s" % fo.qualname)
        removes = kit.call_sites(fo, lambda c: q.attr_call(c)[1] in ("remove", "discard") and q.dotted(q.attr_call(c)[0]) == "self." + bf
                                 and c.args and q.dotted(c.args[0]) == arg)
        p = fcfg.find_path([fcfg.entry], [node], N, cut_nodes=[n for n, c in removes])
        R.check(p is None, "C05.REMOVE-BEFORE-FLUSH", "%s:%s" % (fo.qualname, q.stmt_key(call)), R.site(fo, call),
                "the batch leaves self.%s before its flush starts on every path" % bf,
                "the batch is still in self.%s while it is being flushed (a flush body that re-enters the scheduler could select it again)" % bf,
                fcfg.fmt_path(p) if p else None)
        # the flushed batch is the one selected
        sel_assigned = False
        for n in q.scope_nodes(fo.node):
            if isinstance(n, ast.Assign) and isinstance(n.value, ast.Call):
                tg = [t for c, t, k in R.res.callees(fo) if c is n.value]
                if tg and sel in tg[0] and any(isinstance(t, ast.Name) and t.id == arg for t in n.targets):
                    sel_assigned = True
        R.check(sel_assigned, "C05.FLUSH-SELECTED", "%s:%s" % (fo.qualname, q.stmt_key(call)), R.site(fo, call),
                "the flushed batch is the result of the selection method",
                "the flushed batch %r is not the value returned by %s" % (arg, sel.qualname))
        # nothing is removed or flushed when the selection found no batch (it returns None then)
        def have_batch(nd, arg=arg):
            if nd.kind != "test":
                return None
            k_, s_, pos_ = q.atom_test(nd.ast)
            if k_ == "isnone" and s_ == arg:
                return "F" if pos_ else "T"
            if k_ == "truth" and s_ == arg:
                return "T" if pos_ else "F"
            return None
        users = [node] + [n for n, c in removes]
        p = kit.path_avoiding_guard(fcfg, users, have_batch, N)
        R.check(p is None, "C05.FLUSH-SELECTED", "%s:%s:not-none" % (fo.qualname, q.stmt_key(call)), R.site(fo, call),
                "the batch is removed and flushed only when the selection returned one",
                "when no batch is pending (the selection returns None) %s still goes on to remove / flush `%s`: KeyError or AttributeError escapes wait_for in the "
                "round in which a nested flush has already answered everything" % (fo.name, arg), fcfg.fmt_path(p) if p else None)
    R.require_min("C05.REMOVE-BEFORE-FLUSH", 1)

    # DONE-CHECK ------------------------------------------------------------------------
    wf = ro.wait_for()
    wcfg = cfg_of(wf)
    params = q.param_names(wf.node)
    R.need(len(params) >= 2, "wait_for lost its task parameter")
    tparam = params[1]
    drain = ro.drain_method()
    drain_calls = ro.calls_to(wf, [drain])
    wf_flush = []
    for m in ro.ts_methods():
        if m is not wf and ro.reaches_flush(m):
            wf_flush += ro.calls_to(wf, [m])
    wf_flush += ro.flush_sites_in(wf)
    R.need(drain_calls, "role: wait_for no longer calls the drain method")
    R.need(wf_flush, "role: wait_for no longer reaches a flush")

    def done_guard(node):
        if node.kind != "test":
            return None
        k, s, pos = q.atom_test(node.ast)
        if k == "call" and s == "%s.is_computed" % tparam:
            return "F" if pos else "T"
        return None

    starts = kit.succs_of(wcfg, [n for n, c in drain_calls], N)
    for node, call in wf_flush:
        p = kit.path_avoiding_guard(wcfg, [node], done_guard, N, sources=starts)
        R.check(p is None, "C05.DONE-CHECK", "%s:%s" % (wf.qualname, q.stmt_key(call)), R.site(wf, call),
                "between the last drain and this flush the not-computed edge of %s.is_computed() is crossed" % tparam,
                "a batch can be flushed although the awaited task completed during the preceding drain",
                wcfg.fmt_path(p) if p else None)
    R.require_min("C05.DONE-CHECK", 1)

    # EVENTS ----------------------------------------------------------------------------
    for fm in ro.flush_method():
        mcfg = cfg_of(fm)
        sites = ro.flush_sites_in(fm)
        def ev_calls(name):
            return kit.call_sites(fm, lambda c: q.call_name(c) in ("self.%s" % name, "self.%s.trigger" % name, "self.%s.safe_trigger" % name))
        before = ev_calls("on_before_batch_flush")
        after = ev_calls("on_after_batch_flush")
        R.need(before or after or fm.qualname.endswith("_flush_batch") is False or True, "")
        for node, call in sites:
            barg = q.dotted(q.attr_call(call)[0])
            site = R.site(fm, call)
            bn = [n for n, c in before if c.args and q.dotted(c.args[0]) == barg]
            an = [n for n, c in after if c.args and q.dotted(c.args[0]) == barg]
            p = mcfg.find_path([mcfg.entry], [node], N, cut_nodes=bn)
            R.check(p is None and bn, "C05.EVENTS", "%s:before:%s" % (fm.qualname, q.stmt_key(call)), site,
                    "on_before_batch_flush(%s) fires before the flush on every path" % barg,
                    "the flush can start without on_before_batch_flush(%s) having fired" % barg,
                    mcfg.fmt_path(p) if p else None)
            starts = [e.dst for e in mcfg.out_edges(node.id, X)]
            p = mcfg.find_path(starts, [mcfg.exit, mcfg.raise_exit], X, cut_nodes=an)
            R.check(p is None and an, "C05.EVENTS", "%s:after:%s" % (fm.qualname, q.stmt_key(call)), site,
                    "on_after_batch_flush(%s) fires on every exit after the flush, exceptional exits included" % barg,
                    "after the flush (in particular when it raises) the method can be left without on_after_batch_flush(%s)" % barg,
                    mcfg.fmt_path(p) if p else None)
            # paired: once the before event has fired (returned normally), no exit skips the after event -- subscribers keep
            # gauges / timers between the two, and a subscriber of the before event may itself complete the batch
            for b in bn:
                bstarts = [e.dst for e in mcfg.out_edges(b.id, N) if e.label != "exc"]
                p = mcfg.find_path(bstarts, [mcfg.exit, mcfg.raise_exit], X, cut_nodes=an) if an else None
                R.check(p is None and an, "C05.EVENTS", "%s:paired:%s" % (fm.qualname, q.stmt_key(call)), site,
                        "every on_before_batch_flush(%s) that fired is followed by on_after_batch_flush(%s) on every exit" % (barg, barg),
                        "after on_before_batch_flush(%s) fired the method can be left without on_after_batch_flush(%s) (e.g. when a subscriber of the "
                        "before event already completed the batch): the events no longer come in pairs" % (barg, barg),
                        mcfg.fmt_path(p) if p else None)
            # exactly once
            for which, nodes in (("before", bn), ("after", an)):
                p = kit.at_most_once(fm, nodes, X) if nodes else None
                R.check(p is None, "C05.EVENTS-ONCE", "%s:%s:%s" % (fm.qualname, which, q.stmt_key(call)), site,
                        "on_%s_batch_flush fires at most once per flush" % which,
                        "on_%s_batch_flush can fire twice for one flush" % which,
                        mcfg.fmt_path(p) if p else None)
        # ONE flush per call of the flush method
        p = kit.at_most_once(fm, [n for n, c in sites], N)
        R.check(p is None, "C05.FLUSH-ONCE", "%s" % fm.qualname, R.site(fm),
                "at most one BatchBase.flush() on any path of the method",
                "two flushes can happen in one call", mcfg.fmt_path(p) if p else None)
    R.require_min("C05.EVENTS", 2)
    # the hooks subscribers registered on live as long as the scheduler: only the constructor creates them.  A method that runs
    # during the scheduler's life (reset() is also the stack-limit abort) and assigns a fresh hook drops every subscriber: later
    # flushes fire their events into the void
    ts = ro.TS
    for hook in ("on_before_batch_flush", "on_after_batch_flush"):
        writers = sorted(set(m.name for m in ts.methods.values() for recv, attr, node in q.attr_stores(m.node) if recv == "self" and attr == hook))
        R.check(writers == ["__init__"], "C05.EVENTS", "%s.%s:writers" % (ts.qualname, hook), R.site(ts.module, ts.node),
                "self.%s is created by the constructor only" % hook,
                "self.%s is assigned in %s: a hook object created after construction replaces the one handlers subscribed to (reset() also runs when the "
                "stack limit aborts a computation) - the before/after events of every later flush reach nobody" % (hook, ", ".join(w for w in writers if w != "__init__") or "no method at all"))
    common.hook_dispatch(R, "C05.HOOK-DISPATCH", ("batching.BatchBase", "batching.BatchItemBase"))
    common.no_mutation_while_iterating(R, "C05.SELECT-STABLE", ("scheduler.TaskScheduler", "batching.BatchBase"))
    common.pending_removal_tolerant(R, ro, "C05.SELECT-STABLE")
    common.scheduler_lookup_fresh(R, "C05.EVENTS")
    # the priority rule is about the batches that are pending when nothing else can run: a task whose new dependencies were not
    # scheduled in this walk (a stale dependencies-scheduled flag) has not added its requests yet, so a smaller batch goes first
    from .c04 import revisit_rules
    revisit_rules(R, ro, "C05.REVISIT")

    gp = ro.BatchBase.methods.get("get_priority")
    R.need(gp is not None, "anchor vanished: BatchBase.get_priority")
    rets = [n.value for n in q.scope_nodes(gp.node) if isinstance(n, ast.Return)]
    okp = len(rets) == 1 and isinstance(rets[0], ast.Tuple) and len(rets[0].elts) == 2 and q.src(rets[0].elts[1]) == "len(self.items)" \
        and isinstance(rets[0].elts[0], ast.Constant) and isinstance(rets[0].elts[0].value, int)
    R.check(okp, "C05.DEFAULT-PRIORITY", gp.qualname, R.site(gp), "by default a batch's priority is (constant base, number of items): the fullest batch is flushed first",
            "the default get_priority() is no longer (base, len(self.items)): %s" % [q.src(r) if r is not None else None for r in rets])
    # ... and a user's override may return any comparable value: the .pxd does not narrow the hook's result type
    bb = ro.BatchBase
    pxd_gp = bb.pxd.methods.get("get_priority") if bb.pxd is not None else None
    if pxd_gp is not None:
        R.check(pxd_gp.ret in (None, "", "object"), "C05.DEFAULT-PRIORITY", gp.qualname + ":pxd", "%s:%d" % (bb.module.pxd_path.replace(R.repo.root + "/", ""), pxd_gp.line),
                "the declared result type of get_priority() is object",
                "batching.pxd declares `%s get_priority()`: in the compiled build a user override that returns something else (an int, a float "
                "timestamp) makes the scheduler's selection raise TypeError" % pxd_gp.ret)
    # the selection loop does not narrow what it iterates either (a user batch class is any BatchBase subclass; that is fine) - but a typed
    # priority local would: no C type on the priority variables
    sel_px = ro.select_method().pxd()
    if sel_px is not None:
        for ln_, t_ in sorted(sel_px.locals.items()):
            if "priority" in ln_:
                R.check(t_ in (None, "", "object"), "C05.DEFAULT-PRIORITY", "%s:pxd:%s" % (ro.select_method().qualname, ln_), R.site(ro.select_method()),
                        "the priority local %s is untyped" % ln_, "the priority local %s is declared %s: user priorities of another type raise TypeError" % (ln_, t_))
    # nothing is flushed for a computation that is over: batches scheduled by tasks that were abandoned do not outlive it
    from .c08 import batch_residue
    batch_residue(R, ro, "C05.RESIDUE")
    # FLUSH-GUARD -----------------------------------------------------------------------
    bb = ro.BatchBase
    fl = bb.methods.get("flush")
    R.need(fl is not None, "anchor vanished: BatchBase.flush")
    _flush_guard(R, fl, "C05.FLUSH-GUARD")

    # ANSWERED: a flush body that raises still answers every item (captured, stored, delivered) --------
    from ..cfg import ExcHierarchy
    from .c02 import batch_err
    batch_err(R, ro, "C05.ANSWERED", ExcHierarchy(R.repo))
    # inspecting a pending batch (str/repr/dump in a flush-event handler or a debug dump) must not flush it
    from .c18 import diag_closure, diag_purity
    _roots, allm = diag_closure(R)
    diag_purity(R, ro, allm, "C05.DIAG-PURE")
    # ITEM-ONCE -------------------------------------------------------------------------
    comp = bb.methods.get("_computed")
    R.need(comp is not None, "anchor vanished: BatchBase._computed")
    item_once(R, comp, "C05.ITEM-ONCE")


def _flush_guard(R, fl, rule):
    cfg = cfg_of(fl)
    computes = kit.call_sites(fl, lambda c: q.call_name(c) in ("self.error", "self.value", "self._compute", "self._flush", "self"))
    R.need(computes, "idiom: BatchBase.flush no longer computes the batch through error()/value()/_compute()")

    def guard(node):
        if node.kind != "test":
            return None
        k, s, pos = q.atom_test(node.ast)
        if k == "call" and s in ("self.is_computed", "self.is_flushed"):
            return "F" if pos else "T"
        return None

    for node, call in computes:
        p = kit.path_avoiding_guard(cfg, [node], guard, N)
        R.check(p is None, rule, "%s:%s" % (fl.qualname, q.stmt_key(call)), R.site(fl, call),
                "the computation is reached only over the not-computed edge of the guard",
                "flush() can run the flush body of a batch that is already flushed or cancelled",
                cfg.fmt_path(p) if p else None)
    # the computed side of the guard raises BatchingError and cannot return normally
    gnodes = kit.guard_edges_exist(cfg, guard)
    for g in gnodes:
        bad_label = "T" if guard(g) == "F" else "F"
        starts = [e.dst for e in cfg.out_edges(g.id, N) if e.label == bad_label]
        p = cfg.find_path(starts, [cfg.exit], N)
        raises = [n for n in cfg.nodes if n.kind == "stmt" and isinstance(n.ast, ast.Raise) and n.ast.exc is not None
                  and (q.call_name(n.ast.exc) if isinstance(n.ast.exc, ast.Call) else q.dotted(n.ast.exc)) in ("BatchingError",)]
        reach = cfg.find_path(starts, raises, N) if raises else None
        R.check(p is None and reach is not None, rule, "%s:raise" % fl.qualname, R.site(fl, g.ast),
                "on an already computed batch flush() raises BatchingError and never returns normally",
                "a second flush() does not raise BatchingError on every path",
                cfg.fmt_path(p) if p else None)


def item_once(R, comp, rule):
    cfg = cfg_of(comp)
    def over_items(it):
        return common.iterates_items(comp.node, it)
    loops = [n for n in ast.walk(comp.node) if isinstance(n, ast.For) and over_items(n.iter) and isinstance(n.target, ast.Name)]
    R.need(len(loops) >= 1, "idiom: BatchBase._computed no longer loops over self.items")
    cnt = 0
    for loop in loops:
        iv = loop.target.id
        sets = [(n, c) for n, c in kit.call_sites(comp, lambda c: q.attr_call(c)[1] in ("set_error", "set_value") and q.dotted(q.attr_call(c)[0]) == iv)]
        head = kit.one(cfg.nodes_for(loop), "loop header")
        starts = [e.dst for e in cfg.out_edges(head.id, N) if e.label == "iter"]

        def guard(node, iv=iv):
            if node.kind != "test":
                return None
            k, s, pos = q.atom_test(node.ast)
            if k == "call" and s == "%s.is_computed" % iv:
                return "F" if pos else "T"
            return None

        for node, call in sets:
            cnt += 1
            p = kit.path_avoiding_guard(cfg, [node], guard, N, sources=starts)
            R.check(p is None, rule, "%s:%s" % (comp.qualname, q.stmt_key(call)[:40]), R.site(comp, call),
                    "an item is completed by the batch only when it is not computed yet (tested right before, inside the loop)",
                    "an item that is already completed - by the flush, or meanwhile by the _cancel() hook or another item's on_computed subscriber - can "
                    "be completed again (FutureIsAlreadyComputed inside the batch's completion: the remaining items stay pending, the batch's subscribers "
                    "are never told)",
                    cfg.fmt_path(p) if p else None)
    R.need(cnt >= 1, "idiom: no item completion found in BatchBase._computed")
    # every item is visited: the walk over the items is not cut short (break / return inside the loop) -- a flush body may set any
    # subset of the items, in any order, so "stop at the first computed one" leaves earlier unset items pending
    for loop in loops:
        cuts = []
        def scan(stmts, top=True):
            for st in stmts:
                for x in ast.walk(st) if not isinstance(st, (ast.For, ast.While, ast.FunctionDef)) else [st]:
                    if isinstance(x, (ast.Break, ast.Return)):
                        cuts.append(x)
        def walk_body(stmts):
            for st in stmts:
                if isinstance(st, (ast.FunctionDef, ast.Lambda)):
                    continue
                if isinstance(st, (ast.For, ast.While)):
                    # a break inside a nested loop leaves only that loop; a return leaves ours too
                    cuts.extend(x for x in ast.walk(st) if isinstance(x, ast.Return))
                    continue
                if isinstance(st, (ast.Break, ast.Return)):
                    cuts.append(st)
                for fld in ("body", "orelse", "finalbody", "handlers"):
                    sub = getattr(st, fld, None)
                    if sub:
                        walk_body([h for h in sub] if fld != "handlers" else [b for h in sub for b in h.body])
        walk_body(loop.body)
        R.check(not cuts, rule, "%s:every-item" % comp.qualname, R.site(comp, cuts[0] if cuts else loop),
                "the completion visits every item of the batch (no break/return cuts the walk short)",
                "the walk over the batch's items in _computed can stop early (`%s` at line %s): items the flush body left unset before that point are "
                "never completed, although their batch is flushed" % (q.src(cuts[0]) if cuts else "", getattr(cuts[0], "lineno", "?") if cuts else ""))
    # the items are still there when the completion walks them: the list is emptied only after the batch is computed (i.e. after
    # the call that computes it returned), never between the flush body and the completion
    bb = comp.cls
    for m in bb.methods.values():
        mcfg = cfg_of(m)
        clears = [n for n, c in kit.call_sites(m, lambda c: q.call_name(c) == "self.items.clear")]
        clears += [n for n in mcfg.nodes if n.kind == "stmt" and isinstance(n.ast, (ast.Assign, ast.Delete)) and
                   any(q.src(t) in ("self.items", "self.items[:]") for t in (n.ast.targets if hasattr(n.ast, "targets") else []))
                   and m.name != "__init__"]
        if not clears:
            continue
        done = [n for n, c in kit.call_sites(m, lambda c: q.call_name(c) in ("self.error", "self.value", "self._compute", "self"))]
        if m.name == "_computed":
            done += [kit.one(mcfg.nodes_for(lp), "loop header") for lp in loops]
        p = mcfg.find_path([mcfg.entry], clears, N, cut_nodes=done)
        R.check(p is None, rule, "%s:items-kept" % m.qualname, R.site(m),
                "%s empties the item list only after the batch has been computed" % m.name,
                "%s can empty self.items before the batch's completion has walked them: items the flush did not set are never completed "
                "(no 'value not set' error, no on_computed), although their batch is flushed" % m.name, mcfg.fmt_path(p) if p else None)
