"""C19 - asynq.mock.patch replaces every calling convention and always restores."""
import ast
import os

from ..cfg import cfg_of, N, X, ExcHierarchy
from ..errors import AnalysisError
from .. import q, kit
from . import common

EXPLANATION = (
    "Must-attach, forwarding and sibling-agreement rules over mock_.py: when the entered replacement is "
    "callable, .asynq, .async and .asyncio wrappers built from the replacement of this activation are "
    "attached on every path; the wrappers forward (*args, **kwargs) unchanged to the replacement and "
    "wrap the result (ConstFuture / coroutine); _maybe_wrap_new keeps non-callables, decorates functions "
    "and class/static methods with sync_fn and wraps attribute-less callables; patch and patch.object "
    "take the parameters of unittest.mock.patch / patch.object (parsed from the interpreter's own "
    "unittest/mock.py) with equal defaults and forward them; _PatchAsync overrides neither __exit__ nor "
    "start/stop, so restoration is the standard library's; copy() passes the fields of _patch.copy."
)


def stdlib_mock_tree():
    import unittest.mock as um  # standard library, not the analysed package
    path = um.__file__
    with open(path) as f:
        return ast.parse(f.read()), path


def sig(fn_node):
    a = fn_node.args
    names = [x.arg for x in a.posonlyargs + a.args]
    defaults = [None] * (len(names) - len(a.defaults)) + [q.src(d) for d in a.defaults]
    return list(zip(names, defaults)), (a.vararg.arg if a.vararg else None), (a.kwarg.arg if a.kwarg else None)


def run(R):
    R.extra["explanation"] = EXPLANATION
    repo = R.repo
    mm = repo.modules["mock_"]
    pa = repo.cls("mock_._PatchAsync")
    # ---- ATTACH
    en = pa.methods.get("__enter__")
    R.need(en is not None, "anchor vanished: _PatchAsync.__enter__")
    cfg = cfg_of(en)
    # the replacement of this activation
    mv = [(t.id, n) for n in q.scope_nodes(en.node) if isinstance(n, ast.Assign) and isinstance(n.value, ast.Call) and isinstance(n.value.func, ast.Attribute)
          and n.value.func.attr == "__enter__" and isinstance(n.value.func.value, ast.Call) and q.call_name(n.value.func.value) == "super" for t in n.targets if isinstance(t, ast.Name)]
    R.need(len(mv) == 1, "idiom: __enter__ does not take the replacement from super().__enter__()")
    mock_fn = mv[0][0]
    rets = [q.src(n.value) for n in q.scope_nodes(en.node) if isinstance(n, ast.Return)]
    R.check(bool(rets) and all(r == mock_fn for r in rets), "C19.ATTACH", en.qualname + ":returns", R.site(en), "__enter__ returns the standard library's replacement object", "__enter__ returns %s" % rets)
    attach = {}
    for n in cfg.nodes:
        if n.kind != "stmt":
            continue
        a = n.ast
        if isinstance(a, ast.Assign) and isinstance(a.targets[0], ast.Attribute) and q.src(a.targets[0].value) == mock_fn:
            attach[a.targets[0].attr] = (n, a.value)
        elif isinstance(a, ast.Expr) and isinstance(a.value, ast.Call) and q.call_name(a.value) == "setattr" and q.src(a.value.args[0]) == mock_fn:
            attach[q.const_value(a.value.args[1])] = (n, a.value.args[2])

    def is_callable(nd):
        if nd.kind != "test":
            return None
        k, s, pos = q.atom_test(nd.ast)
        if k == "call" and s == "callable":
            return "T" if pos else "F"
        return None
    for name, wrapper in (("asynq", "_AsynqWrapper"), ("async", "_AsynqWrapper"), ("asyncio", "_AsyncioWrapper")):
        site = R.site(en)
        R.check(name in attach, "C19.ATTACH", en.qualname + ":" + name, site, ".%s is attached to the replacement" % name,
                ".%s is not attached to the replacement: that calling convention does not reach it" % name)
        if name not in attach:
            continue
        node, val = attach[name]
        # on the callable edge every path to the return passes the attachment
        starts = []
        for g in kit.guard_edges_exist(cfg, is_callable):
            starts += [e.dst for e in cfg.out_edges(g.id, N) if e.label == is_callable(g)]
        # (the handler that undoes a failed activation is not a way of activating the patch)
        undo = [x for x in cfg.nodes if x.kind == "except" and any(q.call_name(c_) == "self.__exit__" for c_ in q.calls(x.ast))]
        p = cfg.find_path(starts, [cfg.exit], N, cut_nodes=[node] + undo) if starts else "no callable() test"
        R.check(p is None, "C19.ATTACH", en.qualname + ":" + name + ":always", site, ".%s is attached on every path for a callable replacement" % name,
                ".%s can be missing on a callable replacement" % name)
        # built from this activation's replacement
        vals = [val]
        if isinstance(val, ast.Name):
            vals = [v for k, v in common.assigned_values(en.node, val.id) if k == "expr"] or [val]
        ok = all(isinstance(v, ast.Call) and q.call_name(v) == wrapper and [q.src(x) for x in v.args] == [mock_fn] for v in vals) and len(vals) >= 1
        R.check(ok, "C19.ATTACH-FRESH", en.qualname + ":" + name, site,
                ".%s is %s(<the replacement entered now>)" % (name, wrapper),
                ".%s is not built from the replacement of this activation (`%s`): after re-entering the patcher (decorator called twice, start/stop/start) the "
                "asynchronous conventions still reach the replacement of the first activation" % (name, "; ".join(q.src(v) for v in vals)))
    # a replacement made by new_callable reaches the attachments only after _maybe_wrap_new (a bound method takes no attributes:
    # the assignment would raise after the standard library has installed the replacement, and nothing would restore the original)
    mp_ = mm.functions.get("_make_patch_async")
    pre_wrapped = False
    if mp_ is not None:
        for c in q.calls(mp_.node):
            if q.call_name(c) == "_PatchAsync":
                ncs = [a for a in c.args if isinstance(a, ast.Name) and a.id == "new_callable"]
                stores_nc = [n for n in q.scope_nodes(mp_.node) if isinstance(n, ast.Assign) and any(isinstance(t, ast.Name) and t.id == "new_callable" for t in n.targets)]
                pre_wrapped = pre_wrapped or (not ncs) or bool(stores_nc)
    wraps_ = [n for n, c in kit.call_sites(en, lambda c: q.call_name(c) == "_maybe_wrap_new" and c.args and q.src(c.args[0]) == mock_fn)]

    def no_factory(e):
        nd = cfg.nodes[e.src]
        if nd.kind != "test":
            return True
        k_, s_, pos_ = q.atom_test(nd.ast)
        return not (k_ == "isnone" and s_ == "self.new_callable" and e.label == ("T" if pos_ else "F"))
    src_nodes = [n for n in cfg.nodes if n.kind == "stmt" and n.ast is mv[0][1]]
    pw = cfg.find_path(src_nodes, [nd_ for nd_, v_ in attach.values()], N, cut_nodes=wraps_, keep_edge=no_factory) if attach else None
    installed = True
    if wraps_:
        wnames = set(t.id for n in wraps_ if isinstance(n.ast, ast.Assign) for t in n.ast.targets if isinstance(t, ast.Name))
        installed = any(q.call_name(c) == "setattr" and len(c.args) == 3 and q.src(c.args[0]) == "self.target" and q.src(c.args[1]) == "self.attribute"
                        and q.src(c.args[2]) in wnames for c in q.calls(en.node)) and \
            any(isinstance(n, ast.Assign) and q.src(n.targets[0]) == mock_fn and q.src(n.value) in wnames for n in q.scope_nodes(en.node))
    R.check(pre_wrapped or (pw is None and installed), "C19.ATTACH", en.qualname + ":new_callable", R.site(en),
            "a replacement made by new_callable goes through _maybe_wrap_new (and the wrapper is installed) before attributes are set on it",
            "a replacement made by new_callable gets .asynq/.asyncio set on it as it is: a bound method rejects attributes, so entering the patch raises "
            "AttributeError after the replacement has been installed - __exit__ is not called for a failed __enter__, and the original is never put back"
            if pw is not None else "the wrapper made for a new_callable replacement is not installed in place of it (setattr(self.target, self.attribute, ...))",
            cfg.fmt_path(pw) if pw else None)
    # what __enter__ does after the standard library has installed the replacement can fail (a spec_set mock refuses attributes it
    # does not know; a replacement may refuse all): __exit__ is not called for a failed __enter__, so the failure itself must undo
    # the patch - every statement between super().__enter__() and the return sits in a try whose handler calls self.__exit__(...)
    hier_e = ExcHierarchy(repo)
    post = [n for n in cfg.nodes if n.kind == "stmt" and n.ast is not mv[0][1] and not isinstance(n.ast, (ast.Return, ast.Pass))
            and cfg.find_path(src_nodes, [n], N, include_source_check=False) is not None
            and any(isinstance(x, (ast.Call, ast.Attribute)) for e_ in kit.node_exprs(n) for x in ast.walk(e_))]
    uncovered = []
    for n in post:
        cov = False
        for t in kit.enclosing_try_handlers(n.ast):
            for h in t.handlers:
                if (h.type is None or kit.handler_covers(h, "BaseException", hier_e)) and any(q.call_name(c) == "self.__exit__" for c in q.calls(h)):
                    cov = True
        if any(isinstance(a_, ast.ExceptHandler) for a_ in q.ancestors(n.ast)):
            cov = True      # (the undoing handler itself)
        if not cov:
            uncovered.append(n)
    R.check(not uncovered and bool(post), "C19.RESTORE", en.qualname + ":failed-activation", R.site(en, uncovered[0].ast if uncovered else None),
            "a failure after the replacement was installed undoes the patch (self.__exit__ in a handler for BaseException) before it propagates",
            "`%s` runs after the replacement has been installed and outside any handler that undoes the patch: when it raises (a spec_set mock refusing an "
            "attribute, a replacement that takes none) the with-statement does not call __exit__, start() does not register the patcher - the original is "
            "never put back" % (q.src(uncovered[0].ast)[:50] if uncovered else ""))
    # the replacement that _maybe_wrap_new builds for functions / classmethods / staticmethods is asynq(sync_fn=new)(new): the pair
    # decorator keeps sync_fn exactly as given - its __get__ relies on sync_fn.__get__(owner, cls) binding like the object it was given
    # (a staticmethod object that the constructor unwraps is bound to the instance on access: the synchronous call gets an extra argument)
    pair = repo.cls("decorators.AsyncAndSyncPairDecorator")
    pin = pair.methods.get("__init__")
    R.need(pin is not None, "anchor vanished: AsyncAndSyncPairDecorator.__init__")
    sp = [p_ for p_ in q.param_names(pin.node) if "sync" in p_]
    R.need(sp, "idiom: AsyncAndSyncPairDecorator.__init__ has no sync_fn parameter")
    rebound = [n for n in q.scope_nodes(pin.node) if isinstance(n, (ast.Assign, ast.AugAssign)) and sp[0] in q.names_stored(n)]
    stores_ = [n for n in q.scope_nodes(pin.node) if isinstance(n, ast.Assign) and any(q.src(t) == "self.%s" % sp[0] for t in n.targets)]
    R.check(not rebound and len(stores_) == 1 and q.src(stores_[0].value) == sp[0], "C19.WRAP-NEW", pin.qualname + ":sync_fn", R.site(pin, (rebound or stores_ or [pin.node])[0]),
            "the pair decorator stores the sync_fn it was given",
            "the pair decorator changes `%s` before storing it (`%s`): a staticmethod or classmethod object given as the synchronous half no longer binds as such when "
            "the attribute is read through an instance - the synchronous call of a patched method receives the instance as an extra argument while .asynq/.asyncio "
            "do not" % (sp[0], q.src((rebound or stores_ or [pin.node])[0])[:50]))
    # wrappers forward and wrap
    for cname, wrap in (("_AsynqWrapper", "ConstFuture"), ("_AsyncioWrapper", None)):
        c = repo.cls("mock_." + cname)
        call = c.methods.get("__call__")
        R.need(call is not None, "anchor vanished: %s.__call__" % cname)
        inner = [x for x in ast.walk(call.node) if isinstance(x, ast.Call) and q.call_name(x) == "self._mock_fn"]
        okf = len(inner) == 1 and [q.src(a) for a in inner[0].args] == ["*args"] and any(k.arg is None and q.src(k.value) == "kwargs" for k in inner[0].keywords)
        R.check(okf, "C19.FORWARD", call.qualname, R.site(call), "%s forwards (*args, **kwargs) to the replacement" % cname, "%s does not forward (*args, **kwargs) unchanged" % cname)
        if wrap:
            rs = [n.value for n in q.scope_nodes(call.node) if isinstance(n, ast.Return)]
            R.check(len(rs) == 1 and isinstance(rs[0], ast.Call) and q.call_name(rs[0]) == wrap and rs[0].args[0] is inner[0], "C19.FORWARD", call.qualname + ":wrap", R.site(call),
                    ".asynq(...) returns ConstFuture(replacement(...))", ".asynq(...) does not return ConstFuture of the replacement's result")
        else:
            co = [f for f in call.nested.values() if isinstance(f.node, ast.AsyncFunctionDef)]
            okc = len(co) == 1 and any(isinstance(n, ast.Return) and n.value is inner[0] for n in ast.walk(co[0].node))
            rs = [q.src(n.value) for n in q.scope_nodes(call.node) if isinstance(n, ast.Return)]
            R.check(okc and rs == ["%s()" % co[0].node.name] if co else False, "C19.FORWARD", call.qualname + ":wrap", R.site(call),
                    ".asyncio(...) returns a coroutine of replacement(...)", ".asyncio(...) does not return a coroutine of the replacement's result")
        init = c.find_method("__init__")
        oki = init is not None and any(q.src(x) == "object.__setattr__(self, '_mock_fn', mock_fn)" for x in ast.walk(init.node) if isinstance(x, ast.Call))
        R.check(oki, "C19.FORWARD", c.qualname + ":init", R.site(init) if init else c.qualname, "the wrapper remembers the replacement it was built for", "the wrapper no longer stores its replacement")
    # ---- _maybe_wrap_new
    mw = repo.fn("mock_._maybe_wrap_new")
    mcfg = cfg_of(mw)
    p0 = q.param_names(mw.node)[0]
    rets = [n for n in mcfg.nodes if n.kind == "stmt" and isinstance(n.ast, ast.Return)]
    forms = sorted(set(q.src(n.ast.value) for n in rets))
    R.check(forms == sorted(["Wrapper()", "asynq(sync_fn=%s)(%s)" % (p0, p0), p0]), "C19.WRAP-NEW", mw.qualname + ":returns", R.site(mw),
            "_maybe_wrap_new returns the object itself, asynq(sync_fn=new)(new) or a callable wrapper", "_maybe_wrap_new returns %s" % forms)
    dec = [n for n in rets if q.src(n.ast.value).startswith("asynq(")]

    def fn_like(nd):
        if nd.kind != "test":
            return None
        k, s, pos = q.atom_test(nd.ast)
        if (k == "call" and s == "inspect.isfunction") or (k == "isinstance" and s[0] == p0 and "classmethod" in s[1] and "staticmethod" in s[1]):
            return "T" if pos else "F"
        return None
    p = kit.path_avoiding_guard(mcfg, dec, fn_like, N)
    R.check(p is None and dec, "C19.WRAP-NEW", mw.qualname + ":functions", R.site(mw), "functions, classmethods and staticmethods get .asynq through asynq(sync_fn=new)(new)",
            "the asynq(sync_fn=...) decoration is not restricted to functions/classmethods/staticmethods", mcfg.fmt_path(p) if p else None)
    tests = [q.atom_test(n.ast) for n in mcfg.nodes if n.kind == "test"]
    R.check(any(k == "isinstance" and "classmethod" in s[1] and "staticmethod" in s[1] for k, s, pos in tests) and any(k == "call" and s == "inspect.isfunction" for k, s, pos in tests),
            "C19.WRAP-NEW", mw.qualname + ":kinds", R.site(mw), "plain functions, classmethod and staticmethod objects are recognised", "a replacement kind (function / classmethod / staticmethod) is no longer recognised")
    keep_nc = [n for n in rets if q.src(n.ast.value) == p0]

    def not_callable(nd):
        if nd.kind != "test":
            return None
        k, s, pos = q.atom_test(nd.ast)
        if k == "call" and s == "callable":
            return "F" if pos else "T"
        return None
    # a non-callable is returned as is: from the not-callable edge only `return new` is reachable
    for g in kit.guard_edges_exist(mcfg, not_callable):
        starts = [e.dst for e in mcfg.out_edges(g.id, N) if e.label == not_callable(g)]
        p = mcfg.find_path(starts, [n for n in rets if n not in keep_nc], N)
        R.check(p is None, "C19.WRAP-NEW", mw.qualname + ":non-callable", R.site(mw, g.ast), "a non-callable replacement is installed as is", "a non-callable replacement can be wrapped")
    wr = [f for f in mw.nested.values()]
    wc = [f for c_ in ast.walk(mw.node) if isinstance(c_, ast.ClassDef) for f in c_.body if isinstance(f, ast.FunctionDef) and f.name == "__call__"]
    okw = len(wc) == 1 and any(isinstance(x, ast.Call) and q.call_name(x) == p0 and [q.src(a) for a in x.args] == ["*args"] and x.keywords for x in ast.walk(wc[0]))
    # whether .asynq can be attached is found out by trying (set and delete a test attribute; AttributeError for bound methods,
    # TypeError for extension types, whatever a custom __setattr__ raises of those): a structural guess (has a __dict__, is a method)
    # misses callables that have a __dict__ and still refuse new attributes, and then attaching fails AFTER the target was patched
    probes = []
    # (the probe may live in a helper that is handed the replacement)
    scopes = [(mw.node, p0)]
    for c_, tg_, kind_ in R.res.callees(mw):
        if kind_ == "resolved" and c_.args and any(q.src(a) == p0 for a in c_.args):
            for t__ in tg_:
                if t__.cls is None and t__.module is mw.module:
                    idx = [q.src(a) for a in c_.args].index(p0)
                    ps_ = q.param_names(t__.node)
                    if idx < len(ps_):
                        scopes.append((t__.node, ps_[idx]))
    for scope_node, pv in scopes:
      for t_ in [x for x in ast.walk(scope_node) if isinstance(x, ast.Try)]:
        sets_ = [x for st in t_.body for x in ast.walk(st) if (isinstance(x, ast.Attribute) and isinstance(x.ctx, ast.Store) and q.src(x.value) == pv)
                 or (isinstance(x, ast.Call) and q.call_name(x) == "setattr" and x.args and q.src(x.args[0]) == pv)]
        caught = set()
        for h_ in t_.handlers:
            if h_.type is None:
                caught |= set(["AttributeError", "TypeError"])
            else:
                caught |= set(q.src(e) for e in (h_.type.elts if isinstance(h_.type, ast.Tuple) else [h_.type]))
        if sets_ and (set(["AttributeError", "TypeError"]) <= caught or "Exception" in caught or "BaseException" in caught):
            probes.append(t_)
    R.check(bool(probes), "C19.WRAP-NEW", mw.qualname + ":probe", R.site(mw),
            "whether the replacement accepts attributes is decided by trying to set one (AttributeError and TypeError mean no)",
            "_maybe_wrap_new no longer tries to set an attribute on the replacement: a callable that has a __dict__ but refuses new attributes is "
            "not wrapped, attaching .asynq fails inside __enter__ after the standard patcher installed it, and the original is never restored")
    # ... and every callable replacement that is installed as it is went through that probe (or is a function / classmethod /
    # staticmethod, which get their own arm): a shortcut such as "has .asynq already, nothing to adapt" lets through bound async
    # methods of compiled binders, which have no __dict__ - attaching .asynq then fails inside __enter__, after the target was patched
    probe_nodes = []
    for t_ in probes:
        for st_ in t_.body:
            probe_nodes += [x for x in mcfg.nodes if x.stmt is st_ or (x.ast is not None and any(x.ast is y for y in ast.walk(st_)))]
    for c_, tg_, kind_ in R.res.callees(mw):
        if kind_ == "resolved" and any(any(t_ is y for y in ast.walk(t__.node)) for t__ in tg_ for t_ in probes):
            probe_nodes += [x for x in mcfg.nodes if c_ in kit.node_calls(x)]

    def shortcut_ok(e):
        nd = mcfg.nodes[e.src]
        if nd.kind != "test":
            return False
        k, s_, pos = q.atom_test(nd.ast)
        if k == "is" and isinstance(s_, tuple) and p0 in s_ and any("DEFAULT" in x for x in s_):
            return e.label == ("T" if pos else "F")
        if k == "call" and s_ == "callable":
            return e.label == ("F" if pos else "T")
        return False
    if probes:
        for rn in keep_nc:
            p = mcfg.find_path([mcfg.entry], [rn], N, cut_nodes=probe_nodes, keep_edge=lambda e: not shortcut_ok(e))
            R.check(p is None, "C19.WRAP-NEW", mw.qualname + ":probed:" + str(rn.ast.lineno - mw.node.lineno), R.site(mw, rn.ast),
                    "a callable replacement is returned unchanged only after the attribute probe succeeded",
                    "a callable replacement can be returned unchanged without the attribute probe: one that refuses new attributes (a bound method of a "
                    "compiled binder, an object with __slots__) reaches __enter__ unwrapped, attaching .asynq raises after the standard patcher "
                    "installed it, and the original is never restored", mcfg.fmt_path(p) if p else None)
    R.check(okw, "C19.WRAP-NEW", mw.qualname + ":wrapper", R.site(mw), "the wrapper for attribute-less callables forwards (*args, **kwargs)", "the wrapper for attribute-less callables does not forward its arguments")
    # the pair decorator keeps staticmethod/classmethod wrappers and rebinds sync_fn per access (shared with C09)
    pd = repo.cls("decorators.AsyncAndSyncPairDecorator")
    g = pd.methods.get("__get__")
    R.need(g is not None, "anchor vanished: AsyncAndSyncPairDecorator.__get__")
    tests = [n for n in ast.walk(g.node) if isinstance(n, ast.Compare) and q.src(n.left) == "self.type"]
    okt = len(tests) == 1 and isinstance(tests[0].ops[0], ast.In) and sorted(q.src(e) for e in tests[0].comparators[0].elts) == ["classmethod", "staticmethod"]
    R.check(okt, "C19.WRAP-NEW", g.qualname + ":type", R.site(g),
            "a staticmethod/classmethod replacement keeps its wrapper when the pair decorator is re-bound on attribute access",
            "the pair decorator no longer keeps both staticmethod and classmethod wrappers on re-binding: a staticmethod replacement looked up on an instance gets the "
            "instance prepended for .asynq()/.asyncio() but not for the synchronous call")
    # ---- DROP-IN
    tree, path = stdlib_mock_tree()
    R.assume("unittest.mock signatures parsed from %s" % path)
    std = {}
    for n in tree.body:
        if isinstance(n, ast.FunctionDef) and n.name in ("patch", "_patch_object"):
            std[n.name] = n
        if isinstance(n, ast.ClassDef) and n.name == "_patch":
            for m in n.body:
                if isinstance(m, ast.FunctionDef) and m.name in ("__init__", "copy"):
                    std["_patch." + m.name] = m
    R.need(set(std) >= {"patch", "_patch_object", "_patch.__init__", "_patch.copy"}, "the interpreter's unittest/mock.py does not have the expected functions")
    for ours, theirs in (("patch", "patch"), ("_patch_object", "_patch_object")):
        f = mm.functions.get(ours)
        R.need(f is not None, "anchor vanished: mock_.%s" % ours)
        so, vo, ko = sig(f.node)
        st, vt, kt = sig(std[theirs])
        so2 = [(n, d) for n, d in so if n != "mocksignature"]
        # normalise DEFAULT spelling
        norm = lambda d: None if d is None else d.replace("mock.", "")
        diff = [(a, b) for a, b in zip(so2, st) if (a[0], norm(a[1])) != (b[0], norm(b[1]))]
        R.check(not diff and len(so2) == len(st) and (ko is not None) == (kt is not None), "C19.DROP-IN", "mock_.%s:signature" % ours, R.site(f),
                "%s takes the parameters of unittest.mock.%s with the same defaults (%d parameters; legacy `mocksignature` excepted)" % (ours, theirs, len(st)),
                "%s differs from unittest.mock.%s: %s - not a drop-in replacement (e.g. a default of autospec other than None makes new_callable unusable)"
                % (ours, theirs, "; ".join("%s=%s vs %s=%s" % (a[0], a[1], b[0], b[1]) for a, b in diff) or "parameter count"))
        # forwards every parameter to _make_patch_async
        mk = [c for c in q.calls(f.node) if q.call_name(c) == "_make_patch_async"]
        names = [n for n, d in so if n not in ("target",)]
        okf = len(mk) == 1 and [q.src(a) for a in mk[0].args][-(len(names)):] == [n for n in names][-len(names):] + [] if False else len(mk) == 1
        if mk:
            passed = [q.src(a) for a in mk[0].args]
            okf = all(n in passed for n in ("new", "spec", "create", "spec_set", "autospec", "new_callable", ko))
        R.check(okf, "C19.DROP-IN", "mock_.%s:forwards" % ours, R.site(f), "every parameter is handed to the patcher", "%s drops a parameter on the way to the patcher" % ours)
    # the target is resolved the standard library's way, afresh on every activation: the getter that _get_target returns is
    # handed to the patcher as it is (mock's own patch() does the same)
    pf = mm.functions.get("patch")
    tg = [n for n in q.scope_nodes(pf.node) if isinstance(n, ast.Assign) and isinstance(n.value, ast.Call) and q.call_name(n.value) == "_get_target"
          and isinstance(n.targets[0], ast.Tuple) and len(n.targets[0].elts) == 2]
    mkp = [c for c in q.calls(pf.node) if q.call_name(c) == "_make_patch_async"]
    okg = len(tg) == 1 and len(mkp) == 1 and [q.src(a) for a in mkp[0].args[:2]] == [q.src(e) for e in tg[0].targets[0].elts] \
        and [q.src(a) for a in tg[0].value.args] == [q.param_names(pf.node)[0]]
    if okg:
        names = set(q.src(e) for e in tg[0].targets[0].elts)
        stores = [n for n in q.scope_nodes(pf.node) if isinstance(n, ast.Name) and isinstance(n.ctx, ast.Store) and n.id in names]
        okg = len(stores) == 2
    R.check(okg, "C19.DROP-IN", "mock_.patch:target", R.site(pf), "patch() hands the (getter, attribute) of _get_target(target) to the patcher unchanged",
            "patch() does not hand the getter returned by _get_target(target) to the patcher as it is: the object owning the attribute may be resolved "
            "differently (or only once) compared with unittest.mock.patch")
    mp = mm.functions.get("_make_patch_async")
    R.need(mp is not None, "anchor vanished: mock_._make_patch_async")
    init_n = len(sig(std["_patch.__init__"])[0]) - 1
    ctor = [c for c in q.calls(mp.node) if q.call_name(c) == "_PatchAsync"]
    R.check(any(len(c.args) == init_n for c in ctor), "C19.DROP-IN", mp.qualname + ":arity", R.site(mp),
            "one of the constructor calls matches the %d positional parameters of the installed _patch.__init__" % init_n,
            "no _PatchAsync(...) call matches the arity (%d) of the installed unittest.mock._patch.__init__" % init_n)
    wrapped_names = set(t.id for n in q.scope_nodes(mp.node) if isinstance(n, ast.Assign) and q.src(n.value) == "_maybe_wrap_new(new)" for t in n.targets if isinstance(t, ast.Name))
    for c in ctor:
        if len(c.args) == init_n:
            want = [n for n, d in sig(std["_patch.__init__"])[0][1:]]
            got = ["new" if q.src(a) in wrapped_names else q.src(a) for a in c.args]
            R.check(got == want, "C19.DROP-IN", mp.qualname + ":order", R.site(mp, c), "arguments are passed in the order of _patch.__init__ (%s)" % ", ".join(want),
                    "_PatchAsync is constructed with %s but _patch.__init__ expects %s" % (got, want))
    news = [q.src(c.args[2]) for c in ctor if len(c.args) > 2]
    R.check(bool(wrapped_names) and bool(news) and all(x in wrapped_names for x in news), "C19.DROP-IN", mp.qualname + ":wraps-new", R.site(mp), "the replacement goes through _maybe_wrap_new before the patcher is built", "the replacement is not passed through _maybe_wrap_new")
    cp = pa.methods.get("copy")
    R.need(cp is not None, "anchor vanished: _PatchAsync.copy")
    std_fields = [q.src(a) for c in ast.walk(std["_patch.copy"]) if isinstance(c, ast.Call) and q.call_name(c) == "_patch" for a in c.args]
    ours_calls = [c for c in q.calls(cp.node) if q.call_name(c) == "_PatchAsync"]
    def list_variants(fn_node, name):
        """the element sequences a list local can hold when it is built by a literal and top-level (possibly if-guarded) appends"""
        seqs = None
        for st in fn_node.body:
            if isinstance(st, ast.Assign) and any(isinstance(t, ast.Name) and t.id == name for t in st.targets):
                if not isinstance(st.value, ast.List):
                    return []
                seqs = [[q.src(e) for e in st.value.elts]]
            elif seqs is not None and isinstance(st, ast.Expr) and isinstance(st.value, ast.Call) and q.call_name(st.value) == name + ".append" and len(st.value.args) == 1:
                seqs = [x + [q.src(st.value.args[0])] for x in seqs]
            elif seqs is not None and isinstance(st, ast.If) and not st.orelse and all(
                    isinstance(b, ast.Expr) and isinstance(b.value, ast.Call) and q.call_name(b.value) == name + ".append" and len(b.value.args) == 1 for b in st.body):
                seqs = seqs + [x + [q.src(b.value.args[0]) for b in st.body] for x in seqs]
            elif seqs is not None and any(isinstance(y, ast.Name) and y.id == name and isinstance(y.ctx, ast.Store) for y in ast.walk(st)):
                return []
        return seqs or []
    arg_lists = []
    for c in ours_calls:
        if len(c.args) == 1 and isinstance(c.args[0], ast.Starred) and isinstance(c.args[0].value, ast.Name) and not c.keywords:
            arg_lists += list_variants(cp.node, c.args[0].value.id)
        else:
            arg_lists.append([q.src(a) for a in c.args])
    R.check(any(al == std_fields for al in arg_lists), "C19.DROP-IN", cp.qualname, R.site(cp),
            "copy() passes the same fields as unittest.mock._patch.copy", "copy() does not pass the fields of the installed _patch.copy (%s)" % std_fields)
    # every copy is a new patcher: the standard library's class decorator and nested activations rely on copy() for independent
    # saved-original slots; a shared patcher has its saved original overwritten by the inner activation and then deleted
    for r_ in [x for x in q.scope_nodes(cp.node) if isinstance(x, ast.Return)]:
        v_ = r_.value
        srcs_ = [v_] if not isinstance(v_, ast.Name) else [vv for kk, vv in common.assigned_values(cp.node, v_.id)]
        fresh = bool(srcs_) and all(isinstance(x, ast.Call) and q.call_name(x) == "_PatchAsync" for x in srcs_)
        R.check(fresh, "C19.DROP-IN", cp.qualname + ":fresh:" + q.stmt_key(r_)[:30], R.site(cp, r_),
                "copy() returns a newly built _PatchAsync", "copy() can return `%s`, not a new patcher: activations that should be independent (a decorated class whose "
                "test methods call each other, nested use of one patch object) share one saved original - the outer __exit__ fails and the target stays replaced"
                % (q.src(v_)[:30] if v_ is not None else None))
    extra = sorted(q.src(n.targets[0]) for n in q.scope_nodes(cp.node) if isinstance(n, ast.Assign) and q.src(n.targets[0]).startswith("patcher."))
    std_extra = sorted(q.src(n.targets[0]) for n in ast.walk(std["_patch.copy"]) if isinstance(n, ast.Assign) and q.src(n.targets[0]).startswith("patcher."))
    R.check(extra == std_extra, "C19.DROP-IN", cp.qualname + ":extra", R.site(cp), "copy() carries over %s like the standard library" % std_extra, "copy() sets %s, the standard library %s" % (extra, std_extra))
    # ---- RESTORE-UNTOUCHED
    for forbidden in ("__exit__", "start", "stop", "__aexit__", "_exit_stack", "stopall"):
        R.check(forbidden not in pa.methods, "C19.RESTORE", "%s.%s" % (pa.qualname, forbidden), R.site(pa.module, pa.node),
                "_PatchAsync does not override %s: restoring the original is the standard library's code" % forbidden,
                "_PatchAsync overrides %s: code that runs before the standard library restores the original can fail (or skip it) and leave the target patched" % forbidden)
    # ... and none of the standard library's own bookkeeping (class attributes of _patch such as the list stopall() walks) is shadowed
    std_names = set()
    for n in tree.body:
        if isinstance(n, ast.ClassDef) and n.name == "_patch":
            for m in n.body:
                if isinstance(m, (ast.FunctionDef, ast.AsyncFunctionDef)):
                    std_names.add(m.name)
                elif isinstance(m, ast.Assign):
                    std_names |= set(t.id for t in m.targets if isinstance(t, ast.Name))
                elif isinstance(m, ast.AnnAssign) and isinstance(m.target, ast.Name):
                    std_names.add(m.target.id)
    ours_names = set(pa.methods) | set(pa.class_assigns)
    shadow = sorted((ours_names & std_names) - set(["__enter__", "copy", "__init__"]))
    R.check(not shadow, "C19.RESTORE", pa.qualname + ":shadow", R.site(pa.module, pa.node),
            "_PatchAsync redefines only __enter__ and copy of unittest.mock._patch",
            "_PatchAsync redefines %s of unittest.mock._patch: the standard machinery that starts, stops and restores patches (stop(), stopall()) no longer works on "
            "the same state" % shadow)
    # decorator use goes through the inherited machinery too
    for forbidden in ("__call__", "decorate_callable", "decorate_class", "decoration_helper"):
        R.check(forbidden not in pa.methods, "C19.RESTORE", "%s.%s" % (pa.qualname, forbidden), R.site(pa.module, pa.node),
                "_PatchAsync does not override %s" % forbidden, "_PatchAsync overrides %s" % forbidden)
    al = dict((q.src(n.targets[0]), q.src(n.value)) for n in mm.tree.body if isinstance(n, ast.Assign))
    for k, v in (("patch.object", "_patch_object"), ("patch.dict", "mock.patch.dict"), ("patch.stopall", "mock.patch.stopall")):
        R.check(al.get(k) == v, "C19.RESTORE", "mock_:" + k, "asynq/mock_.py", "%s is %s" % (k, v), "%s is %s" % (k, al.get(k)))
    R.check(pa.bases and not isinstance(pa.bases[0], tuple) or (pa.bases and pa.bases[0] == ("ext", "unittest.mock._patch")), "C19.RESTORE", pa.qualname + ":base", R.site(pa.module, pa.node),
            "_PatchAsync derives from unittest.mock._patch", "_PatchAsync no longer derives from unittest.mock._patch")
    # a function/method replacement is installed as asynq(sync_fn=new)(new): all calling conventions of the patched method go through
    # the decorator/binder machinery, whose agreement rules are C09's
    from . import c09
    c09.run(R, "C19.CALLCONV")
    R.require_min("C19.ATTACH", 7)
    R.require_min("C19.DROP-IN", 8)
    R.require_min("C19.RESTORE", 8)
