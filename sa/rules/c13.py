"""C13 - async caches behave like their reference cache for every call history."""
import ast

from ..cfg import cfg_of, N, X
from ..errors import AnalysisError
from .. import q, kit
from . import common

EXPLANATION = (
    "Argument-coverage, dominance and flow rules over tools.py: at every get_args_tuple site the "
    "argument names describe exactly the positions the wrapper's *args holds (offset of the names "
    "slice == number of explicit positional parameters peeled off before *args), keyword-only names and "
    "the defaults of the same argspec are included, and the key function returns the normalised tuple on "
    "every path; the cache is consulted before the body and a hit returns without calling it; a store "
    "happens only after the yield that computed the value returned normally (never in a handler/finally "
    "covering it) and stores the yielded value itself, not the task; the per-instance cache is keyed by "
    "the instance with a weakref callback deleting exactly that key; maxsize reaches LRUCache unchanged; "
    "alazy_constant writes its refresh time after the successful yield and dirty() writes the sentinel "
    "the recompute test checks."
)


def closure_assign(fi, name):
    """Value expressions assigned to `name` in fi or an enclosing function."""
    cur = fi
    while cur is not None:
        vals = common.assigned_values(cur.node, name)
        vals = [v for v in vals if v[0] != "param"]
        if vals:
            return cur, vals
        cur = cur.parent
    return None, []


def names_offset(fi, expr, depth=0):
    """(offset k, includes_kwonly, spec name) for an arg-names expression, or None."""
    if depth > 3:
        return None
    if isinstance(expr, ast.Name):
        owner, vals = closure_assign(fi, expr.id)
        if len(vals) == 1 and vals[0][0] == "expr":
            return names_offset(owner, vals[0][1], depth + 1)
        return None
    kwonly = False
    core = expr
    if isinstance(expr, ast.BinOp) and isinstance(expr.op, ast.Add):
        r = expr.right
        if isinstance(r, ast.Attribute) and r.attr == "kwonlyargs":
            kwonly = True
            core = expr.left
        else:
            return None
    if isinstance(core, ast.Attribute) and core.attr == "args" and isinstance(core.value, ast.Name):
        return 0, kwonly, core.value.id
    if isinstance(core, ast.Subscript) and isinstance(core.value, ast.Attribute) and core.value.attr == "args" and isinstance(core.slice, ast.Slice):
        sl = core.slice
        if sl.upper is None and sl.step is None and isinstance(sl.lower, ast.Constant) and isinstance(sl.lower.value, int) and isinstance(core.value.value, ast.Name):
            return sl.lower.value, kwonly, core.value.value.id
    return None


def normaliser_helpers(R):
    """Module-level functions of tools.py that wrap get_args_tuple: name -> FuncInfo."""
    tm = R.repo.modules["tools"]
    out = {}
    for name, f in tm.functions.items():
        if any(isinstance(n, ast.Call) and q.call_name(n) == "get_args_tuple" for n in q.scope_nodes(f.node)) and len(q.param_names(f.node)) >= 5:
            out[name] = f
    return out


def argcover_sites(R):
    """All key-normalisation call sites in tools.py (get_args_tuple, or a helper wrapping it) with
    their enclosing function.  Calls inside the helpers themselves are decided by VARARGS-SAFE."""
    tm = R.repo.modules["tools"]
    helpers = normaliser_helpers(R)
    names = set(["get_args_tuple"]) | set(helpers)
    out = []
    for f in tm.all_functions.values():
        if f.name in helpers and f.parent is None:
            continue
        for n in q.scope_nodes(f.node):
            if isinstance(n, ast.Call) and q.call_name(n) in names:
                out.append((f, n))
            if isinstance(n, ast.Lambda):
                for c in ast.walk(n.body):
                    if isinstance(c, ast.Call) and q.call_name(c) in names:
                        out.append((f, c))
    return out


def varargs_safe_helper(R, prefix):
    """The helper never lets positional overflow (arguments that go to *varargs) be matched against
    keyword-only names."""
    for name, f in normaliser_helpers(R).items():
        ps = q.param_names(f.node)
        a, k, pn, kw, d = ps[:5]
        cfg = cfg_of(f)
        calls = kit.call_sites(f, lambda c: q.call_name(c) == "get_args_tuple")

        def no_overflow(nd):
            if nd.kind != "test":
                return None
            kk, ss, pos = q.atom_test(nd.ast)
            if kk == "lt" and ss == ("len(%s)" % pn, "len(%s)" % a):     # len(names) < len(args): overflow
                return "F" if pos else "T"
            return None
        ok = True
        n_mixed = 0
        for n, c in calls:
            if len(c.args) != 4:
                ok = False
                continue
            names_src = q.src(c.args[2])
            if kw in q.names_loaded(c.args[2]) and pn in q.names_loaded(c.args[2]):
                n_mixed += 1
                # positional + keyword-only names together: only without overflow
                if kit.path_avoiding_guard(cfg, [n], no_overflow, N) is not None:
                    ok = False
                if q.src(c.args[0]) != a or names_src != "%s + %s" % (pn, kw):
                    ok = False
            elif names_src == kw:
                # keyword-only part on its own: no positional arguments may be offered
                if not (isinstance(c.args[0], ast.Tuple) and not c.args[0].elts):
                    ok = False
                st = q.enclosing_stmt(c)
                if not (isinstance(st, (ast.Return, ast.Assign)) and q.src(st.value).startswith("tuple(%s) + " % a)):
                    ok = False
            else:
                ok = False
            if q.src(c.args[1]) != k or q.src(c.args[3]) != d:
                ok = False
        # every result of the helper went through the normaliser with the defaults (no shortcut that skips defaults / keyword matching)
        rets = [nn for nn in q.scope_nodes(f.node) if isinstance(nn, ast.Return)]
        def normalised_expr(e, depth=0):
            if any(isinstance(x, ast.Call) and q.call_name(x) == "get_args_tuple" and len(x.args) == 4 and q.src(x.args[3]) == d for x in ast.walk(e)):
                return True
            if depth < 2:
                # a local that holds the normalised tuple on every path (`key = ...` in both arms, `return key + extra`)
                for nm in [x for x in ast.walk(e) if isinstance(x, ast.Name) and isinstance(x.ctx, ast.Load)]:
                    vals = common.assigned_values(f.node, nm.id)
                    if vals and all(k_ == "expr" and normalised_expr(v_, depth + 1) for k_, v_ in vals):
                        return True
            return False
        raw = [r for r in rets if r.value is None or not normalised_expr(r.value)]
        R.check(rets and not raw, prefix + ".KEY-NORMALISED", f.qualname + ":every-return", R.site(f),
                "%s returns a tuple normalised by get_args_tuple(..., %s) on every path" % (name, d),
                "%s can return a key that did not go through get_args_tuple with the defaults (%s): a call that omits a defaulted argument and a call that spells "
                "it out get different keys" % (name, "; ".join(q.src(r)[:60] for r in raw)))
        kw_apart(R, f, cfg, calls, k, prefix)
        R.check(ok and n_mixed == 1 and len(calls) == 2, prefix + ".VARARGS-SAFE", f.qualname, R.site(f),
                "%s matches positional names only against as many positional arguments as there are names; overflow (*varargs) is keyed as given, "
                "keyword-only arguments are normalised separately" % name,
                "%s can match keyword-only names against positional overflow" % name)


def kw_apart(R, f, cfg, calls, k, prefix):
    """qcore's get_args_tuple appends the keywords it is given that are not parameter names as
    (name, value) pairs right after the positional values; when the function takes *varargs too, a
    positional argument that is such a pair is indistinguishable from the keyword.  So (a) the
    keywords that go to **kwargs must be taken out of the mapping handed to get_args_tuple, and
    (b) they must be appended to the key behind a separator no argument can be equal to."""
    mod = f.module
    sentinels = set()
    for st in mod.tree.body:
        if isinstance(st, ast.Assign) and len(st.targets) == 1 and isinstance(st.targets[0], ast.Name) and isinstance(st.value, ast.Call) \
                and q.call_name(st.value) in ("object", "MarkerObject"):
            sentinels.add(st.targets[0].id)
    # E: locals holding the names of the surplus keywords (computed from the mapping with a `not in` filter)
    extras = set()
    for st in q.scope_nodes(f.node):
        if isinstance(st, ast.Assign) and len(st.targets) == 1 and isinstance(st.targets[0], ast.Name):
            comps = [c for c in ast.walk(st.value) if isinstance(c, (ast.GeneratorExp, ast.ListComp, ast.SetComp))]
            for c in comps:
                if any(q.src(g.iter) in (k, k + ".keys()", "%s.items()" % k) for g in c.generators) and \
                        any(isinstance(o, ast.NotIn) for g in c.generators for i in g.ifs for cmp_ in ast.walk(i) if isinstance(cmp_, ast.Compare) for o in cmp_.ops):
                    extras.add(st.targets[0].id)
    # (... or collected by a loop over the mapping: E = []; for n in k: <filter with in / not in>; E.append(n))
    for lp in [x for x in ast.walk(f.node) if isinstance(x, ast.For) and q.src(x.iter) in (k, k + ".keys()")]:
        tests = [cmp_ for x in ast.walk(lp) if isinstance(x, ast.If) for cmp_ in ast.walk(x.test) if isinstance(cmp_, ast.Compare) and any(isinstance(o, (ast.In, ast.NotIn)) for o in cmp_.ops)]
        for c_ in q.calls(lp):
            recv_, attr_ = q.attr_call(c_)
            if attr_ in ("append", "add") and isinstance(recv_, ast.Name) and tests and c_.args and q.src(c_.args[0]) == q.src(lp.target):
                extras.add(recv_.id)
    # which keywords are surplus is decided against ALL the parameter names (positional and keyword-only, unsliced) and against the
    # positional names already given - a slice of the positional names alone.  (A slice of the combined list by len(args) runs into
    # the keyword-only names when surplus positionals go to *varargs: a spelled-out keyword-only argument is then filed as surplus.)
    ps_ = q.param_names(f.node)
    pn_, kw_ = ps_[2], ps_[3]
    a_ = ps_[0]

    def resolve(e, depth=0):
        if isinstance(e, ast.Name) and depth < 3:
            vals = [v for k_, v in common.assigned_values(f.node, e.id) if k_ == "expr"]
            if len(vals) == 1:
                return resolve(vals[0], depth + 1)
        return e
    for st in q.scope_nodes(f.node):
        if isinstance(st, ast.Assign) and len(st.targets) == 1 and isinstance(st.targets[0], ast.Name) and st.targets[0].id in extras:
            for cmp_ in [x for x in ast.walk(st.value) if isinstance(x, ast.Compare)]:
                for op_, comp_ in zip(cmp_.ops, cmp_.comparators):
                    tgt = q.src(resolve(comp_)).replace(" ", "")
                    if isinstance(op_, ast.NotIn):
                        okn = tgt in ("%s+%s" % (pn_, kw_), "%s+%s" % (kw_, pn_)) or tgt.startswith(("set(%s+%s" % (pn_, kw_), "frozenset(%s+%s" % (pn_, kw_), "tuple(%s+%s" % (pn_, kw_)))
                        R.check(okn, prefix + ".KW-APART", "%s:all-names:%s" % (f.qualname, q.src(comp_)), R.site(f, cmp_),
                                "`not in %s` tests against all parameter names (%s + %s)" % (q.src(comp_), pn_, kw_),
                                "surplus keywords are recognised by `not in %s`, which is `%s`, not all of %s + %s: when positional arguments overflow into *varargs a "
                                "keyword-only argument that is spelled out is filed as a **kwargs extra - f(1, 2) and f(1, 2, flag=<its default>) get different keys"
                                % (q.src(comp_), q.src(resolve(comp_))[:50], pn_, kw_))
                    elif isinstance(op_, ast.In):
                        okg = tgt in ("%s[:len(%s)]" % (pn_, a_),)
                        R.check(okg, prefix + ".KW-APART", "%s:given:%s" % (f.qualname, q.src(comp_)), R.site(f, cmp_),
                                "`in %s` tests against the positional names already given (%s[:len(%s)])" % (q.src(comp_), pn_, a_),
                                "`in %s` is `%s`, not the positional names already given" % (q.src(comp_), q.src(resolve(comp_))[:50]))
    # the surplus keywords enter the key in an order that does not depend on how the caller wrote them: E is sorted
    for e_name in sorted(extras):
        defs = [st for st in q.scope_nodes(f.node) if isinstance(st, ast.Assign) and len(st.targets) == 1 and isinstance(st.targets[0], ast.Name) and st.targets[0].id == e_name]
        is_sorted = any(isinstance(st.value, ast.Call) and q.call_name(st.value) == "sorted" for st in defs) or \
            any(q.attr_call(c_)[1] == "sort" and isinstance(q.attr_call(c_)[0], ast.Name) and q.attr_call(c_)[0].id == e_name for c_ in q.calls(f.node))
        # (or what is built from it is sorted where the pairs are made)
        is_sorted = is_sorted or any(isinstance(c_, ast.Call) and q.call_name(c_) == "sorted" and e_name in q.names_loaded(c_) for c_ in q.calls(f.node))
        R.check(is_sorted, prefix + ".KW-APART", "%s:sorted:%s" % (f.qualname, e_name), R.site(f, defs[0] if defs else None),
                "the surplus keyword names `%s` are sorted before they enter the key" % e_name,
                "the surplus keywords enter the key in the order the caller wrote them (`%s` is not sorted): f(1, a=1, b=2) and f(1, b=2, a=1) get different keys - "
                "the second call misses the cache / is not deduplicated" % e_name)
    # the mapping is narrowed to the parameters: k = {... for ... in k if ... not in E}
    narrow = []
    for n in cfg.nodes:
        st = n.ast if n.kind == "stmt" else None
        if isinstance(st, ast.Assign) and len(st.targets) == 1 and q.src(st.targets[0]) == k and isinstance(st.value, ast.DictComp):
            if any(isinstance(o, ast.NotIn) and q.src(cmp_.comparators[0]) in extras
                   for g in st.value.generators for i in g.ifs for cmp_ in ast.walk(i) if isinstance(cmp_, ast.Compare) for o in cmp_.ops):
                narrow.append(n)

    # (... or through a dict filled by a loop over the mapping under the same filter, then bound to the mapping's name)
    filtered = set()
    for lp in [x for x in ast.walk(f.node) if isinstance(x, ast.For) and q.src(x.iter) in (k, k + ".keys()", k + ".items()")]:
        for iff in [x for x in ast.walk(lp) if isinstance(x, ast.If)]:
            if any(isinstance(o, ast.NotIn) and q.src(cmp_.comparators[0]) in extras for cmp_ in ast.walk(iff.test) if isinstance(cmp_, ast.Compare) for o in cmp_.ops):
                for st in iff.body:
                    if isinstance(st, ast.Assign) and isinstance(st.targets[0], ast.Subscript) and isinstance(st.targets[0].value, ast.Name):
                        filtered.add(st.targets[0].value.id)
    for n in cfg.nodes:
        st = n.ast if n.kind == "stmt" else None
        if isinstance(st, ast.Assign) and len(st.targets) == 1 and q.src(st.targets[0]) == k and isinstance(st.value, ast.Name) and st.value.id in filtered:
            narrow.append(n)

    def safe_edge(e):
        nd = cfg.nodes[e.src]
        if nd.kind == "test" and e.label == "F":
            kk, ss, pos = q.atom_test(nd.ast)
            if kk == "truth" and pos and (ss == k or ss in extras):
                return False            # no keywords at all / no surplus keyword: nothing to keep apart
        if nd.kind == "test" and e.label == "T":
            kk, ss, pos = q.atom_test(nd.ast)
            if kk == "truth" and not pos and (ss == k or ss in extras):
                return False
        return True
    path = cfg.find_path([cfg.entry], [n for n, c in calls], N, cut_nodes=narrow, keep_edge=safe_edge)
    R.check(path is None and bool(calls), prefix + ".KW-APART", f.qualname + ":narrowed", R.site(f),
            "%s hands get_args_tuple only keywords that name parameters (surplus keywords are taken out first)" % f.name,
            "%s can hand get_args_tuple keywords that do not name a parameter: it appends them to the key as (name, value) pairs right after the positional "
            "values, so for a function with *args and **kwargs f(1, ('a', 2)) and f(1, a=2) get the same key and one call receives the other's result" % f.name,
            cfg.fmt_path(path) if path else None)
    # (b) every returned key carries the surplus keywords behind a sentinel
    sent_locals = set()
    for st in q.scope_nodes(f.node):
        if isinstance(st, ast.Assign) and len(st.targets) == 1 and isinstance(st.targets[0], ast.Name):
            v = st.value
            lead = v
            while isinstance(lead, ast.BinOp) and isinstance(lead.op, ast.Add):
                lead = lead.left
            if isinstance(lead, ast.Tuple) and lead.elts and isinstance(lead.elts[0], ast.Name) and lead.elts[0].id in sentinels:
                sent_locals.add(st.targets[0].id)
    # (a local that is only ever given such a local, or the empty tuple, carries the sentinel as well: `extra = extra_pairs`)
    grew = True
    while grew:
        grew = False
        for nm_ in set(st.targets[0].id for st in q.scope_nodes(f.node) if isinstance(st, ast.Assign) and len(st.targets) == 1 and isinstance(st.targets[0], ast.Name)) - sent_locals:
            vals_ = [v_ for k_, v_ in common.assigned_values(f.node, nm_)]
            if vals_ and all((isinstance(v_, ast.Name) and v_.id in sent_locals) or (isinstance(v_, ast.Tuple) and not v_.elts) for v_ in vals_) \
                    and any(isinstance(v_, ast.Name) for v_ in vals_):
                sent_locals.add(nm_)
                grew = True
    rets = [nn for nn in q.scope_nodes(f.node) if isinstance(nn, ast.Return) and nn.value is not None]
    bad = [r for r in rets if not (q.names_loaded(r.value) & (sent_locals | sentinels))]
    # (sentinel-carrying locals may be bound to () on the no-surplus path: that is the point)
    R.check(bool(rets) and not bad and bool(sentinels), prefix + ".KW-APART", f.qualname + ":separator", R.site(f, bad[0] if bad else None),
            "every key %s returns carries the surplus keywords behind a module-level sentinel object" % f.name,
            "%s returns a key (%s) in which the surplus keywords are not set off by a sentinel that no argument can equal: a positional argument that "
            "looks like a (name, value) pair is taken for the keyword" % (f.name, "; ".join(q.src(r)[:50] for r in bad) or "no sentinel defined"))


def peeled_for_keyfn(R, keyfn_owner, keyfn_name, site_fi):
    """Number of explicit positional parameters that precede *args in the function that receives
    the caller's arguments and calls the key function with its own (*args, **kwargs)."""
    # 1. the key function is called directly in a sibling wrapper: keyfn(args, kwargs)
    scope = keyfn_owner
    for f in scope.nested.values():
        for c in q.calls(f.node):
            if q.call_name(c) == keyfn_name and len(c.args) == 2 and isinstance(c.args[0], ast.Name):
                a = f.node.args
                if a.vararg and a.vararg.arg == c.args[0].id:
                    return len(a.posonlyargs) + len(a.args), f
    return None, None


def argcover_rule(R, prefix, only=None):
    sites = argcover_sites(R)
    R.need(len(sites) >= 3, "fewer get_args_tuple sites than confirmed by hand (%d < 3)" % len(sites))
    n = 0
    for f, call in sites:
        top = f
        while top.parent is not None:
            top = top.parent
        if only is not None and top.name not in only:
            continue
        n += 1
        site = R.site(f, call)
        key = "%s:get_args_tuple" % top.qualname
        direct = q.call_name(call) == "get_args_tuple"
        if direct:
            R.need(len(call.args) == 4, "idiom: get_args_tuple not called with 4 positional arguments in %s" % f.qualname)
            A, K, NM, D = call.args
            KW = None
        else:
            R.need(len(call.args) == 5, "idiom: %s not called with 5 positional arguments in %s" % (q.call_name(call), f.qualname))
            A, K, NM, KW, D = call.args
        off = names_offset(f, NM)
        # the positional arguments reach the key builder as the caller gave them (the bound instance or class included: calls through
        # different classes of a hierarchy are different calls)
        if not (isinstance(A, ast.Name) or (isinstance(A, ast.Tuple) and not A.elts)):
            R.violation(prefix + ".ARGCOVER", "%s:%s:args-unchanged" % (f.qualname, q.src(call)[:30]), R.site(f, call),
                        "the key is built from `%s`, not from all the positional arguments of the call: what is cut off (the class a classmethod is bound "
                        "to, the instance) no longer distinguishes calls - two classes of a hierarchy calling with equal arguments share one key" % q.src(A))
        if off is None:
            R.violation(prefix + ".ARGCOVER", "%s:%s:names" % (f.qualname, q.src(NM)), R.site(f, call),
                        "the argument names handed to the key builder (`%s`) are not the argspec's names from a fixed position on: names and positional "
                        "arguments no longer line up for every kind of function (e.g. sliced by a run-time quantity for classmethods)" % q.src(NM))
            continue
        k, kwonly, spec = off
        if not direct:
            kwv = KW
            if isinstance(KW, ast.Name):
                _, vv = closure_assign(f, KW.id)
                kwv = vv[0][1] if len(vv) == 1 and vv[0][0] == "expr" else KW
            kwonly = isinstance(kwv, ast.Attribute) and kwv.attr == "kwonlyargs" and q.src(kwv.value) == spec and not kwonly
        else:
            # positional and keyword-only names handed to get_args_tuple together: positional overflow (arguments that go
            # to *varargs) is then counted against the keyword-only names
            R.check(not kwonly, prefix + ".VARARGS-SAFE", key + ":mixed-names", site,
                    "keyword-only names are not mixed into the positional names of a direct get_args_tuple call",
                    "get_args_tuple receives 'positional names + keyword-only names' with the caller's *args as given: for a wrapped function with *varargs, "
                    "extra positional arguments are counted against the keyword-only names, which then never enter the key "
                    "(f(1, 2, 3, flag=True) and f(1, 2, 3, flag=False) share an entry)")
        # which function receives the caller's arguments?
        peeled = None
        recv = None
        if isinstance(A, ast.Name):
            # f is the key function (def cache_key(args, kwargs) / lambda args, kwargs)
            if f.node.args.vararg and f.node.args.vararg.arg == A.id:
                peeled, recv = len(f.node.args.args), f
            else:
                keyfn_names = [f.name]
                # a lambda assigned to a name
                for nn in q.scope_nodes(f.node):
                    if isinstance(nn, ast.Assign) and isinstance(nn.value, ast.Lambda) and any(call is x for x in ast.walk(nn.value)):
                        keyfn_names = [t.id for t in nn.targets if isinstance(t, ast.Name)]
                        owner = f
                        break
                else:
                    owner = f.parent
                if owner is not None:
                    for nm in keyfn_names:
                        peeled, recv = peeled_for_keyfn(R, owner, nm, f)
                        if peeled is not None:
                            break
                if peeled is None and top.name == "deduplicate":
                    # the key function is handed to DeduplicateDecorator and called as self.keygetter(args, kwargs)
                    dd = R.repo.cls("tools.DeduplicateDecorator")
                    ck = dd.methods.get("cache_key")
                    asy = dd.methods.get("asynq")
                    R.need(ck is not None and asy is not None, "anchor vanished: DeduplicateDecorator.cache_key/asynq")
                    okc = any(q.call_name(c) == "self.keygetter" and [q.src(a) for a in c.args] == q.param_names(ck.node)[1:3] for c in q.calls(ck.node))
                    oka = any(q.call_name(c) == "self.cache_key" and [q.src(a) for a in c.args] == ["args", "kwargs"] for c in q.calls(asy.node))
                    R.need(okc and oka, "idiom: deduplicate's key getter is not called with the caller's (args, kwargs)")
                    peeled, recv = len(asy.node.args.args) - 1, asy
        R.need(peeled is not None, "idiom: cannot find the function whose *args reaches get_args_tuple in %s" % top.qualname)
        R.check(k == peeled, prefix + ".ARGCOVER", key, site,
                "names = %s.args[%d:] describe the positions of the wrapper's *args (%d explicit positional parameter(s) peeled off in %s)" % (spec, k, peeled, recv.name),
                "the argument names start at %s.args[%d] but the wrapper %s hands get_args_tuple its *args after peeling %d positional parameter(s): "
                "names and positions are shifted, so a keyword argument for the last parameter never enters the key and calls that differ only "
                "in it share a cache entry" % (spec, k, recv.name, peeled))
        R.check(kwonly, prefix + ".ARGCOVER", key + ":kwonly", site, "keyword-only parameter names are part of the key names",
                "keyword-only parameters are not part of the key: calls that differ only in a keyword-only argument share an entry")
        # defaults of the same spec
        dv = None
        if isinstance(D, ast.Name):
            _, vals = closure_assign(f, D.id)
            if len(vals) == 1 and vals[0][0] == "expr":
                dv = vals[0][1]
        okd = isinstance(dv, ast.Call) and q.call_name(dv) == "get_kwargs_defaults" and dv.args and q.src(dv.args[0]) == spec
        R.check(okd, prefix + ".ARGCOVER", key + ":defaults", site, "defaults come from get_kwargs_defaults(%s)" % spec,
                "the defaults handed to get_args_tuple are not those of the same argspec")
        # the spec describes the wrapped function
        _, sv = closure_assign(f, spec)
        oks = len(sv) == 1 and sv[0][0] == "expr" and isinstance(sv[0][1], ast.Call) and q.call_name(sv[0][1]) == "inspect.getfullargspec"
        R.check(oks, prefix + ".ARGCOVER", key + ":spec", site, "%s is inspect.getfullargspec of the wrapped function" % spec,
                "%s is not the full argspec of the wrapped function" % spec)
        # ... the innermost one: under stacked decorators the directly wrapped callable is a generic wrapper(*args, **kwargs), whose
        # signature normalises nothing
        if oks:
            sarg = sv[0][1].args[0] if sv[0][1].args else None
            owner_ = closure_assign(f, spec)[0]
            if isinstance(sarg, ast.Name) and owner_ is not None:
                av = [v for k_, v in common.assigned_values(owner_.node, sarg.id) if k_ == "expr"]
                sarg = av[0] if len(av) == 1 else sarg
            oko = isinstance(sarg, ast.Call) and (q.call_name(sarg) or "").split(".")[-1] == "get_original_fn"
            R.check(oko, prefix + ".ARGCOVER", key + ":spec-innermost", site, "the argspec is taken from get_original_fn(<decorated function>)",
                    "the argspec is taken from `%s`, not from get_original_fn(...): stacked on another wrapping decorator (alru_cache, acached_per_instance, "
                    "functools.wraps) the key is built from the wrapper's (*args, **kwargs) signature - positional / keyword / default spellings of one call "
                    "get different keys" % (q.src(sarg) if sarg is not None else "?"))
        # K is the kwargs of the same call
        R.check(isinstance(K, ast.Name), prefix + ".ARGCOVER", key + ":kwargs", site, "keyword arguments are passed to get_args_tuple", "keyword arguments are not passed to get_args_tuple")
        # ... and positional / keyword arguments are not exchanged on the way
        lam = [x for x in ast.walk(f.node) if isinstance(x, ast.Lambda) and any(call is y for y in ast.walk(x.body))]
        if lam:
            pp = [a.arg for a in lam[-1].args.args][:2]
        elif f.node.args.vararg and f.node.args.kwarg:
            pp = [f.node.args.vararg.arg, f.node.args.kwarg.arg]
        else:
            pp = q.param_names(f.node)[:2]
        R.check([q.src(A), q.src(K)] == pp, prefix + ".ARGCOVER", key + ":order", site, "the key is built from (positional, keyword) arguments in this order",
                "the key function's parameters %s reach the key builder as (%s, %s): positional and keyword arguments are exchanged" % (pp, q.src(A), q.src(K)))
        # KEY-NORMALISED: the key function returns the normalised tuple on every path
        dedicated = isinstance(f.node, ast.FunctionDef) and len(q.param_names(f.node)) == 2 and not f.node.args.vararg and not q.has_yield(f.node)
        if dedicated and f.name not in ("decorator", "cache_fun") and any(call is x for x in ast.walk(f.node)):
            lam = [nn for nn in q.scope_nodes(f.node) if isinstance(nn, ast.Lambda) and any(call is x for x in ast.walk(nn))]
            if not lam:
                rets = [nn for nn in q.scope_nodes(f.node) if isinstance(nn, ast.Return)]
                okr = rets and all(r.value is call for r in rets)
                R.check(okr, prefix + ".KEY-NORMALISED", "%s:%s" % (top.qualname, f.name), R.site(f),
                        "the key function returns get_args_tuple(...) on every path",
                        "the key function can return something other than the normalised tuple (%s): different spellings of the same arguments get different keys"
                        % "; ".join(q.src(r)[:50] for r in rets if r.value is not call))
    R.need(n >= 1, "no get_args_tuple site for %s" % (only,))
    varargs_safe_helper(R, prefix)
    # KEY-PURE: building a key must not change state shared between calls (the defaults dict, the names list)
    MUT = ("update", "setdefault", "pop", "popitem", "clear", "append", "extend", "insert", "remove", "sort", "reverse", "__setitem__")
    checked = set()
    for f, call in sites:
        top = f
        while top.parent is not None:
            top = top.parent
        if only is not None and top.name not in only:
            continue
        for g in [f] + list(normaliser_helpers(R).values()):
            if g.qualname in checked:
                continue
            checked.add(g.qualname)
            if g.name in ("decorator", "cache_fun") or q.has_yield(g.node) or g.node.args.vararg:
                continue     # the wrapper itself (it legitimately writes the cache); only dedicated key builders are constrained
            local = set(q.param_names(g.node)) | set(n.id for n in q.scope_nodes(g.node) if isinstance(n, ast.Name) and isinstance(n.ctx, ast.Store))
            bad = []
            for n in q.scope_nodes(g.node):
                if isinstance(n, ast.Call) and q.attr_call(n)[1] in MUT:
                    base = q.dotted(q.attr_call(n)[0])
                    if base and base.split(".")[0] not in local:
                        bad.append(q.src(n)[:50])
                if isinstance(n, ast.Subscript) and isinstance(n.ctx, (ast.Store, ast.Del)):
                    base = q.dotted(n.value)
                    if base and base.split(".")[0] not in local:
                        bad.append(q.src(n)[:50])
            # mutating a parameter that aliases shared state (kwargs_defaults passed in) counts as well
            for n in q.scope_nodes(g.node):
                if isinstance(n, ast.Call) and q.attr_call(n)[1] in MUT:
                    base = q.dotted(q.attr_call(n)[0])
                    if base in q.param_names(g.node) and g.parent is None:
                        bad.append(q.src(n)[:50])
            R.check(not bad, prefix + ".KEY-PURE", g.qualname, R.site(g),
                    "%s builds the key without mutating state shared between calls" % g.name,
                    "%s mutates state shared between calls (%s): one call's arguments leak into the keys of later calls" % (g.name, "; ".join(bad)))


def cache_body_rules(R, prefix, wrapper_fi, cache_expr_pred, what):
    """try: return cache[k] except KeyError: value = yield ...; cache[k] = value; return value"""
    cfg = cfg_of(wrapper_fi)
    site = R.site(wrapper_fi)
    yields = [n for n in cfg.nodes if n.kind == "stmt" and any(isinstance(x, ast.Yield) for x in ast.walk(n.ast))]
    R.need(len(yields) == 1, "idiom: %s does not have exactly one yield" % wrapper_fi.qualname)
    y = yields[0]
    def cache_target(a):
        for t in a.targets:
            if isinstance(t, ast.Subscript) and cache_expr_pred(q.src(t.value)):
                return t
        return None
    stores = [n for n in cfg.nodes if n.kind == "stmt" and isinstance(n.ast, ast.Assign) and cache_target(n.ast) is not None]
    soft = [n for n, c in kit.call_sites(wrapper_fi, lambda c: q.attr_call(c)[1] in ("setdefault",) and cache_expr_pred(q.src(q.attr_call(c)[0])))]
    R.need(stores or soft, "idiom: %s never stores into its cache" % wrapper_fi.qualname)
    # a miss hands back what the body just produced (not whatever the cache holds by then: a concurrent miss may have filled it)
    yv_ = y.ast.targets[0].id if isinstance(y.ast, ast.Assign) and isinstance(y.ast.targets[0], ast.Name) and isinstance(y.ast.value, ast.Yield) else None
    after_y = [e.dst for e in cfg.out_edges(y.id, N)]
    miss_rets = [n for n in cfg.nodes if n.kind == "stmt" and isinstance(n.ast, ast.Return) and n.ast.value is not None and cfg.find_path(after_y, [n], N, cut_nodes=[y]) is not None]
    badr = [n for n in miss_rets if not ((isinstance(n.ast.value, ast.Name) and n.ast.value.id == yv_) or (yv_ is None and isinstance(n.ast.value, ast.Yield)))]
    R.check(not badr and not soft, prefix + ".STORE-AFTER-SUCCESS", wrapper_fi.qualname + ":returns-fresh", site,
            "after a miss the caller gets the value its own run of the body produced, and that value is stored",
            "after a miss %s returns `%s` instead of the value the body just produced / stores with setdefault: of two concurrent misses for one key the "
            "second gets (and keeps) the first one's value" % (what, q.src((badr or soft)[0].ast)[:60] if (badr or soft) else ""))
    lookups = [n for n in cfg.nodes if n.kind == "stmt" and isinstance(n.ast, ast.Return) and isinstance(n.ast.value, ast.Subscript)
               and cache_expr_pred(q.src(n.ast.value.value))]
    # single-exit form: `v = cache[k]` whose value reaches `return v` unchanged on every path
    for n in cfg.nodes:
        if n.kind == "stmt" and isinstance(n.ast, ast.Assign) and len(n.ast.targets) == 1 and isinstance(n.ast.targets[0], ast.Name) \
                and isinstance(n.ast.value, ast.Subscript) and cache_expr_pred(q.src(n.ast.value.value)):
            v_ = n.ast.targets[0].id
            rets_v = [x for x in cfg.nodes if x.kind == "stmt" and isinstance(x.ast, ast.Return) and isinstance(x.ast.value, ast.Name) and x.ast.value.id == v_]
            restores = [x for x in cfg.nodes if x is not n and x.kind == "stmt" and isinstance(x.ast, (ast.Assign, ast.AugAssign)) and v_ in q.names_stored(x.ast)]
            succ_ = [e.dst for e in cfg.out_edges(n.id, N) if e.label != "exc"]
            if rets_v and cfg.find_path(succ_, [cfg.exit], N, cut_nodes=rets_v) is None and (not restores or cfg.find_path(succ_, restores, N, cut_nodes=rets_v) is None):
                lookups.append(n)
    R.check(bool(lookups), prefix + ".LOOKUP-FIRST", wrapper_fi.qualname + ":lookup", site,
            "a hit returns the stored entry directly", "%s no longer returns the stored entry on a hit" % what)
    p = cfg.find_path([cfg.entry], [y], N, cut_nodes=lookups)
    R.check(p is None, prefix + ".LOOKUP-FIRST", wrapper_fi.qualname + ":before-body", site,
            "the cache is consulted before the body is started", "the body can be started without consulting the cache", cfg.fmt_path(p) if p else None)
    # the yield is reached only through the KeyError handler (miss)
    p = cfg.find_path([cfg.entry], [y], N, keep_edge=lambda e: not (cfg.nodes[e.dst].kind == "except"))
    R.check(p is None, prefix + ".LOOKUP-FIRST", wrapper_fi.qualname + ":miss-only", site,
            "the body runs only on a miss (KeyError path)", "the body can run although the key is cached", cfg.fmt_path(p) if p else None)
    # key used for lookup == key used for store
    lk = set(q.src(n.ast.value.slice) for n in lookups)
    sk = set(q.src(cache_target(n.ast).slice) for n in stores)
    R.check(lk == sk and len(lk) == 1, prefix + ".LOOKUP-FIRST", wrapper_fi.qualname + ":same-key", site,
            "lookup and store use the same key expression", "lookup uses %s but store uses %s" % (sorted(lk), sorted(sk)))
    # the key is the normalised argument tuple itself, not a lossy digest of it (hash/id/str/len... collapse distinct
    # argument tuples into one slot: hash(-1) == hash(-2), str(1) == str('1') after formatting, ...)
    LOSSY = ("hash", "id", "str", "repr", "len", "type", "bool", "frozenset", "set", "sorted", "sum", "min", "max", "abs", "int", "float", "any", "all")
    for kname in sorted(lk & sk):
        if not kname.isidentifier():
            continue
        defs = [n for n in cfg.nodes if n.kind == "stmt" and isinstance(n.ast, ast.Assign) and any(isinstance(t, ast.Name) and t.id == kname for t in n.ast.targets)]
        bad = None

        def lossy(x):
            return isinstance(x, ast.Call) and ((isinstance(x.func, ast.Name) and x.func.id in LOSSY and x.args) or
                                                (isinstance(x.func, ast.Attribute) and x.func.attr in ("__hash__", "__str__", "__repr__", "__len__")))

        def carries_full(e):
            # does the whole normalised tuple still reach the table through e?  (a digest kept *next to* the full key is harmless)
            if lossy(e):
                return False
            if isinstance(e, (ast.Tuple, ast.List)):
                return any(carries_full(x) for x in e.elts)
            if isinstance(e, ast.BinOp) and isinstance(e.op, ast.Add):
                return carries_full(e.left) or carries_full(e.right)
            if isinstance(e, ast.Starred):
                return carries_full(e.value)
            if isinstance(e, ast.Call):
                return True if not any(lossy(x) for a in e.args for x in ast.walk(a)) else any(carries_full(a) for a in e.args)
            return isinstance(e, (ast.Name, ast.Attribute, ast.Subscript))
        for d in defs:
            hits = [x for x in ast.walk(d.ast.value) if lossy(x)]
            if hits and not carries_full(d.ast.value):
                bad = (d, hits[0])
        R.check(bad is None, prefix + ".KEY-INJECTIVE", wrapper_fi.qualname + ":" + kname, R.site(wrapper_fi, bad[0].ast if bad else None) if bad else site,
                "the cache key is the normalised argument tuple itself (no lossy digest between the key function and the table)",
                "%s keys its table on `%s`: distinct argument tuples that collide under %s share one slot, so a call returns the value cached for "
                "different arguments" % (what, q.src(bad[0].ast.value)[:60] if bad else "", q.src(bad[1].func) if bad else ""))
    for st in stores:
        # STORE-AFTER-SUCCESS: every path to the store passes the yield's normal successor; the store is not
        # reachable from the yield's exceptional successors without passing the yield again
        p = cfg.find_path([cfg.entry], [st], N, cut_nodes=[y])
        exc_starts = [e.dst for e in cfg.succ[y.id] if e.label == "exc"]
        p2 = cfg.find_path(exc_starts, [st], X, cut_nodes=[y]) if exc_starts else None
        R.check(p is None and p2 is None, prefix + ".STORE-AFTER-SUCCESS", wrapper_fi.qualname + ":" + q.stmt_key(st.ast), R.site(wrapper_fi, st.ast),
                "the store is reached only after the yield that computed the value returned normally",
                "%s can store an entry although the body did not complete normally (store before the yield, or in a handler/finally covering it): "
                "a failing or still-running body leaves a cached entry" % what, cfg.fmt_path(p or p2) if (p or p2) else None)
        # the stored value is the yield's result
        val = st.ast.value
        yv = y.ast.targets[0].id if isinstance(y.ast, ast.Assign) and isinstance(y.ast.targets[0], ast.Name) and isinstance(y.ast.value, ast.Yield) else None
        R.check(isinstance(val, ast.Name) and val.id == yv, prefix + ".STORE-AFTER-SUCCESS", wrapper_fi.qualname + ":value", R.site(wrapper_fi, st.ast),
                "the stored value is the result of the yield", "what is stored (%s) is not the value the yield returned (the task/future itself would replay a failure forever)" % q.src(val))
    return y


def run(R):
    R.extra["explanation"] = EXPLANATION
    repo = R.repo
    argcover_rule(R, "C13", only=("acached_per_instance", "alru_cache"))
    # ---- alru_cache
    w = repo.fn("tools.alru_cache.decorator.wrapper")
    y = cache_body_rules(R, "C13", w, lambda s: s == "cache", "alru_cache")
    dec = repo.fn("tools.alru_cache.decorator")
    top = repo.fn("tools.alru_cache")
    cscope, cv = closure_assign(w, "cache")
    R.check(cscope is dec, "C13.MAXSIZE", dec.qualname + ":per-function", R.site(dec),
            "the LRU cache is created once per decorated function (in the function that receives fn)",
            "the LRU cache is created in %s, not per decorated function: every function decorated with the same alru_cache(...) object shares one cache "
            "(and one maxsize budget), so f(1) can be answered with g(1)'s entry" % (cscope.qualname if cscope is not None else "no enclosing scope"))
    okm = len(cv) == 1 and isinstance(cv[0][1], ast.Call) and q.call_name(cv[0][1]) == "LRUCache" and [q.src(a) for a in cv[0][1].args] == ["maxsize"] \
        and not [v for v in common.assigned_values(top.node, "maxsize") if v[0] != "param"] and not [v for v in common.assigned_values(dec.node, "maxsize")]
    R.check(okm, "C13.MAXSIZE", dec.qualname, R.site(dec), "maxsize reaches LRUCache(maxsize) unchanged, one cache per decorated function",
            "the LRU cache is not created as LRUCache(maxsize) with the decorator's maxsize")
    # key: key_fn when given, else the default
    _, kv = closure_assign(w, "cache_key")
    srcs = sorted(q.src(v) if k == "expr" else k for k, v in kv)
    R.check("key_fn" in srcs, "C13.KEYFN", dec.qualname, R.site(dec), "a custom key_fn is used when given", "a custom key_fn is ignored")
    # ... and a usable key function exists on every path to the wrapper (key_fn defaults to None)
    dcfg_ = cfg_of(dec)
    defs = [n for n in dcfg_.nodes if n.kind == "stmt" and (
        (isinstance(n.ast, ast.FunctionDef) and n.ast.name == "cache_key")
        or (isinstance(n.ast, ast.Assign) and any(q.src(t) == "cache_key" for t in n.ast.targets) and q.src(n.ast.value) != "key_fn" and not q.is_none(n.ast.value)))]
    wnodes = [n for n in dcfg_.nodes if n.kind == "stmt" and n.ast is w.node]
    R.need(wnodes, "idiom: the wrapper of alru_cache is not defined directly in its decorator")

    def given(nd):
        if nd.kind != "test":
            return None
        k_, s_, pos_ = q.atom_test(nd.ast)
        if k_ == "isnone" and s_ in ("cache_key", "key_fn"):
            return "F" if pos_ else "T"
        return None
    p = dcfg_.find_path([dcfg_.entry], wnodes, N, cut_nodes=defs,
                        keep_edge=lambda e: not (given(dcfg_.nodes[e.src]) is not None and e.label == given(dcfg_.nodes[e.src])))
    R.check(p is None, "C13.KEYFN", dec.qualname + ":default", R.site(dec), "without key_fn the default key function is defined before the wrapper is built",
            "alru_cache() without key_fn can reach its wrapper with no key function (None is then called for every lookup)", dcfg_.fmt_path(p) if p else None)
    kc = [c for c in q.calls(w.node) if q.call_name(c) == "cache_key"]
    R.check(len(kc) == 1 and [q.src(a) for a in kc[0].args] == ["args", "kwargs"], "C13.KEYFN", w.qualname, R.site(w),
            "the key is computed from the call's (args, kwargs)", "the key is not computed from the call's (args, kwargs)")
    # the body is called with the caller's arguments
    _body_call(R, w, y, "async_fun", ["*args", "**kwargs"])
    # ---- acached_per_instance
    nf = repo.fn("tools.acached_per_instance.cache_fun.new_fun")
    y2 = cache_body_rules(R, "C13", nf, lambda s: s == "instance_cache", "acached_per_instance")
    _body_call(R, nf, y2, "async_fun", ["self", "*args", "**kwargs"])
    cf = repo.fn("tools.acached_per_instance.cache_fun")
    # instance key + weakref cleanup
    ik = common.assigned_values(nf.node, "instance_key")
    R.check(len(ik) == 1 and q.src(ik[0][1]) == "id(self)", "C13.INSTANCE", nf.qualname + ":key", R.site(nf),
            "the per-instance cache is keyed by id(self)", "the per-instance cache is not keyed by the instance")
    ic = common.assigned_values(nf.node, "instance_cache")
    entry_vals = [n_.value for n_ in q.scope_nodes(nf.node) if isinstance(n_, ast.Assign) and q.src(n_.targets[0]) == "cache[instance_key]"]
    fresh_shared = all(isinstance(v_, ast.Tuple) and len(v_.elts) == 2 and q.src(v_.elts[1]) in ("instance_cache", "{}") for v_ in entry_vals)

    def sub_ok(v_):
        if q.src(v_) == "cache[instance_key][1]":
            return True
        # the dict created for a new instance, provided that very dict is what the new entry holds
        return isinstance(v_, ast.Dict) and not v_.keys and fresh_shared and any(q.src(e.elts[1]) == "instance_cache" for e in entry_vals if isinstance(e, ast.Tuple))
    R.check(bool(ic) and all(k_ == "expr" and sub_ok(v_) for k_, v_ in ic) and any(q.src(v_) == "cache[instance_key][1]" for k_, v_ in ic), "C13.INSTANCE", nf.qualname + ":sub", R.site(nf),
            "each instance has its own dict", "instances do not get their own dict")
    refs = [c for c in q.calls(nf.node) if q.call_name(c) == "weakref.ref"]
    # the callback: a callable bound to the instance's key - functools.partial(F, instance_key), or the closure a nested factory
    # G(instance_key) returns (`def G(k): def inner(ref): ...; return inner`)
    cb_fn, cb_key = None, None           # (function that runs when the instance dies, the name its body knows the key by)
    if len(refs) == 1 and len(refs[0].args) == 2 and isinstance(refs[0].args[1], ast.Call):
        cbx = refs[0].args[1]
        nested_ = dict(cf.nested)
        nested_.update(nf.nested)
        if q.call_name(cbx) in ("functools.partial", "partial") and len(cbx.args) == 2 and isinstance(cbx.args[0], ast.Name) and q.src(cbx.args[1]) == "instance_key" \
                and cbx.args[0].id in nested_ and not cbx.keywords:
            cb_fn = nested_[cbx.args[0].id]
            cb_key = (q.param_names(cb_fn.node) or [None])[0]
        elif isinstance(cbx.func, ast.Name) and cbx.func.id in nested_ and [q.src(a) for a in cbx.args] == ["instance_key"] and not cbx.keywords:
            fac = nested_[cbx.func.id]
            body_ = [b for b in fac.node.body if not (isinstance(b, ast.Expr) and isinstance(b.value, ast.Constant))]
            if len(body_) == 2 and isinstance(body_[0], ast.FunctionDef) and isinstance(body_[1], ast.Return) and q.src(body_[1].value) == body_[0].name \
                    and len(q.param_names(fac.node)) == 1 and body_[0].name in fac.nested:
                cb_fn = fac.nested[body_[0].name]
                cb_key = q.param_names(fac.node)[0]
                if cb_key in q.param_names(cb_fn.node) or any(isinstance(y, ast.Name) and y.id == cb_key and isinstance(y.ctx, ast.Store) for y in ast.walk(cb_fn.node)):
                    cb_fn = None
    okw = len(refs) == 1 and q.src(refs[0].args[0]) == "self" and cb_fn is not None
    R.check(okw, "C13.INSTANCE", nf.qualname + ":weakref", R.site(nf),
            "a weak reference to the instance is registered with a callback bound to its key", "no weakref callback bound to the instance's key is registered")
    # ... and every entry that is created holds that weak reference: an entry made without one (instances that cannot be weakly
    # referenced: __slots__, slotted dataclasses, named tuples) is never removed, and the next object allocated at the dead
    # instance's address is served the dead instance's values
    for v_ in entry_vals:
        e0 = v_.elts[0] if isinstance(v_, ast.Tuple) and v_.elts else None
        srcs = [e0] if not isinstance(e0, ast.Name) else [vv for kk, vv in common.assigned_values(nf.node, e0.id)]
        okr = bool(srcs) and all(isinstance(x, ast.Call) and q.call_name(x) == "weakref.ref" and x.args and q.src(x.args[0]) == "self" and len(x.args) == 2 for x in srcs)
        R.check(okr, "C13.INSTANCE", nf.qualname + ":entry-ref", R.site(nf, v_),
                "every per-instance entry is created together with the weak reference whose callback removes it",
                "an entry can be created without a weak reference to its instance (%s): it outlives the instance, and since the key is id(self), a new "
                "instance allocated at the same address is answered from the dead instance's cache"
                % ", ".join(sorted(set(q.src(x)[:30] if x is not None else "?" for x in srcs if not (isinstance(x, ast.Call) and q.call_name(x) == "weakref.ref")))))
    cc = cb_fn
    R.need(cc is not None, "anchor vanished: the weakref callback of acached_per_instance")
    dels = [n for n in ast.walk(cc.node) if isinstance(n, ast.Delete)]
    okd = len(dels) == 1 and q.src(dels[0].targets[0]) == "cache[%s]" % cb_key
    R.check(okd, "C13.INSTANCE", cc.qualname, R.site(cc), "the callback deletes exactly the dead instance's entry", "the weakref callback does not delete exactly the dead instance's entry")
    # the (ref, {}) entry is created only when missing
    cfg = cfg_of(nf)
    creates = [n for n in cfg.nodes if n.kind == "stmt" and isinstance(n.ast, ast.Assign) and q.src(n.ast.targets[0]) == "cache[instance_key]"]

    def missing(nd):
        if nd.kind != "test":
            return None
        k, s, pos = q.atom_test(nd.ast)
        if k == "in" and s == ("instance_key", "cache"):
            return "F" if pos else "T"
        return None
    p = kit.path_avoiding_guard(cfg, creates, missing, N)
    R.check(p is None and creates, "C13.INSTANCE", nf.qualname + ":create-once", R.site(nf),
            "an instance's dict is created only when it has none yet", "an instance's dict can be replaced while it holds entries", cfg.fmt_path(p) if p else None)
    # ---- alazy_constant
    lw = repo.fn("tools.alazy_constant.decorator.wrapper")
    lcfg = cfg_of(lw)
    ys = [n for n in lcfg.nodes if n.kind == "stmt" and any(isinstance(x, ast.Yield) for x in ast.walk(n.ast))]
    R.need(len(ys) == 1, "idiom: alazy_constant wrapper has not exactly one yield")
    yn = ys[0]
    okv = isinstance(yn.ast, ast.Assign) and q.src(yn.ast.targets[0]) == "wrapper.alazy_constant_cached_value" and q.src(yn.ast.value) == "(yield fn.asynq())"
    R.check(okv, "C13.LAZY", lw.qualname + ":value", R.site(lw, yn.ast), "the cached value is the result of the yield",
            "the cached value is not assigned from the yield's result")
    rt = [n for n in lcfg.nodes if n.kind == "stmt" and isinstance(n.ast, ast.Assign) and q.src(n.ast.targets[0]) == "wrapper.alazy_constant_refresh_time"]
    R.need(rt, "idiom: alazy_constant wrapper never writes the refresh time")
    for n in rt:
        p = lcfg.find_path([lcfg.entry], [n], N, cut_nodes=[yn])
        R.check(p is None, "C13.LAZY", lw.qualname + ":refresh-after", R.site(lw, n.ast),
                "the refresh time is written only after the yield returned normally",
                "the refresh time can be written before the body completed: a body that raises (or a second caller arriving while the first is blocked) "
                "leaves the constant marked fresh with no value", lcfg.fmt_path(p) if p else None)
        R.check(q.src(n.ast.value) == "utime()", "C13.LAZY", lw.qualname + ":refresh-now", R.site(lw, n.ast),
                "the refresh time is the clock read after the body completed", "the refresh time is not a fresh utime() reading")
    # after the yield both writes happen before returning
    starts = [e.dst for e in lcfg.out_edges(yn.id, N)]
    p = lcfg.find_path(starts, [lcfg.exit], N, cut_nodes=rt)
    R.check(p is None, "C13.LAZY", lw.qualname + ":refresh-always", R.site(lw),
            "after a successful recomputation the refresh time is always written", "a recomputation can finish without writing the refresh time (the body runs on every call)")
    # recompute test, decided on paths: the cached value may be returned without recomputing only if
    #   (a) the refresh time is not the never-computed/dirty sentinel 0, and
    #   (b) ttl is 0 or the refresh time is not older than utime() - ttl
    ret_nodes = [n for n in lcfg.nodes if n.kind == "stmt" and isinstance(n.ast, ast.Return)]
    RT = "wrapper.alazy_constant_refresh_time"

    def not_sentinel(nd):
        if nd.kind != "test":
            return None
        k, s_, pos = q.atom_test(nd.ast)
        if k == "eq" and set(s_) == set(["0", RT]):
            return "F" if pos else "T"
        if k == "truth" and s_ == RT:
            return "T" if pos else "F"
        return None
    p = lcfg.find_path([lcfg.entry], ret_nodes, N, cut_nodes=[yn],
                       keep_edge=lambda e: not (not_sentinel(lcfg.nodes[e.src]) is not None and e.label == not_sentinel(lcfg.nodes[e.src])))
    R.check(p is None, "C13.LAZY", lw.qualname + ":sentinel", R.site(lw),
            "the cached value is returned without recomputation only when the refresh time is not the never-computed/dirty sentinel (0), whatever ttl is",
            "the cached value can be returned although the refresh time is still the sentinel 0 (never computed, or dirty() was called): for a ttl for which "
            "'utime() - ttl' is not positive the body never runs - the first call returns None and dirty() has no effect", lcfg.fmt_path(p) if p else None)

    def fresh(nd):
        """edge meaning: ttl is zero, or the value is not expired"""
        if nd.kind != "test":
            return None
        k, s_, pos = q.atom_test(nd.ast)
        if k == "eq" and set(s_) == set(["0", "ttl"]):
            return "T" if pos else "F"
        if k == "truth" and s_ == "ttl":
            return "F" if pos else "T"
        if k == "lt" and s_ == (RT, "utime() - ttl"):        # expired
            return "F" if pos else "T"
        if k == "lt" and s_ == ("utime() - ttl", RT):
            return "T" if pos else "F"
        return None
    p = lcfg.find_path([lcfg.entry], ret_nodes, N, cut_nodes=[yn],
                       keep_edge=lambda e: not (fresh(lcfg.nodes[e.src]) is not None and e.label == fresh(lcfg.nodes[e.src])))
    R.check(p is None, "C13.LAZY", lw.qualname + ":ttl", R.site(lw),
            "without recomputation the cached value is returned only if ttl is 0 or the value has not expired",
            "an expired value can be returned without recomputation", lcfg.fmt_path(p) if p else None)
    # and a value that is neither dirty nor expired is not recomputed (exactly one recomputation)
    def stale(nd):
        a, b = not_sentinel(nd), fresh(nd)
        if a is not None:
            return "F" if a == "T" else "T"
        if b is not None:
            return "F" if b == "T" else "T"
        return None
    p = kit.path_avoiding_guard(lcfg, [yn], stale, N)
    R.check(p is None, "C13.LAZY", lw.qualname + ":no-spurious", R.site(lw),
            "the body runs only when the value is dirty/never computed or expired", "the body can run although the cached value is fresh", lcfg.fmt_path(p) if p else None)
    rets = [q.src(n.value) for n in q.scope_nodes(lw.node) if isinstance(n, ast.Return)]
    R.check(rets == ["wrapper.alazy_constant_cached_value"], "C13.LAZY", lw.qualname + ":returns", R.site(lw), "the cached value is returned", "returns %s" % rets)
    d = repo.fn("tools.alazy_constant.decorator.dirty")
    ds = [n for n in ast.walk(d.node) if isinstance(n, ast.Assign)]
    R.check(len(ds) == 1 and q.src(ds[0].targets[0]) == "wrapper.alazy_constant_refresh_time" and q.src(ds[0].value) == "0", "C13.LAZY", d.qualname, R.site(d),
            "dirty() writes the sentinel (0) the recompute test checks", "dirty() does not reset the refresh time to the sentinel the recompute test checks")
    dec2 = repo.fn("tools.alazy_constant.decorator")
    inits = dict((q.src(n.targets[0]), q.src(n.value)) for n in q.scope_nodes(dec2.node) if isinstance(n, ast.Assign))
    # (starting dirty may be written as a call of dirty() itself, whose body was just checked)
    calls_dirty = any(isinstance(n, ast.Expr) and isinstance(n.value, ast.Call) and q.call_name(n.value) == "dirty" and not n.value.args for n in q.scope_nodes(dec2.node))
    starts_dirty = inits.get("wrapper.alazy_constant_refresh_time") == "0" or \
        (calls_dirty and len(ds) == 1 and q.src(ds[0].targets[0]) == "wrapper.alazy_constant_refresh_time" and q.src(ds[0].value) == "0")
    R.check(starts_dirty and inits.get("wrapper.dirty") == "dirty", "C13.LAZY", dec2.qualname, R.site(dec2),
            "the constant starts dirty and exposes dirty()", "the constant does not start dirty or does not expose dirty()")
    R.require_min("C13.ARGCOVER", 8)
    R.require_min("C13.STORE-AFTER-SUCCESS", 4)


def _body_call(R, w, ynode, callee, want_args):
    yv = [x for x in ast.walk(ynode.ast) if isinstance(x, ast.Yield)][0].value
    ok = isinstance(yv, ast.Call) and [q.src(a) for a in yv.args] + ["**" + q.src(k.value) for k in yv.keywords if k.arg is None] == want_args
    nm = q.call_name(yv) if isinstance(yv, ast.Call) else None
    if nm == callee:
        _, av = closure_assign(w, callee)
        oka = len(av) == 1 and av[0][0] == "expr" and isinstance(av[0][1], ast.Attribute) and av[0][1].attr == "asynq"
    else:
        # the alias was written out: <wrapped>.asynq(...)
        oka = bool(nm) and nm.endswith(".asynq") and nm.split(".")[0] in ("fn", "fun")
    R.check(ok and oka, "C13.BODY", w.qualname, R.site(w, ynode.ast),
            "on a miss the wrapped function's .asynq is yielded with the caller's arguments (%s)" % ", ".join(want_args),
            "on a miss the wrapper does not yield <wrapped>.asynq(%s)" % ", ".join(want_args))
