"""Rules about the two structural recursions over yielded values: async_task.unwrap and
async_task.extract_futures (C01.AGREE-STRUCT / C01.SHAPE / C02.TYPEERROR / C02.ORDER /
C03.ORDER-PARITY)."""
import ast

from ..cfg import cfg_of, N
from ..errors import AnalysisError
from .. import q, kit
from .common import assigned_values

KINDS = ("none", "future", "tuple", "list", "dict")


def _alias_of_param(fn_node, name, param):
    if name == param:
        return True
    vals = assigned_values(fn_node, name)
    return bool(vals) and all(k == "expr" and isinstance(v, ast.Name) and v.id == param for k, v in vals)


def _test_kinds(fn_node, test, param):
    """Kinds selected by an if-test on the first parameter, or None if not a kind test."""
    if isinstance(test, ast.BoolOp) and isinstance(test.op, ast.Or):
        acc = set()
        for v in test.values:
            k = _test_kinds(fn_node, v, param)
            if k is None:
                return None
            acc |= k
        return acc
    if isinstance(test, ast.Compare) and len(test.ops) == 1:
        l, op, r = test.left, test.ops[0], test.comparators[0]
        if isinstance(op, ast.Is) and q.is_none(r) and isinstance(l, ast.Name) and _alias_of_param(fn_node, l.id, param):
            return {"none"}
        if isinstance(l, ast.Call) and q.call_name(l) == "type" and len(l.args) == 1 and isinstance(l.args[0], ast.Name) \
                and _alias_of_param(fn_node, l.args[0].id, param):
            if isinstance(op, (ast.Is, ast.Eq)) and isinstance(r, ast.Name) and r.id in ("tuple", "list", "dict"):
                return {r.id}
            if isinstance(op, ast.In) and isinstance(r, (ast.Tuple, ast.List, ast.Set)):
                ks = set()
                for e in r.elts:
                    if isinstance(e, ast.Name) and e.id in ("tuple", "list", "dict"):
                        ks.add(e.id)
                    else:
                        return None
                return ks
    if isinstance(test, ast.Call) and q.call_name(test) == "isinstance" and len(test.args) == 2:
        a, c = test.args
        if isinstance(a, ast.Name) and _alias_of_param(fn_node, a.id, param):
            elts = c.elts if isinstance(c, ast.Tuple) else [c]
            ks = set()
            for e in elts:
                d = q.dotted(e)
                if d and d.split(".")[-1] == "FutureBase":
                    ks.add("future")
                elif d in ("tuple", "list", "dict"):
                    ks.add(d)
                else:
                    return None
            return ks
    # the truth value of the yielded object is not a kind: `not value` accepts None and empty containers - and also 0, '', False, an
    # object whose __len__ is 0 ...
    t_ = test.operand if isinstance(test, ast.UnaryOp) and isinstance(test.op, ast.Not) else test
    if isinstance(t_, ast.Name) and _alias_of_param(fn_node, t_.id, param):
        return {"truthiness"}
    if isinstance(test, ast.BoolOp) and isinstance(test.op, ast.And):
        # a conjunction that narrows a kind test on the parameter (`isinstance(value, tuple) and hasattr(value, "_make")`):
        # a kind of its own, outside the modelled ones; the two recursions have to agree on it literally
        atoms = []
        for v in test.values:
            c = v.operand if isinstance(v, ast.UnaryOp) and isinstance(v.op, ast.Not) else v
            if isinstance(c, ast.Call) and q.call_name(c) in ("isinstance", "hasattr", "issubclass") and c.args and \
                    any(isinstance(x, ast.Name) and _alias_of_param(fn_node, x.id, param) for x in ast.walk(c.args[0])):
                atoms.append(c)
            elif _test_kinds(fn_node, v, param) is not None:
                atoms.append(v)
        if atoms and len(atoms) == len(test.values):
            txt = q.src(test)
            for n in sorted(set(x.id for x in ast.walk(test) if isinstance(x, ast.Name) and _alias_of_param(fn_node, x.id, param)), key=len, reverse=True):
                txt = txt.replace(n, "_")
            return {"other:" + txt}
    return None


def foreign(ks):
    return set(k for k in ks if k.startswith("other:") or k == "truthiness")


def _ends_flow(stmts):
    return bool(stmts) and isinstance(stmts[-1], (ast.Return, ast.Raise, ast.Continue, ast.Break))


def dispatch_chain(R, fi):
    """[(kinds set, body stmts, test node)] + default body (list of stmts, possibly empty).
    Accepts an if/elif/else chain as well as a sequence of `if <kind test>: ...; return` statements
    (each arm leaving the function) followed by the default statements."""
    param = q.param_names(fi.node)[0]
    body = [s for s in fi.node.body if not (isinstance(s, ast.Expr) and isinstance(s.value, ast.Constant))]
    chain = []
    default = None
    i = 0
    # leading assignments (aliases) are allowed
    while i < len(body) and isinstance(body[i], ast.Assign):
        i += 1
    R.need(i < len(body) and isinstance(body[i], ast.If) and _test_kinds(fi.node, body[i].test, param) is not None,
           "idiom: %s does not start with a dispatch on its first parameter" % fi.qualname)
    while i < len(body):
        s = body[i]
        if not (isinstance(s, ast.If) and _test_kinds(fi.node, s.test, param) is not None):
            break
        cur = s
        open_chain = False
        while cur is not None:
            ks = _test_kinds(fi.node, cur.test, param)
            R.need(ks is not None, "idiom: unrecognised kind test `%s` in %s" % (q.src(cur.test), fi.qualname))
            chain.append((ks, cur.body, cur))
            if len(cur.orelse) == 1 and isinstance(cur.orelse[0], ast.If):
                cur = cur.orelse[0]
            else:
                if cur.orelse:
                    default = cur.orelse
                cur = None
        i += 1
        if default is not None:
            break
        # a following `if` continues the dispatch only if every arm so far leaves the function (or is a no-op arm such as `pass`)
        arms_leave = all(_ends_flow(b) for k, b, n in chain[-1:])
        if not arms_leave and i < len(body) and isinstance(body[i], ast.If) and _test_kinds(fi.node, body[i].test, param) is not None:
            # arms that fall through to a shared tail (e.g. `return result`) are fine when the tests are mutually exclusive kinds
            continue
    if default is None:
        default = body[i:]
    return param, chain, default


def _is_rec_call(c, fname, elem_pred):
    return isinstance(c, ast.Call) and q.call_name(c) == fname and c.args and elem_pred(c.args[0])


def _len_constraints(fi, ret_node, len_names):
    """Possible lengths (0..6) of the sequence for which the return statement is reachable: the
    CFG is walked with every length test evaluated for the given length."""
    cfg = cfg_of(fi)
    targets = cfg.nodes_for(ret_node)
    lens = []
    for L in range(0, 7):
        def keep(e, L=L):
            nd = cfg.nodes[e.src]
            if nd.kind != "test" or e.label not in ("T", "F"):
                return True
            v = _eval_len_test(nd.ast, L, len_names)
            if v is None:
                return True
            return (e.label == "T") == v
        if cfg.find_path([cfg.entry], targets, N, keep_edge=keep) is not None:
            lens.append(L)
    return lens


def _eval_len_test(test, L, len_names):
    def val(e):
        if isinstance(e, ast.Constant) and isinstance(e.value, int):
            return e.value
        if isinstance(e, ast.Name) and e.id in len_names:
            return L
        if isinstance(e, ast.Call) and q.call_name(e) == "len":
            return L
        return None
    if isinstance(test, ast.Compare) and len(test.ops) == 1:
        a, b = val(test.left), val(test.comparators[0])
        if a is None or b is None:
            return None
        op = test.ops[0]
        return {ast.Eq: a == b, ast.NotEq: a != b, ast.Lt: a < b, ast.LtE: a <= b, ast.Gt: a > b, ast.GtE: a >= b}.get(type(op))
    if isinstance(test, ast.UnaryOp) and isinstance(test.op, ast.Not):
        v = _eval_len_test(test.operand, L, len_names)
        return None if v is None else not v
    if isinstance(test, ast.Name):
        return None
    return None


def unwrap_rules(R, prefix, order_only=False):
    repo = R.repo
    fi = repo.fn("async_task.unwrap")
    param, chain, default = dispatch_chain(R, fi)
    fname = fi.name
    site = R.site(fi)
    kinds = set()
    for ks, body, node in chain:
        kinds |= ks
    # TYPEERROR: default arm raises TypeError, nothing else
    raises = [s for s in default if isinstance(s, ast.Raise)]
    ok = len(default) >= 1 and isinstance(default[-1], ast.Raise) and default[-1].exc is not None and \
        (q.call_name(default[-1].exc) if isinstance(default[-1].exc, ast.Call) else q.dotted(default[-1].exc)) == "TypeError"
    R.check(ok, prefix + ".TYPEERROR", fi.qualname + ":default", site,
            "a yielded object that is neither None, a future nor a tuple/list/dict makes unwrap raise TypeError",
            "unwrap's default arm no longer raises TypeError for an object that is not a future")
    len_names = set()
    for n in ast.walk(fi.node):
        if isinstance(n, ast.Assign) and isinstance(n.value, ast.Call) and q.call_name(n.value) == "len":
            for t in n.targets:
                if isinstance(t, ast.Name):
                    len_names.add(t.id)

    def is_elem_alias(name):
        return _alias_of_param(fi.node, name, param)

    for ks, body, node in chain:
        rets = [n for s in body for n in ast.walk(s) if isinstance(n, ast.Return)]
        R.need(rets, "idiom: arm `%s` of unwrap has no return" % q.src(node.test))
        for ret in rets:
            v = ret.value
            rsite = R.site(fi, ret)
            key = "%s:%s" % (fi.qualname, q.stmt_key(ret)[:60])
            if ks == {"none"}:
                if not order_only:
                    R.check(v is None or q.is_none(v), prefix + ".SHAPE", key, rsite, "None stays None", "None is not unwrapped to None")
                continue
            if ks == {"truthiness"}:
                R.violation(prefix + ".TYPEERROR", fi.qualname + ":truthiness", rsite,
                            "unwrap dispatches on the truth value of the yielded object (`%s`) and hands it back: a yielded object that is not a future but is falsy "
                            "(0, '', False, 0.0, an empty set or range, an object whose __len__ is 0) is returned to the task instead of being reported as TypeError"
                            % q.src(node.test))
                continue
            if foreign(ks):
                continue        # decided by the agreement rule: extract_futures has to have the same arm
            if ks == {"future"}:
                if not order_only:
                    okf = isinstance(v, ast.Call) and q.attr_call(v)[1] == "value" and isinstance(q.attr_call(v)[0], ast.Name) \
                        and is_elem_alias(q.attr_call(v)[0].id) and not v.args
                    R.check(okf, prefix + ".SHAPE", key, rsite, "a future is replaced by future.value()", "a future is not replaced by its value()")
                continue
            # containers
            verdict, why = _container_return(fi, v, ks, ret, node, fname, is_elem_alias, len_names)
            rule = prefix + (".ORDER" if order_only else ".SHAPE")
            R.check(verdict, rule, key, rsite,
                    "container arm %s returns the same container kind with unwrap applied to every element in source order" % sorted(ks),
                    "container arm %s: %s" % (sorted(ks), why))
    return kinds


def _container_return(fi, v, ks, ret, arm_node, fname, is_alias, len_names):
    def rec(e, target_pred):
        return isinstance(e, ast.Call) and q.call_name(e) == fname and len(e.args) == 1 and target_pred(e.args[0])

    def comp_ok(comp, want_dict=False):
        if len(comp.generators) != 1:
            return False, "nested comprehension"
        g = comp.generators[0]
        if g.ifs:
            return False, "elements are filtered"
        if want_dict:
            it = g.iter
            if not (isinstance(it, ast.Call) and q.attr_call(it)[1] == "items" and isinstance(q.attr_call(it)[0], ast.Name) and is_alias(q.attr_call(it)[0].id)):
                return False, "dict arm does not iterate .items() of the value"
            if not (isinstance(g.target, ast.Tuple) and len(g.target.elts) == 2 and all(isinstance(e, ast.Name) for e in g.target.elts)):
                return False, "unrecognised dict comprehension target"
            kn, vn = g.target.elts[0].id, g.target.elts[1].id
            if not (isinstance(comp.key, ast.Name) and comp.key.id == kn):
                return False, "keys are not preserved"
            if not rec(comp.value, lambda e: isinstance(e, ast.Name) and e.id == vn):
                return False, "values are not unwrapped recursively"
            return True, ""
        if not (isinstance(g.iter, ast.Name) and is_alias(g.iter.id)):
            return False, "does not iterate the value itself, forward"
        if not (isinstance(g.target, ast.Name) and rec(comp.elt, lambda e: isinstance(e, ast.Name) and e.id == g.target.id)):
            return False, "elements are not unwrapped recursively"
        return True, ""

    if ks <= {"tuple"} or ks <= {"tuple", "list"} and "tuple" in ks and len(ks) == 1:
        pass
    if ks == {"dict"}:
        if isinstance(v, ast.DictComp):
            return comp_ok(v, True)
        return False, "dict arm does not return a dict comprehension over .items()"
    if ks == {"list"}:
        if isinstance(v, ast.ListComp):
            return comp_ok(v)
        if isinstance(v, ast.Call) and q.call_name(v) == "list" and v.args and isinstance(v.args[0], (ast.GeneratorExp, ast.ListComp)):
            return comp_ok(v.args[0])
        return False, "list arm does not return a list of the unwrapped elements (returns %s)" % q.src(v)[:50]
    if ks == {"tuple"}:
        if isinstance(v, ast.Tuple):
            k = len(v.elts)
            for i, e in enumerate(v.elts):
                if not rec(e, lambda a: isinstance(a, ast.Subscript) and isinstance(a.value, ast.Name) and is_alias(a.value.id)
                           and isinstance(a.slice, ast.Constant) and a.slice.value == i):
                    return False, "literal tuple element %d is not unwrap(<value>[%d])" % (i, i)
            lens = _len_constraints(fi, ret, len_names)
            if lens != [k]:
                return False, "a %d-tuple is returned where the length guards allow lengths %s" % (k, lens)
            return True, ""
        if isinstance(v, ast.Call) and q.call_name(v) == "tuple" and len(v.args) == 1:
            a = v.args[0]
            if isinstance(a, (ast.GeneratorExp, ast.ListComp)):
                return comp_ok(a)
            if isinstance(a, ast.Name):
                # append-loop form
                nm = a.id
                vals = assigned_values(fi.node, nm)
                if not (len(vals) == 1 and vals[0][0] == "expr" and isinstance(vals[0][1], ast.List) and not vals[0][1].elts):
                    return False, "tuple(...) of something that is not a fresh list"
                loops = [n for n in ast.walk(arm_node) if isinstance(n, ast.For)]
                good = False
                for lp in loops:
                    if isinstance(lp.iter, ast.Name) and is_alias(lp.iter.id) and isinstance(lp.target, ast.Name):
                        apps = [c for c in q.calls(lp) if q.call_name(c) == nm + ".append"]
                        if len(apps) == 1 and rec(apps[0].args[0], lambda e: isinstance(e, ast.Name) and e.id == lp.target.id) \
                                and len(lp.body) == 1 and not lp.orelse:
                            good = True
                if not good:
                    return False, "the result list is not built by appending unwrap(item) for every item, forward"
                return True, ""
        if isinstance(v, ast.Tuple) and not v.elts:
            return True, ""
        return False, "tuple arm returns %s" % q.src(v)[:50]
    return False, "unsupported combination of kinds %s in one unwrap arm" % sorted(ks)


def extract_rules(R, prefix):
    """Returns (kinds handled, direction of the sequence traversal: 'reverse'|'forward')."""
    fi = R.repo.fn("async_task.extract_futures")
    params = q.param_names(fi.node)
    R.need(len(params) >= 2, "extract_futures lost its accumulator parameter")
    param, acc = params[0], params[1]
    _, chain, default = dispatch_chain(R, fi)
    fname = fi.name
    kinds = set()
    direction = None
    for ks, body, node in chain:
        kinds |= ks
        site = R.site(fi, node)
        key = "%s:%s" % (fi.qualname, "|".join(sorted(ks)))
        # an arm may leave through `return <accumulator>` instead of falling through to the shared return
        body = [b for b in body if not (isinstance(b, ast.Return) and b.value is not None and q.src(b.value) == acc)]
        body = [b for b in body if not isinstance(b, ast.Pass)] or [ast.Pass()]
        if ks == {"none"}:
            continue
        if foreign(ks):
            continue
        if ks == {"future"}:
            ok = len(body) == 1 and isinstance(body[0], ast.Expr) and isinstance(body[0].value, ast.Call) and \
                q.call_name(body[0].value) == acc + ".append" and q.src(body[0].value.args[0]) == param
            R.check(ok, prefix + ".EXTRACT", key, site, "a future is recorded as a dependency",
                    "a yielded future is not recorded as a dependency (the task would resume without waiting for it)")
            continue
        # container arms: every element is visited recursively
        d, why = _container_visit(fi, body, ks, param, acc, fname)
        R.check(d is not None, prefix + ".EXTRACT", key, site,
                "every element of a %s is searched for futures recursively (%s)" % ("/".join(sorted(ks)), d),
                "container arm %s: %s - futures nested there are not awaited; they are computed one by one by a nested "
                "synchronous value() when the task is continued" % (sorted(ks), why))
        if ks & {"tuple", "list"} and d is not None:
            direction = d if direction in (None, d) else "mixed"
    return kinds, direction, fi


def _container_visit(fi, body, ks, param, acc, fname):
    def rec_on(c, pred):
        return isinstance(c, ast.Call) and q.call_name(c) == fname and len(c.args) == 2 and pred(c.args[0]) and q.src(c.args[1]) == acc

    stmts = list(body)
    loops = [s for s in stmts if isinstance(s, (ast.For, ast.While))]
    if len(loops) != 1:
        return None, "expected exactly one loop, found %d" % len(loops)
    lp = loops[0]
    if isinstance(lp, ast.For):
        if not isinstance(lp.target, ast.Name) or lp.orelse:
            return None, "unrecognised loop target"
        it = lp.iter
        direction = None
        if "dict" in ks:
            if isinstance(it, ast.Call) and q.attr_call(it)[1] == "values" and q.src(q.attr_call(it)[0]) == param:
                direction = "forward"
            else:
                return None, "dict arm does not iterate over .values() of the value"
        else:
            index_form = None
            if q.src(it) == param:
                direction = "forward"
            elif isinstance(it, ast.Call) and q.call_name(it) == "reversed" and q.src(it.args[0]) == param:
                direction = "reverse"
            elif q.src(it) == "%s[::-1]" % param:
                direction = "reverse"
            elif q.src(it) == "range(len(%s) - 1, -1, -1)" % param:
                direction, index_form = "reverse", True
            elif q.src(it) in ("range(len(%s))" % param, "range(0, len(%s))" % param):
                direction, index_form = "forward", True
            elif q.src(it) == "reversed(range(len(%s)))" % param:
                direction, index_form = "reverse", True
            else:
                return None, "unrecognised iteration `%s`" % q.src(it)
            if index_form:
                if not (len(lp.body) == 1 and isinstance(lp.body[0], ast.Expr) and rec_on(lp.body[0].value, lambda e: q.src(e) == "%s[%s]" % (param, lp.target.id))):
                    return None, "the loop body is not exactly the recursive call on the indexed element"
                return direction, ""
        if not (len(lp.body) == 1 and isinstance(lp.body[0], ast.Expr) and rec_on(lp.body[0].value, lambda e: isinstance(e, ast.Name) and e.id == lp.target.id)):
            return None, "the loop body is not exactly the recursive call on the element"
        return direction, ""
    # while loop over an index
    k, s, pos = q.atom_test(lp.test)
    idx = None
    direction = None
    if k == "lt" and not pos and s[1] == "0":       # i >= 0
        idx, direction = s[0], "reverse"
    elif k == "lt" and pos and s[1] == "len(%s)" % param:  # i < len(value)
        idx, direction = s[0], "forward"
    else:
        return None, "unrecognised while condition `%s`" % q.src(lp.test)
    vals = assigned_values(fi.node, idx)
    init = [v for kk, v in vals if kk == "expr"]
    if direction == "reverse":
        if not (len(init) == 1 and q.src(init[0]) == "len(%s) - 1" % param):
            return None, "descending index does not start at len-1"
        step_ok = any(isinstance(st, ast.AugAssign) and isinstance(st.op, ast.Sub) and q.src(st.target) == idx and q.src(st.value) == "1" for st in lp.body)
    else:
        if not (len(init) == 1 and q.src(init[0]) == "0"):
            return None, "ascending index does not start at 0"
        step_ok = any(isinstance(st, ast.AugAssign) and isinstance(st.op, ast.Add) and q.src(st.target) == idx and q.src(st.value) == "1" for st in lp.body)
    if not step_ok:
        return None, "index step is not 1"
    others = [st for st in lp.body if not isinstance(st, ast.AugAssign)]
    if not (len(others) == 1 and isinstance(others[0], ast.Expr) and rec_on(others[0].value, lambda e: q.src(e) == "%s[%s]" % (param, idx))):
        return None, "the loop body is not exactly the recursive call on the indexed element"
    return direction, ""


def agree_rule(R, prefix, unwrap_kinds, extract_kinds, direction_attr):
    """direction_attr: 'value' -> report kinds extract handles but unwrap does not (C01);
    'await' -> kinds unwrap handles but extract does not (C03/C04)."""
    fi_u = R.repo.fn("async_task.unwrap")
    fi_e = R.repo.fn("async_task.extract_futures")
    both = foreign(unwrap_kinds) & foreign(extract_kinds)
    R.need(not both, "idiom: both recursions handle a container kind outside the modelled ones (%s): no shape rule for it" % sorted(both))
    if direction_attr == "value":
        missing = extract_kinds - unwrap_kinds
        R.check(not missing, prefix + ".AGREE-STRUCT", "unwrap:missing:%s" % ",".join(sorted(missing)), R.site(fi_u),
                "unwrap handles every kind extract_futures records futures for (%s)" % ",".join(sorted(extract_kinds)),
                "extract_futures accepts %s but unwrap rejects it: a legal yield turns into TypeError" % sorted(missing))
        for k in KINDS:
            R.check(k in unwrap_kinds, prefix + ".AGREE-STRUCT", "unwrap:kind:%s" % k, R.site(fi_u),
                    "unwrap handles %s" % k, "unwrap no longer handles yielded %s values" % k)
    else:
        missing = unwrap_kinds - extract_kinds
        R.check(not missing, prefix + ".AGREE-STRUCT", "extract:missing:%s" % ",".join(sorted(missing)), R.site(fi_e),
                "extract_futures records the futures of every kind unwrap unwraps (%s)" % ",".join(sorted(unwrap_kinds)),
                "unwrap unwraps %s but extract_futures does not record their futures: the task resumes without waiting "
                "and computes them by nested synchronous evaluation" % sorted(missing))
