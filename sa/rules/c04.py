"""C04 - batches are flushed only when nothing else can run (maximal batching)."""
import ast
import os

from ..cfg import cfg_of, N, X
from ..roles import Roles
from .. import q, kit
from . import common

EXPLANATION = (
    "Path rules over TaskScheduler.wait_for and the drain: every flush is preceded by a drain since "
    "the previous flush (no two flushes without re-walking the task tree), one flush per pass, nothing "
    "in the drain's own call tree (user callbacks cut; value()/error() cut because is_blocked guarantees "
    "computed dependencies) reaches BatchBase.flush, the inline _compute() excludes batch items, the "
    "drain runs until the stack is back at its entry height, the dependencies-scheduled flag is reset so "
    "that unblocked subtrees are revisited, and is_blocked waits for every dependency (otherwise unwrap "
    "would compute - and flush - a pending dependency early)."
)


def wait_for_rules(R, ro, rule_prefix="C04"):
    wf = ro.wait_for()
    cfg = cfg_of(wf)
    drain = ro.drain_method()
    drains = [n for n, c in ro.calls_to(wf, [drain])]
    flushes = []
    for m in ro.ts_methods():
        if m is not wf and ro.reaches_flush(m):
            flushes += [n for n, c in ro.calls_to(wf, [m])]
    flushes += [n for n, c in ro.flush_sites_in(wf)]
    R.need(drains and flushes, "role: wait_for no longer drains/flushes")
    for f in flushes:
        site = R.site(wf, f.ast)
        p = cfg.find_path([cfg.entry], [f], N, cut_nodes=drains)
        R.check(p is None, rule_prefix + ".EXEC-BEFORE-FLUSH", "%s:first:%s" % (wf.qualname, q.stmt_key(f.ast)), site,
                "no flush before the task tree has been drained",
                "wait_for can flush a batch before running the tasks that could still add requests to it",
                cfg.fmt_path(p) if p else None)
        starts = [e.dst for e in cfg.out_edges(f.id, N)]
        p = cfg.find_path(starts, flushes, N, cut_nodes=drains)
        R.check(p is None, rule_prefix + ".ONE-FLUSH", "%s:again:%s" % (wf.qualname, q.stmt_key(f.ast)), site,
                "between two flushes the task tree is always drained again (one flush per pass)",
                "wait_for can flush a second batch without re-walking the task tree: tasks unblocked by the first flush "
                "cannot add their requests to the second one",
                cfg.fmt_path(p) if p else None)


def run(R):
    R.extra["explanation"] = EXPLANATION
    ro = Roles(R)
    wait_for_rules(R, ro)
    # ONE-FLUSH inside the flush-one-batch method
    fo = ro.flush_one_method()
    fcfg = cfg_of(fo)
    fl = []
    for fm in ro.flush_method():
        fl += [n for n, c in ro.calls_to(fo, [fm])]
    fl += [n for n, c in ro.flush_sites_in(fo)]
    p = kit.at_most_once(fo, fl, N)
    R.check(p is None and fl, "C04.ONE-FLUSH", fo.qualname, R.site(fo),
            "the flush-one-batch method flushes at most one batch per call, not in a loop",
            "the method can flush more than one batch per call", fcfg.fmt_path(p) if p else None)
    for fm in ro.flush_method():
        sites = [n for n, c in ro.flush_sites_in(fm)]
        p = kit.at_most_once(fm, sites, N)
        R.check(p is None, "C04.ONE-FLUSH", fm.qualname, R.site(fm), "at most one BatchBase.flush() per call",
                "two BatchBase.flush() calls on one path", cfg_of(fm).fmt_path(p) if p else None)

    # WHO-FLUSH: the drain's own call tree must not reach a flush
    drain = ro.drain_method()
    dcfg = cfg_of(drain)
    stop_names = set(["futures.FutureBase.value", "futures.FutureBase.error", "futures.FutureBase.__call__"])
    wf = ro.wait_for()

    def stop(fi):
        return fi.qualname in stop_names or fi is wf

    # inline compute narrowing
    inline = kit.call_sites(drain, lambda c: q.attr_call(c)[1] == "_compute")
    R.need(inline, "idiom: the drain no longer computes plain futures inline")
    excluded = set()
    for n, c in inline:
        recv = q.dotted(q.attr_call(c)[0])
        for clsname, cls in (("BatchItemBase", ro.BatchItemBase), ("AsyncTask", ro.AsyncTask)):
            def g(nd, recv=recv, clsname=clsname):
                if nd.kind != "test":
                    return None
                k, s, pos = q.atom_test(nd.ast)
                if k == "isinstance" and s[0] == recv and s[1].split(".")[-1] == clsname:
                    return "F" if pos else "T"
                return None
            p = kit.path_avoiding_guard(dcfg, [n], g, N)
            if clsname == "BatchItemBase":
                R.check(p is None, "C04.WHO-FLUSH", "%s:inline-narrow" % drain.qualname, R.site(drain, c),
                        "the inline %s._compute() is reached only when the future is not a batch item (whose _compute flushes its batch)" % recv,
                        "a batch item can reach the inline _compute(): its batch is flushed in the middle of the drain, before "
                        "the other runnable tasks have added their requests", dcfg.fmt_path(p) if p else None)
            if p is None:
                excluded.add(cls)
        # a batch the task yielded itself (a batch is a future: the task waits for the whole batch) is scheduled like one of its items;
        # the inline _compute() - which is flush() - is left to a batch that has no items (flushing it sends nothing)
        btests = []
        for x in dcfg.nodes:
            if x.kind == "test":
                k, s_, pos = q.atom_test(x.ast)
                if k == "isinstance" and s_[0] == recv and s_[1].split(".")[-1] == "BatchBase":
                    btests.append((x, "T" if pos else "F"))

        def no_items_edge(e):
            nd = dcfg.nodes[e.src]
            if nd.kind != "test":
                return False
            k, s_, pos = q.atom_test(nd.ast)
            # the edge on which the batch is known to hold NO requests
            if k == "truth" and s_ == "%s.items" % recv:
                return e.label == ("F" if pos else "T")
            if k == "call" and s_ == "%s.is_empty" % recv:
                return e.label == ("T" if pos else "F")
            return False
        starts_b = [e.dst for x, lab in btests for e in dcfg.out_edges(x.id, N) if e.label == lab]
        pb = dcfg.find_path(starts_b, [n], N, keep_edge=lambda e: not no_items_edge(e), cut_nodes=[x for x in dcfg.nodes if x.kind == "loop"]) if btests else ["no test"]
        R.check(pb is None, "C04.WHO-FLUSH", "%s:inline-batch" % drain.qualname, R.site(drain, c),
                "a yielded batch that holds requests is scheduled, not computed inline",
                "a batch object that a task yielded (to wait for the whole batch) reaches the inline _compute(), i.e. flush(), in the middle of the walk: it is "
                "flushed before the tasks that have not started yet have added their requests - more flushes than the longest chain of dependent requests",
                dcfg.fmt_path(pb) if isinstance(pb, list) and pb and not isinstance(pb[0], str) else None)

    # ... and that arm does what the batch-item arm does: hands exactly that batch to the scheduling method and takes it off the stack
    # (left on the stack it would be dispatched again for ever; popped without being scheduled nobody would ever flush it)
    sfq = "self." + ro.stack_field()
    for n, c in inline:
        recv = q.dotted(q.attr_call(c)[0])
        tests_b = [(x, q.atom_test(x.ast)) for x in dcfg.nodes if x.kind == "test"]
        bt = [(x, "T" if a[2] else "F") for x, a in tests_b if a[0] == "isinstance" and a[1][0] == recv and a[1][1].split(".")[-1] == "BatchBase"]
        if not bt:
            continue
        sched_fn = ro.TS.methods.get("_schedule_batch")
        scheds = [x for x, cc in kit.call_sites(drain, lambda cc: q.call_name(cc) == "self._schedule_batch" and cc.args and q.src(cc.args[0]) == recv)]
        pops = [x for x, cc in kit.call_sites(drain, lambda cc: q.call_name(cc) == sfq + ".pop")]
        loops_ = [x for x in dcfg.nodes if x.kind == "loop"]

        def has_items_edge(e, recv=recv):
            nd = dcfg.nodes[e.src]
            if nd.kind != "test":
                return True
            k, s_, pos = q.atom_test(nd.ast)
            if k == "truth" and s_ == "%s.items" % recv:
                return e.label == ("T" if pos else "F")
            return True
        starts_ = [e.dst for x, lab in bt for e in dcfg.out_edges(x.id, N) if e.label == lab]
        ps = dcfg.find_path(starts_, loops_ + [dcfg.exit], N, cut_nodes=scheds, keep_edge=has_items_edge)
        def still_on_top(e, recv=recv):
            # (the pop may be skipped only when the entry is not the top of the stack any more: a hook reset the stack)
            nd = dcfg.nodes[e.src]
            if nd.kind == "test":
                k, s_, pos = q.atom_test(nd.ast)
                gone = (k == "truth" and s_ == sfq) or (k == "is" and isinstance(s_, tuple) and set(s_) == {"%s[-1]" % sfq, recv})
                if gone:
                    return e.label == ("T" if pos else "F")
            return has_items_edge(e)
        pp = dcfg.find_path(starts_, loops_, N, cut_nodes=pops, keep_edge=still_on_top)
        R.check(ps is None and scheds, "C04.WHO-FLUSH", "%s:batch-arm:schedules" % drain.qualname, R.site(drain, c),
                "a yielded batch that holds requests is handed to _schedule_batch()", "a yielded batch that holds requests can leave its arm without being scheduled: "
                "nobody flushes it and the task waiting for it never continues", dcfg.fmt_path(ps) if ps else None)
        R.check(pp is None and pops, "C04.WHO-FLUSH", "%s:batch-arm:pops" % drain.qualname, R.site(drain, c),
                "a yielded batch is taken off the stack once it has been scheduled", "a yielded batch stays on top of the stack after it was scheduled: the drain "
                "dispatches it again and again and never gets to the tasks below", dcfg.fmt_path(pp) if pp else None)
        # only batches go to the scheduling method with the entry itself
        for x in scheds:
            pg = kit.path_avoiding_guard(dcfg, [x], lambda nd, recv=recv: (("T" if q.atom_test(nd.ast)[2] else "F") if nd.kind == "test" and q.atom_test(nd.ast)[0] == "isinstance"
                                                                        and q.atom_test(nd.ast)[1][0] == recv and q.atom_test(nd.ast)[1][1].split(".")[-1] == "BatchBase" else None), N)
            R.check(pg is None, "C04.WHO-FLUSH", "%s:batch-arm:only-batches" % drain.qualname, R.site(drain, x.ast),
                    "only an entry that is a batch is scheduled as a batch", "an entry that is not known to be a batch can be handed to _schedule_batch() (`or` instead of `and` "
                    "in the dispatch): a lazy future that happens to have an `items` attribute is put into the set of pending batches", dcfg.fmt_path(pg) if pg else None)

    def narrowed_targets(fi, call, tg, kind):
        if fi is drain and q.attr_call(call)[1] == "_compute":
            return [t for t in tg if not any(t.cls is not None and t.cls.is_subclass_of(x) for x in excluded)]
        return tg

    seen = {}
    stack = [(drain, [])]
    hit = None
    while stack and hit is None:
        fi, chain = stack.pop()
        if fi.qualname in seen:
            continue
        seen[fi.qualname] = True
        for call, tg, kind in R.res.callees(fi):
            if ro.is_batch_flush_call(fi, call) and q.attr_call(call)[1] == "flush":
                hit = chain + [(fi, call)]
                break
        if hit:
            break
        for call, tg, kind in R.res.callees(fi):
            if kind not in ("resolved", "cha"):
                continue
            for t in narrowed_targets(fi, call, tg, kind):
                if stop(t):
                    continue
                # BatchBase._compute from the inline site flushes a batch the user yielded itself: not constrained
                if fi is drain and q.attr_call(call)[1] == "_compute" and t.cls is not None and t.cls.is_subclass_of(ro.BatchBase):
                    continue
                stack.append((t, chain + [(fi, call)]))
    from ..resolve import fmt_chain
    R.check(hit is None, "C04.WHO-FLUSH", "%s:calltree" % drain.qualname, R.site(drain),
            "nothing in the drain's call tree (%d functions, user callbacks and value()/error() cut) reaches BatchBase.flush()" % len(seen),
            "the drain itself can reach BatchBase.flush(): a batch is flushed while other tasks can still run",
            fmt_chain(hit) if hit else None)
    R.units["drain_call_tree_functions"] = len(seen)
    # the cut at value()/error()/unwrap() is justified site by site: inside the drain's call tree a future is only read when it is
    # known to be computed (reading an uncomputed batch item flushes its batch on the spot)
    cutsites = []
    fns = dict((f.qualname, f) for f in R.repo.all_functions())
    for qn in seen:
        fi = fns.get(qn)
        if fi is None:
            continue
        for call, tg, kind in R.res.callees(fi):
            nm = q.call_name(call) or ""
            recv, meth = q.attr_call(call)
            is_unwrap = nm in ("unwrap", "async_task.unwrap")
            reads = meth in ("value", "error") and not call.args and any(t.qualname in stop_names for t in tg)
            if is_unwrap or reads:
                cutsites.append((fi, call, is_unwrap))
    driver_ = ro.step_method_task()
    for fi, call, is_unwrap in cutsites:
        if fi.name == "unwrap" and fi.cls is None:
            continue                            # unwrap's own recursion: decided at its entry points
        if is_unwrap:
            okc = fi is driver_ and [q.src(a) for a in call.args] == ["self._last_value"]
            why = "the step driver unwraps the value the task yielded, after is_blocked() found every future in it computed"
        else:
            recv = q.src(q.attr_call(call)[0])
            okc = fi.name == "_computed" and recv == "self"
            if not okc:
                from .c18 import guarded_by_computed
                okc = guarded_by_computed(fi, call)
            why = "the future is read where it is known to be computed"
        R.check(okc, "C04.WHO-FLUSH", "%s:reads:%s" % (fi.qualname, q.src(call)[:40]), R.site(fi, call), why,
                "%s reads a future (`%s`) inside the scheduler's loop without it being known to be computed: for a pending batch item this "
                "flushes its batch immediately, while other tasks have not issued their requests yet" % (fi.qualname, q.src(call)[:50]))

    # DRAIN idiom
    sf = ro.stack_field()
    # the drain leaves its loop normally only over the edge "current height <= height recorded at entry" (the test may be the
    # while condition or an if/break inside `while True`; the current height may have been read into a local first)
    hname_, cur_ = common.stack_height_names(ro)
    dcfg2 = cfg_of(drain)

    def back_at_entry(e):
        nd = dcfg2.nodes[e.src]
        if nd.kind != "test":
            return False
        k, s, pos = q.atom_test(nd.ast)
        if k == "lt" and s[0] == hname_ and s[1] in cur_:          # entry < current : the loop goes on over the T edge
            return e.label == ("F" if pos else "T")
        if k == "lt" and s[1] == hname_ and s[0] in cur_:          # current < entry (cannot happen) : either edge leaves
            return True
        if k == "eq" and hname_ in s and any(x in cur_ for x in s):
            return e.label == ("T" if pos else "F")
        return False
    pushes_ = [n for n, c in kit.call_sites(drain, lambda c: q.call_name(c) == "self.%s.append" % sf)]
    starts_ = [e.dst for n in pushes_ for e in dcfg2.out_edges(n.id, N)]
    p_ = dcfg2.find_path(starts_, [dcfg2.exit], N, keep_edge=lambda e: not back_at_entry(e)) if (hname_ and starts_) else "no entry height"
    ok = p_ is None
    R.check(ok, "C04.DRAIN", drain.qualname, R.site(drain),
            "the drain loops until the stack is back at the height recorded at entry",
            "the drain's loop condition no longer compares the stack height with the height recorded at entry")
    common.unwind_rule.__doc__  # (height-before-push is checked under C08)

    # REVISIT: flag reset
    revisit_rules(R, ro, "C04.REVISIT")
    # every future inside a yielded structure is recorded: one that is not is computed by a nested synchronous value() when the
    # task is continued - a flush while sibling tasks have not even started
    from .structs import extract_rules, agree_rule
    from .c03 import unwrap_kinds_only
    ek, _d, _f = extract_rules(R, "C04")
    agree_rule(R, "C04", unwrap_kinds_only(R), ek, "await")
    # printing a pending batch (debug dumps, user hooks) must not flush it
    from .c18 import diag_closure, diag_purity
    _roots, allm = diag_closure(R)
    diag_purity(R, ro, allm, "C04.DIAG-PURE")
    no_sync_in_library_tasks(R, "C04.YIELD-ONLY")
    # blocked-all (is_blocked waits for every dependency)
    common.blocked_all(R, ro, "C04.BLOCKED-ALL")
    common.step_only_unblocked(R, ro, "C04.STEP-UNBLOCKED")
    common.unwind_flag_reset(R, ro, "C04.UNWIND-FLAG")
    R.require_min("C04.EXEC-BEFORE-FLUSH", 1)
    R.require_min("C04.REVISIT", 3)


def revisit_rules(R, ro, rule):
    ct = ro.continue_task_method()
    st = ro.step_method_task()
    cfg = cfg_of(ct)
    tp = q.param_names(ct.node)[1]
    steps = [n for n, c in ro.calls_to(ct, [st])]
    clears = [n for n in kit.store_nodes(ct, "_dependencies_scheduled", tp)
              if isinstance(n.ast, ast.Assign) and isinstance(n.ast.value, ast.Constant) and n.ast.value.value is False]
    starts = []
    for s in steps:
        starts += [e.dst for e in cfg.out_edges(s.id, N)]
    p = cfg.find_path(starts, [cfg.exit], N, cut_nodes=clears)
    R.check(p is None and steps, rule, ct.qualname + ":after-step", R.site(ct),
            "after a step the task's dependencies-scheduled flag is cleared (its new dependencies have not been scheduled)",
            "after a step the dependencies-scheduled flag can stay set: the task's new dependencies are not scheduled in this pass "
            "and miss the next flush", cfg.fmt_path(p) if p else None)
    hm = ro.handle_task_method()
    hcfg = cfg_of(hm)
    hp = q.param_names(hm.node)[1]

    def flag(nd, want):
        if nd.kind != "test":
            return None
        k, s, pos = q.atom_test(nd.ast)
        if k == "truth" and s == "%s._dependencies_scheduled" % hp:
            return ("T" if pos else "F") if want else ("F" if pos else "T")
        return None

    tests = [n for n in hcfg.nodes if flag(n, True) is not None]
    R.need(tests, "idiom: %s no longer tests the dependencies-scheduled flag" % hm.qualname)
    hclears = [n for n in kit.store_nodes(hm, "_dependencies_scheduled", hp) if isinstance(n.ast, ast.Assign)
               and isinstance(n.ast.value, ast.Constant) and n.ast.value.value is False]
    hsets = [n for n in kit.store_nodes(hm, "_dependencies_scheduled", hp) if isinstance(n.ast, ast.Assign)
             and isinstance(n.ast.value, ast.Constant) and n.ast.value.value is True]
    sf = ro.stack_field()
    pushes = [n for n, c in kit.call_sites(hm, lambda c: q.call_name(c) == "self.%s.append" % sf)]
    pops = [n for n, c in kit.call_sites(hm, lambda c: q.call_name(c) == "self.%s.pop" % sf)]
    for t in tests:
        # second visit (flag set): clear it and pop
        starts = [e.dst for e in hcfg.out_edges(t.id, N) if e.label == flag(t, True)]
        p = hcfg.find_path(starts, [hcfg.exit], N, cut_nodes=hclears)
        R.check(p is None, rule, hm.qualname + ":second-visit-clear", R.site(hm, t.ast),
                "a task left blocked gets its dependencies-scheduled flag cleared, so its subtree is revisited after the next flush",
                "a task can be left blocked with the flag still set: after a flush its unblocked dependencies are never revisited",
                hcfg.fmt_path(p) if p else None)
        def on_top(e):
            # the pop may be skipped only when the task is not the top entry any more (a hook reset the stack)
            nd = hcfg.nodes[e.src]
            if nd.kind != "test":
                return True
            k_, s_, pos_ = q.atom_test(nd.ast)
            gone = (k_ == "truth" and s_ == "self." + sf) or (k_ == "is" and isinstance(s_, tuple) and set(s_) == {"self.%s[-1]" % sf, hp})
            return not (gone and e.label == ("F" if pos_ else "T"))
        p = hcfg.find_path(starts, [hcfg.exit], N, cut_nodes=pops, keep_edge=on_top)
        R.check(p is None, rule, hm.qualname + ":second-visit-pop", R.site(hm, t.ast),
                "a task left blocked is popped from the stack", "a task left blocked can stay on top of the stack (the drain would spin)",
                hcfg.fmt_path(p) if p else None)
        # first visit (flag clear): set it, push
        starts = [e.dst for e in hcfg.out_edges(t.id, N) if e.label == flag(t, False)]
        p = hcfg.find_path(starts, [hcfg.exit], N, cut_nodes=hsets)
        R.check(p is None, rule, hm.qualname + ":first-visit-set", R.site(hm, t.ast),
                "scheduling a task's dependencies sets the flag", "dependencies can be scheduled without setting the flag (they would be pushed again and again)",
                hcfg.fmt_path(p) if p else None)
        p = hcfg.find_path(starts, pops, N)
        R.check(p is None, rule, hm.qualname + ":first-visit-nopop", R.site(hm, t.ast),
                "the task stays on the stack below the dependencies it schedules",
                "the task can be popped in the same visit that schedules its dependencies", hcfg.fmt_path(p) if p else None)


def asynq_decorated(R):
    """Module-level functions / methods of the package decorated with @asynq(...) / @async_proxy(...):
    qualname -> (FuncInfo, is_pure)"""
    out = {}
    for f in R.repo.all_functions():
        for d in f.node.decorator_list:
            if isinstance(d, ast.Call) and q.call_name(d) in ("asynq", "async_proxy", "decorators.asynq"):
                pure = any(k.arg == "pure" and q.const_value(k.value) is True for k in d.keywords)
                out[f.qualname] = (f, pure)
    return out


def no_sync_in_library_tasks(R, rule):
    """Inside the library's own @asynq task bodies no asynq function is called synchronously (a
    blocking nested wait_for): library helpers are yield-only, so that a yield-only user program
    stays yield-only."""
    dec = asynq_decorated(R)
    by_name = {}
    for qn, (f, pure) in dec.items():
        if f.parent is None and f.cls is None and not pure:
            by_name.setdefault(f.name, f)
    n = 0
    for qn, (f, pure) in sorted(dec.items()):
        if f.module.name not in ("tools", "generator"):
            continue
        n += 1
        bad = []
        for c in q.calls(f.node):
            nm = q.call_name(c)
            if nm in by_name and by_name[nm].module is f.module or (nm in by_name and nm in f.module.imports):
                bad.append(q.src(c)[:50])
            if nm and nm.endswith(".value") and not nm.startswith(("self.", "future", "task")) and isinstance(q.attr_call(c)[0], ast.Call) and (q.call_name(q.attr_call(c)[0]) or "").endswith(".asynq"):
                bad.append(q.src(c)[:50])
        R.check(not bad, rule, f.qualname, R.site(f),
                "%s awaits other asynq functions only by yielding their .asynq() tasks" % f.name,
                "the library task %s calls an asynq function synchronously (%s): a blocking nested wait_for inside a task flushes batches while sibling "
                "tasks of the user's yield-only program have not started" % (f.qualname, "; ".join(bad)))
    R.need(n >= 10, "fewer library tasks than confirmed by hand (%d < 10)" % n)
