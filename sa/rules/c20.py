"""C20 - debug, dump and profiling options never change behaviour."""
import ast

from ..cfg import cfg_of, N, X, ExcHierarchy
from ..errors import AnalysisError
from ..frontend import C_INT_TYPES, C_FLOAT_TYPES
from ..roles import Roles
from .. import q, kit
from . import common

EXPLANATION = (
    "Erasure-equivalence and narrowing rules: every branch whose condition reads a boolean debug option "
    "(found by provenance to the DebugOptions object, over all modules but debug.py itself) is erased of "
    "its diagnostic-only statements (closed whitelist of diagnostic callees and diagnostic fields, "
    "arguments built only from pure expressions and debug.str/debug.repr); the residues of the two arms "
    "must be identical and an erased statement may not transfer control - this decides all 2^17 subsets "
    "of the DUMP_*/COLLECT_PERF_STATS options at once. KEEP_DEPENDENCIES and ENABLE_COMPLEX_ASSERTIONS "
    "are semantic options with their own obligations (selection still tests is_flushed; is_blocked and "
    "the push loop skip computed entries; only an assert is guarded). Diagnostic code cannot start a "
    "computation or skip a task's completion. Every clock-derived value (utime() differences, their sums) "
    "stored into a C-typed field or parameter declared in the .pxd files needs a 64-bit or object type; "
    "the thorough tier re-derives the coercion sites from the Cython compiler's typed tree."
)

SEMANTIC_OPTIONS = ("KEEP_DEPENDENCIES", "ENABLE_COMPLEX_ASSERTIONS")
DIAG_CALLEES = (
    "debug.write", "debug.dump", "debug.dump_stack", "debug.dump_error", "debug.dump_asynq_stack",
    "profiler.append", "profiler.incr_counter", "profiler.reset", "profiler.flush",
    "print", "stdout.flush", "stderr.flush", "stdout.write", "stderr.write", "sys.stdout.write", "sys.stderr.write",
    "logger.debug", "logger.info", "logger.warning", "traceback.print_exc", "traceback.print_stack", "warnings.warn",
)
DIAG_METHODS = ("dump", "dump_perf_stats", "collect_perf_stats", "try_time_based_dump")
DIAG_FIELDS = ("_total_time", "perf_stats", "_id", "_name", "_last_dump_time")
PURE_CALLS = ("debug.str", "debug.repr", "len", "id", "type", "isinstance", "utime", "time.time", "core_inspection.get_full_name")
PURE_METHODS = ("is_computed", "is_flushed", "is_blocked", "to_str", "get_priority", "is_empty", "is_cancelled")


def bool_options(R):
    dm = R.repo.modules["_debug"]
    init = dm.classes["DebugOptions"].methods.get("__init__")
    R.need(init is not None, "anchor vanished: DebugOptions.__init__")
    out = set()
    for n in ast.walk(init.node):
        if isinstance(n, ast.Assign) and isinstance(n.value, ast.Constant) and isinstance(n.value.value, bool):
            for t in n.targets:
                if isinstance(t, ast.Attribute) and q.dotted(t.value) == "self":
                    out.add(t.attr)
    px = dm.pxd.classes.get("DebugOptions") if dm.pxd else None
    if px:
        for name, (typ, vis, ln) in px.fields.items():
            if typ == "bint":
                out.add(name)
    return out


def option_aliases(R, module):
    """Names/dotted expressions in `module` that denote the DebugOptions object."""
    al = set()
    for targets, value, node in R.repo.module_assigns(module):
        if value is not None and q.src(value) in ("_debug.options", "debug.options"):
            al.update(targets)
    for local, imp in module.imports.items():
        if imp[0] == "name" and imp[1] == "asynq._debug" and imp[2] == "options":
            al.add(local)
    al.update(["_debug.options", "debug.options"])
    return al


def local_option_aliases(fn_node, aliases, opts):
    """Locals assigned exactly once, from a plain read of a boolean option: name -> option."""
    out = {}
    counts = {}
    for n in q.scope_nodes(fn_node):
        if isinstance(n, ast.Name) and isinstance(n.ctx, ast.Store):
            counts[n.id] = counts.get(n.id, 0) + 1
    for n in q.scope_nodes(fn_node):
        if isinstance(n, ast.Assign) and len(n.targets) == 1 and isinstance(n.targets[0], ast.Name):
            v = n.value
            if isinstance(v, ast.Attribute) and q.dotted(v.value) in aliases and v.attr in opts and counts.get(n.targets[0].id) == 1:
                out[n.targets[0].id] = v.attr
    return out


_LOCAL_ALIASES = {}


def option_test(expr, aliases, opts):
    """Decompose a condition into (option name, polarity, residual pure conditions) or None."""
    pol = True
    e = expr
    if isinstance(e, ast.UnaryOp) and isinstance(e.op, ast.Not):
        pol = False
        e = e.operand

    def opt_of(x):
        if isinstance(x, ast.Compare) and len(x.ops) == 1 and isinstance(x.ops[0], ast.Is) and isinstance(x.comparators[0], ast.Constant) and x.comparators[0].value is True:
            x = x.left
        if isinstance(x, ast.Attribute) and q.dotted(x.value) in aliases and x.attr in opts:
            return x.attr
        if isinstance(x, ast.Name) and x.id in _LOCAL_ALIASES:
            return _LOCAL_ALIASES[x.id]
        return None
    o = opt_of(e)
    if o:
        return o, pol, []
    if isinstance(e, ast.BoolOp) and isinstance(e.op, ast.And) and pol:
        found = [opt_of(v) for v in e.values]
        idx = [i for i, f in enumerate(found) if f]
        if len(idx) == 1:
            return found[idx[0]], True, [v for i, v in enumerate(e.values) if i != idx[0]]
    return None


class Eraser(object):
    def __init__(self, R, fi, aliases, opts):
        self.R = R
        self.fi = fi
        self.aliases = aliases
        self.opts = opts
        self.problems = []
        # locals that exist only for the diagnostics: every value they get is pure (or a diagnostic callee, `write = debug.write`) and
        # every read is the callee or an argument of a diagnostic call statement
        self.callee_alias = {}
        self.diag_locals = set()
        assigns, loads = {}, {}
        for n in q.scope_nodes(fi.node):
            if isinstance(n, ast.Assign) and len(n.targets) == 1 and isinstance(n.targets[0], ast.Name):
                assigns.setdefault(n.targets[0].id, []).append(n.value)
            elif isinstance(n, ast.Name) and isinstance(n.ctx, ast.Load):
                loads.setdefault(n.id, []).append(n)
            elif isinstance(n, (ast.AugAssign, ast.For, ast.With, ast.ExceptHandler, ast.NamedExpr)):
                for y in ast.walk(n.target if isinstance(n, (ast.AugAssign, ast.For, ast.NamedExpr)) else n):
                    if isinstance(y, ast.Name) and isinstance(y.ctx, ast.Store):
                        assigns.setdefault(y.id, []).append(None)
        params = set(q.param_names(fi.node))
        for x, vals in assigns.items():
            if x in params or any(v is None for v in vals):
                continue
            if all(isinstance(v, ast.Attribute) and q.dotted(v) in DIAG_CALLEES for v in vals):
                self.callee_alias[x] = q.dotted(vals[0])
        for x, vals in assigns.items():
            if x in params or any(v is None for v in vals) or x in self.callee_alias:
                continue
            quiet = self.problems
            self.problems = []
            ok = all(self.pure(v) for v in vals)
            self.problems = quiet
            if not ok:
                continue
            good = True
            for ld in loads.get(x, []):
                st = q.enclosing_stmt(ld)
                c = st.value if isinstance(st, ast.Expr) and isinstance(st.value, ast.Call) else None
                nm = (q.call_name(c) or "") if c is not None else ""
                if c is None or not (nm in DIAG_CALLEES or nm in self.callee_alias or q.attr_call(c)[1] in DIAG_METHODS):
                    good = False
            if good and loads.get(x):
                self.diag_locals.add(x)
        for x in list(self.callee_alias):
            for ld in loads.get(x, []):
                par = getattr(ld, "_parent", None)
                if not (isinstance(par, ast.Call) and par.func is ld and isinstance(getattr(par, "_parent", None), ast.Expr)):
                    self.callee_alias.pop(x, None)
                    break

    def pure(self, e):
        """Is evaluating e free of effects other than diagnostic formatting?"""
        for sub in ast.walk(e):
            if isinstance(sub, (ast.Yield, ast.YieldFrom, ast.Await, ast.NamedExpr, ast.Lambda)):
                return False
            if isinstance(sub, ast.Call):
                nm = q.call_name(sub) or ""
                recv, meth = q.attr_call(sub)
                if nm in PURE_CALLS:
                    continue
                if meth in PURE_METHODS:
                    continue
                if nm in ("str", "repr") or meth in ("__str__", "__repr__", "format"):
                    self.problems.append("unsafe stringification `%s` (use debug.str/debug.repr, which cannot raise)" % q.src(sub)[:50])
                    return False
                return False
        return True

    def is_diag_stmt(self, s):
        if isinstance(s, ast.Pass):
            return True
        if isinstance(s, ast.Expr) and isinstance(s.value, ast.Constant):
            return True
        if isinstance(s, ast.Expr) and isinstance(s.value, ast.Call):
            c = s.value
            nm = q.call_name(c) or ""
            recv, meth = q.attr_call(c)
            if nm in DIAG_CALLEES or (meth in DIAG_METHODS) or (isinstance(c.func, ast.Name) and c.func.id in self.callee_alias):
                args = list(c.args) + [k.value for k in c.keywords]
                if all(self.pure(a) for a in args):
                    return True
                self.problems.append("argument of diagnostic call `%s` is not pure" % q.src(c)[:60])
                return False
            return False
        if isinstance(s, ast.Assign) and len(s.targets) == 1:
            t = s.targets[0]
            if isinstance(t, ast.Name) and isinstance(s.value, ast.Call) and q.call_name(s.value) in ("utime", "time.time"):
                return True
            if isinstance(t, ast.Name) and t.id in _LOCAL_ALIASES:
                return True
            if isinstance(t, ast.Name) and (t.id in self.diag_locals or t.id in self.callee_alias):
                return True
            if isinstance(t, ast.Attribute) and t.attr in DIAG_FIELDS:
                v = s.value
                vs = [v]
                if isinstance(v, ast.IfExp) and (option_test(v.test, self.aliases, self.opts) is not None or self.pure(v.test)):
                    vs = [v.body, v.orelse]
                if all(self.pure(x) or (isinstance(x, ast.Call) and q.call_name(x) in DIAG_CALLEES) for x in vs):
                    return True
            return False
        if isinstance(s, ast.AugAssign) and isinstance(s.target, ast.Attribute) and s.target.attr in DIAG_FIELDS and self.pure(s.value):
            return True
        if isinstance(s, ast.If):
            ot = option_test(s.test, self.aliases, self.opts)
            cond_ok = ot is not None or self.pure(s.test)
            if cond_ok and all(self.is_diag_stmt(x) for x in s.body) and all(self.is_diag_stmt(x) for x in s.orelse):
                return True
            return False
        if isinstance(s, ast.Try) and not s.handlers:
            return all(self.is_diag_stmt(x) for x in s.body + s.finalbody)
        if isinstance(s, ast.For) and self.pure(s.iter):
            return all(self.is_diag_stmt(x) for x in s.body + s.orelse)
        return False

    def erase(self, stmts):
        """The behavioural residue of a statement list: diagnostic statements removed (recursively)."""
        out = []
        for s in stmts:
            if self.is_diag_stmt(s):
                for sub in ast.walk(s):
                    if isinstance(sub, (ast.Return, ast.Raise, ast.Break, ast.Continue, ast.Yield, ast.YieldFrom)):
                        self.problems.append("erased statement contains control transfer `%s`" % q.src(sub)[:40])
                continue
            if isinstance(s, ast.If) and option_test(s.test, self.aliases, self.opts) is not None:
                name, pol, extra = option_test(s.test, self.aliases, self.opts)
                if name not in SEMANTIC_OPTIONS:
                    a, b = self.erase(s.body), self.erase(s.orelse)
                    if extra:
                        # `if OPT and cond: A` : with OPT off nothing runs, so A must erase to nothing
                        if a or b:
                            self.problems.append("option-guarded branch with a residual condition has behavioural statements")
                        continue
                    if dump(a) == dump(b):
                        out.extend(a)
                        continue
                    self.problems.append("arms of `%s` differ after erasure" % q.src(s.test))
                    out.append(s)
                    continue
            if isinstance(s, ast.Try) and not s.handlers and all(self.is_diag_stmt(x) for x in s.finalbody):
                out.extend(self.erase(s.body))
                continue
            out.append(s)
        return out


def dump(stmts):
    return [ast.dump(s) for s in stmts]


SAFE_CONVERTERS = ("debug.str", "debug.repr", "qcore.safe_str", "qcore.safe_repr", "safe_str", "safe_repr", "len", "id", "type",
                   "core_inspection.get_full_name", "qcore.inspection.get_full_name", "utime")


def safe_operand(f, e, depth=0):
    """Can formatting this operand with %s/%r run user code (a __str__/__repr__ that may raise)?  Safe: constants, results of the
    containing converters (debug.str/debug.repr = qcore's safe_str/safe_repr), len()/id()/type(), C-typed numeric or str fields,
    text built from safe parts, and locals all of whose values are safe."""
    if depth > 4:
        return False
    if isinstance(e, ast.Constant) or isinstance(e, ast.JoinedStr) and all(isinstance(v, ast.Constant) or safe_operand(f, v.value, depth + 1) for v in e.values):
        return True
    if isinstance(e, ast.Call):
        nm = q.call_name(e) or ""
        if nm in SAFE_CONVERTERS:
            return True
        if nm in ("int", "float", "bool"):
            return True
        return False
    if isinstance(e, ast.IfExp):
        return safe_operand(f, e.body, depth + 1) and safe_operand(f, e.orelse, depth + 1)
    if isinstance(e, ast.BinOp) and isinstance(e.op, ast.Mod) and isinstance(e.left, ast.Constant) and isinstance(e.left.value, str):
        ops = e.right.elts if isinstance(e.right, ast.Tuple) else [e.right]
        return all(safe_operand(f, o, depth + 1) for o in ops)
    if isinstance(e, ast.BinOp) and isinstance(e.op, (ast.Add, ast.Sub, ast.Mult)):
        return safe_operand(f, e.left, depth + 1) and safe_operand(f, e.right, depth + 1)
    if isinstance(e, ast.Attribute) and q.src(e.value) == "self" and f.cls is not None:
        t_, _o = f.cls.field_type(e.attr)
        return t_ in C_INT_TYPES or t_ in C_FLOAT_TYPES or t_ in ("str", "bint")
    if isinstance(e, ast.Name):
        vals = common.assigned_values(f.node, e.id)
        return bool(vals) and all(k == "expr" and safe_operand(f, v, depth + 1) for k, v in vals)
    return False


# methods a user overrides and that diagnostics must therefore treat like any other user code
USER_HOOKS = {"get_priority": "BatchBase.get_priority(): the documented override point for flush order"}
DIAG_ENTRY_NAMES = ("dump", "dump_perf_stats", "collect_perf_stats", "to_str", "try_time_based_dump")


def diag_conversions(R, ro, rule):
    """The functions the option-guarded code calls directly (dump*, the profiler's naming helpers) run in the middle of the
    scheduler loop and of completion paths.  Whatever they turn into text goes through the containing converters or sits in a
    try that covers Exception, and so does every call of a user hook: a user __repr__/__str__/get_priority() that raises must
    not fail a computation only because a dump or profiling option is on."""
    import re
    from ..cfg import ExcHierarchy
    hier = ExcHierarchy(R.repo)
    n_sites = 0
    fns = []
    for c in R.repo.all_classes():
        if c.module.name in ("mock_", "debug", "_debug"):
            continue
        for nm in DIAG_ENTRY_NAMES:
            if nm in c.methods:
                fns.append(c.methods[nm])

    def protected(f, node):
        for t in kit.enclosing_try_handlers(node):
            if any(kit.handler_covers(h, "Exception", hier) and not kit.handler_reraises(h) for h in t.handlers):
                return True
        return False
    for f in sorted(fns, key=lambda x: x.qualname):
        for node in q.scope_nodes(f.node):
            unsafe = []
            if isinstance(node, ast.BinOp) and isinstance(node.op, ast.Mod) and isinstance(node.left, ast.Constant) and isinstance(node.left.value, str):
                convs = [c_ for c_ in re.findall(r"%[-#0 +]*\d*(?:\.\d+)?([a-zA-Z%])", node.left.value) if c_ != "%"]
                ops = node.right.elts if isinstance(node.right, ast.Tuple) else [node.right]
                for i, o in enumerate(ops):
                    cv = convs[i] if i < len(convs) else "s"
                    if cv not in ("s", "r", "a"):
                        continue
                    if isinstance(o, ast.Call) and q.call_name(o) in ("str", "repr"):
                        continue        # reported at the call itself
                    unsafe.append((o, "`%%%s` of `%s`" % (cv, q.src(o)[:40]), safe_operand(f, o)))
            elif isinstance(node, ast.Call) and q.call_name(node) in ("str", "repr", "format") and node.args:
                unsafe.append((node, "`%s`" % q.src(node)[:40], safe_operand(f, node.args[0])))
            elif isinstance(node, ast.FormattedValue):
                unsafe.append((node, "f-string field `%s`" % q.src(node.value)[:40], safe_operand(f, node.value)))
            elif isinstance(node, ast.BinOp) and (isinstance(node.op, (ast.Div, ast.FloorDiv)) or (isinstance(node.op, ast.Mod) and not (isinstance(node.left, ast.Constant) and isinstance(node.left.value, str)))):
                # a division by something that can be zero (len() of a collection the flush has cleared): ZeroDivisionError with the option on only
                dv = node.right
                nonzero = isinstance(dv, ast.Constant) and isinstance(dv.value, (int, float)) and dv.value != 0
                tested = any(isinstance(a_, (ast.If, ast.IfExp)) and q.src(dv) in q.src(a_.test) for a_ in q.ancestors(node))
                unsafe.append((node, "the division `%s`" % q.src(node)[:40], nonzero or tested))
            elif isinstance(node, ast.Call) and (q.call_name(node) or "").split(".")[-1] == "get_full_name" and node.args:
                # qcore names a class or function by module and __name__, anything else (a callable object) by str()
                a0 = node.args[0]
                unsafe.append((node, "`%s` (str() of a callable object that has no __name__)" % q.src(node)[:50],
                               isinstance(a0, ast.Call) and q.call_name(a0) == "type"))
            elif isinstance(node, ast.Call) and q.attr_call(node)[1] in USER_HOOKS:
                unsafe.append((node, "the user hook `%s`" % q.src(node)[:40], False))
            for o, what, safe in unsafe:
                R.check(safe or protected(f, o), rule, "%s:%s" % (f.qualname, q.src(o)[:40]), R.site(f, o),
                        "%s in %s cannot run user code, or is contained (try/except Exception)" % (what, f.name),
                        "%s.%s evaluates %s outside a containing converter (debug.str / debug.repr) and outside a try that covers Exception: user code "
                        "that raises there (a __repr__/__str__ of an argument, value or subclass; an overridden hook asked in a state the scheduler never "
                        "asks it in) fails the computation only when the dump / profiling option is on"
                        % (f.cls.name if f.cls else f.module.name, f.name, what))
    R.require_min(rule, 6)


def dump_bounded(R, ro, rule):
    """A dump that follows the dependency links of a task is recursive over a structure whose depth the library does not bound
    (chains of awaiting tasks far deeper than any stack): the recursive call is reachable only below an explicit depth limit on
    the indentation parameter, with an early return above it."""
    n = 0
    for cls in (ro.AsyncTask, ro.FutureBase, ro.BatchBase, ro.BatchItemBase, ro.TS):
        f = cls.methods.get("dump")
        if f is None:
            continue
        params = q.param_names(f.node)
        cfg = cfg_of(f)
        for nd, c in kit.call_sites(f, lambda c: q.attr_call(c)[1] == "dump" and q.dotted(q.attr_call(c)[0]) not in ("self", "debug")):
            recv = q.attr_call(c)[0]
            # only links that can lead back to an object of this kind: elements of the dependency list
            loop = [a for a in q.ancestors(c) if isinstance(a, ast.For)]
            if not loop or "_dependencies" not in q.src(loop[0].iter):
                continue
            n += 1
            ind = params[1] if len(params) > 1 else None

            def below_limit(x, ind=ind):
                if x.kind != "test":
                    return None
                k, s_, pos = q.atom_test(x.ast)
                if k == "lt" and isinstance(s_, tuple) and ind in s_:
                    # `indent > LIMIT` is normalised to lt(LIMIT, indent): the recursion sits on its false edge;  `indent < LIMIT`: true edge
                    if s_[1] == ind:
                        return "F" if pos else "T"
                    return "T" if pos else "F"
                return None
            p = kit.path_avoiding_guard(cfg, [nd], below_limit, N, dead_ok=True) if ind else ["no indentation parameter"]
            guards = kit.guard_edges_exist(cfg, below_limit) if ind else []
            R.check(p is None and bool(guards), rule, "%s:%s" % (f.qualname, q.src(c)[:40]), R.site(f, c),
                    "the recursive `%s` is reached only below a depth limit on `%s`" % (q.src(c)[:40], ind),
                    "%s.dump follows the dependency links recursively (`%s`) with no depth limit: with DUMP_SCHEDULER_STATE / the pre-error dump on, "
                    "a deep chain of waiting tasks overflows the (C) stack - a computation that succeeds with the option off crashes with it on"
                    % (cls.name, q.src(c)[:40]), cfg.fmt_path(p) if isinstance(p, list) and p and not isinstance(p[0], str) else None)
    R.require_min(rule, 1)


# Non-boolean options with a documented special value that is not a number ("In frames, None means infinity" next to both
# declarations, _debug.py and debug.py; confirmed by reading).  option -> the special value's test kind.
SENTINEL_OPTIONS = {"STACK_DUMP_LIMIT": "isnone"}


def sentinel_option_values(R, ro, rule):
    """A numeric option whose documented special value is None is read inside option-guarded diagnostics (dump_stack under
    DUMP_STACK): arithmetic or an ordering comparison on the value read is reached only on the not-None edge of an `is None` test of
    it.  Otherwise a documented setting raises TypeError inside flush()/the scheduler - only with the dump option on."""
    n = 0
    for mname, m in sorted(R.repo.modules.items()):
        for f in m.all_functions.values():
            reads = [x for x in q.scope_nodes(f.node) if isinstance(x, ast.Attribute) and x.attr in SENTINEL_OPTIONS
                     and isinstance(x.ctx, ast.Load) and q.dotted(x.value).split(".")[-1] in ("options", "_debug_options")]
            if not reads:
                continue
            cfg = cfg_of(f)
            for rd in reads:
                st = q.enclosing_stmt(rd)
                names = []
                if isinstance(st, ast.Assign) and st.value is rd and len(st.targets) == 1 and isinstance(st.targets[0], ast.Name):
                    names = [st.targets[0].id]
                else:
                    # used in place: the read itself must not be an arithmetic operand
                    par = getattr(rd, "_parent", None)
                    bad = isinstance(par, (ast.BinOp, ast.UnaryOp, ast.AugAssign)) or (isinstance(par, ast.Compare) and any(
                        isinstance(o, (ast.Lt, ast.LtE, ast.Gt, ast.GtE)) for o in par.ops))
                    n += 1
                    R.check(not bad, rule, "%s:%s:in-place" % (f.qualname, rd.attr), R.site(f, rd),
                            "options.%s is not computed with in place" % rd.attr,
                            "%s computes with options.%s directly (`%s`): the documented value None raises TypeError only when the dump option is on"
                            % (f.qualname, rd.attr, q.src(par)[:50]))
                    continue
                v = names[0]

                def arith(e, v=v):
                    for x in ast.walk(e):
                        ops = []
                        if isinstance(x, ast.BinOp):
                            ops = [x.left, x.right]
                        elif isinstance(x, ast.UnaryOp) and not isinstance(x.op, ast.Not):
                            ops = [x.operand]
                        elif isinstance(x, ast.Compare) and any(isinstance(o, (ast.Lt, ast.LtE, ast.Gt, ast.GtE)) for o in x.ops):
                            ops = [x.left] + list(x.comparators)
                        elif isinstance(x, ast.AugAssign):
                            ops = [x.target, x.value]
                        elif isinstance(x, ast.Call) and q.call_name(x) in ("range", "int", "abs", "min", "max"):
                            ops = list(x.args)
                        if any(isinstance(o, ast.Name) and o.id == v and not in_tested_arm(o) for o in ops):
                            return True
                    return False

                def in_tested_arm(o, v=v):
                    # `None if v is None else v + skip`: the conditional expression is the test
                    for a in q.ancestors(o):
                        if isinstance(a, ast.IfExp):
                            k, s_, pos = q.atom_test(a.test)
                            if k == "isnone" and s_ == v:
                                arm = a.orelse if pos else a.body
                                if any(x is o for x in ast.walk(arm)):
                                    return True
                    return False
                targets = [nd for nd in cfg.nodes if nd.kind in ("stmt", "test", "for") and any(arith(e) for e in kit.node_exprs(nd))]
                src_nodes = [nd for nd in cfg.nodes if nd.kind == "stmt" and nd.ast is st]

                def not_none(x, v=v):
                    if x.kind != "test":
                        return None
                    k, s_, pos = q.atom_test(x.ast)
                    if k == "isnone" and s_ == v:
                        return "F" if pos else "T"
                    return None
                n += 1
                p = kit.path_avoiding_guard(cfg, targets, not_none, N, sources=src_nodes, dead_ok=True) if targets and src_nodes else None
                R.check(p is None, rule, "%s:%s" % (f.qualname, rd.attr), R.site(f, rd),
                        "the value of options.%s (`%s`) is computed with only where it was tested not to be None (%d arithmetic uses)" % (rd.attr, v, len(targets)),
                        "%s reads options.%s into `%s` and computes with it without the None test: the documented setting None (\"means infinity\") "
                        "raises TypeError inside the flush / scheduler step - only with the dump option on" % (f.qualname, rd.attr, v),
                        cfg.fmt_path(p) if p else None)
    R.require_min(rule, 1)


def perf_record_ready(R, ro, rule):
    """dump_perf_stats() files the task's perf_stats record whenever the scheduler's profiling arm runs; the record is filled by
    collect_perf_stats() under a test of the same option made elsewhere (at completion).  The two tests are separate reads of a
    process-wide option, so the record must be usable whichever way they come out: every value the field is given is a dict."""
    at = ro.AsyncTask
    dps = at.methods.get("dump_perf_stats")
    R.need(dps is not None, "anchor vanished: AsyncTask.dump_perf_stats")
    subs = [n for n in q.scope_nodes(dps.node) if isinstance(n, ast.Subscript) and q.src(n.value).startswith("self.") and isinstance(n.ctx, ast.Store)]
    fields = sorted(set(q.src(n.value)[5:] for n in subs))
    if not fields:
        R.ok(rule, R.site(dps), "dump_perf_stats does not write into a record held in a field")
        return
    for fld in fields:
        for m in at.methods.values():
            for n in q.scope_nodes(m.node):
                if isinstance(n, ast.Assign) and any(q.src(t) == "self." + fld for t in n.targets):
                    v = n.value
                    def is_dict(e):
                        return isinstance(e, (ast.Dict, ast.DictComp)) or (isinstance(e, ast.Call) and q.call_name(e) in ("dict", "collections.OrderedDict", "OrderedDict"))
                    okv = is_dict(v)
                    if not okv and isinstance(v, ast.Name):
                        # a record built in a local first
                        lv = common.assigned_values(m.node, v.id)
                        okv = bool(lv) and all(k_ == "expr" and is_dict(e_) for k_, e_ in lv)
                    R.check(okv, rule, "%s:%s" % (m.qualname, fld), R.site(m, n),
                            "self.%s is given a dict in %s" % (fld, m.name),
                            "%s sets self.%s = %s, but dump_perf_stats() stores into it whenever the scheduler's profiling test is true; that test and the one "
                            "that fills the record are separate reads of the option (`is True` vs truthiness; the option switched during the task's last "
                            "step): TypeError escapes from the scheduler only with profiling on" % (m.qualname, fld, q.src(v)[:30]))
    R.require_min(rule, 1)


def run(R):
    R.extra["explanation"] = EXPLANATION
    ro = Roles(R)
    repo = R.repo
    opts = bool_options(R)
    R.need(len(opts) >= 18, "fewer boolean debug options than confirmed by hand (%d < 18)" % len(opts))
    R.units["boolean_options"] = sorted(opts)
    n_guards = 0
    for mname, m in sorted(repo.modules.items()):
        if mname in ("debug", "_debug", "__init__"):
            continue
        aliases = option_aliases(R, m)
        for f in m.all_functions.values():
            _LOCAL_ALIASES.clear()
            _LOCAL_ALIASES.update(local_option_aliases(f.node, aliases, opts))
            er = Eraser(R, f, aliases, opts)
            for node in q.scope_nodes(f.node):
                if not isinstance(node, ast.If):
                    continue
                ot = option_test(node.test, aliases, opts)
                if ot is None:
                    # an option read hidden in an unrecognised condition form
                    reads = [x for x in ast.walk(node.test) if isinstance(x, ast.Attribute) and q.dotted(x.value) in aliases and x.attr in opts]
                    if reads:
                        raise AnalysisError("idiom: unrecognised option test `%s` in %s" % (q.src(node.test), f.qualname))
                    continue
                name, pol, extra = ot
                n_guards += 1
                site = R.site(f, node)
                key = "%s:%s:%s" % (f.qualname, name, q.stmt_key(node.test))
                if name in SEMANTIC_OPTIONS:
                    semantic_option(R, ro, f, node, name, pol, site, key)
                    continue
                er.problems = []
                on, off = (node.body, node.orelse) if pol else (node.orelse, node.body)
                # what runs only with the option on reads asynq's bookkeeping attributes of a foreign object (an exception: _task,
                # _traceback, _type_) only where the object is known to carry them: stamping is skipped for exceptions that refuse
                # attributes, and the read would raise AttributeError - with the option on only
                for st_ in on:
                    for x in ast.walk(st_):
                        if isinstance(x, ast.Attribute) and isinstance(x.ctx, ast.Load) and isinstance(x.value, ast.Name) and x.value.id != "self" \
                                and x.attr in ("_task", "_traceback", "_type_"):
                            hier_ = ExcHierarchy(R.repo)
                            prot = any(kit.handler_covers(h, "Exception", hier_) and not kit.handler_reraises(h) for t in kit.enclosing_try_handlers(x) for h in t.handlers)
                            if not prot:
                                cfg_ = cfg_of(f)
                                stx = q.enclosing_stmt(x)
                                nodes_x = [y for y in cfg_.nodes if y.stmt is stx]

                                def carries(nd, x=x):
                                    if nd.kind != "test":
                                        return None
                                    e_, pos_ = nd.ast, True
                                    while isinstance(e_, ast.UnaryOp) and isinstance(e_.op, ast.Not):
                                        e_, pos_ = e_.operand, not pos_
                                    if isinstance(e_, ast.Call) and q.call_name(e_) == "hasattr" and len(e_.args) == 2 and q.src(e_.args[0]) == x.value.id \
                                            and isinstance(e_.args[1], ast.Constant) and e_.args[1].value == x.attr:
                                        return "T" if pos_ else "F"
                                    return None
                                prot = bool(nodes_x) and kit.path_avoiding_guard(cfg_, nodes_x, carries, N, dead_ok=True) is None and bool(kit.guard_edges_exist(cfg_, carries))
                            R.check(prot, "C20.DIAG-SAFE", "%s:%s:reads:%s.%s" % (f.qualname, name, x.value.id, x.attr), R.site(f, x),
                                    "`%s` under %s is read from an object known to carry it" % (q.src(x), name),
                                    "with %s on, %s reads `%s` of an object that need not carry it (an exception that refused asynq's bookkeeping attributes "
                                    "has none): AttributeError escapes where, with the option off, the error is delivered normally" % (name, f.qualname, q.src(x)))
                a, b = er.erase(on), er.erase(off)
                if extra:
                    okx = all(er.pure(x) for x in extra)
                    ok = not a and not b and okx
                    why = "with a residual condition, behavioural statements remain under the option" if (a or b) else "the residual condition has side effects"
                else:
                    ok = dump(a) == dump(b)
                    why = "with the option on the behavioural statements are [%s], with it off [%s]" % (
                        "; ".join(q.stmt_key(x, 50) for x in a) or "nothing", "; ".join(q.stmt_key(x, 50) for x in b) or "nothing")
                ok = ok and not er.problems
                if er.problems:
                    why = "; ".join(sorted(set(er.problems)))
                R.check(ok, "C20.ERASE", key, site,
                        "both arms of `%s` reduce to the same behavioural statements once diagnostic-only statements are erased" % q.src(node.test)[:60],
                        "option %s changes behaviour in %s: %s" % (name, f.qualname, why))
            # a local that exists only when an option is on is used only where that same test defined it: two separate tests of
            # the option (definition under the first, use under the second, a call in between) disagree when the option is
            # switched while the call runs - UnboundLocalError with profiling turned on mid-request
            opt_ifs = [nd for nd in q.scope_nodes(f.node) if isinstance(nd, ast.If) and option_test(nd.test, aliases, opts) is not None]
            if opt_ifs:
                fcfg_ = cfg_of(f)
                inside = set()
                for nd in opt_ifs:
                    for st in nd.body + nd.orelse:
                        for x in ast.walk(st):
                            inside.add(id(x))
                stores_by = {}
                for x in q.scope_nodes(f.node):
                    if isinstance(x, ast.Name) and isinstance(x.ctx, ast.Store):
                        stores_by.setdefault(x.id, []).append(x)
                params = set(q.param_names(f.node))
                for nm, sts in sorted(stores_by.items()):
                    if nm in params or not all(id(x) in inside for x in sts):
                        continue
                    def _stores(n_):
                        a_ = n_.ast
                        if a_ is None:
                            return False
                        if isinstance(a_, (ast.For, ast.AsyncFor)):
                            return any(isinstance(y, ast.Name) and y.id == nm for y in ast.walk(a_.target))
                        if isinstance(a_, ast.ExceptHandler):
                            return a_.name == nm
                        if isinstance(a_, (ast.With, ast.AsyncWith)):
                            return any(it.optional_vars is not None and any(isinstance(y, ast.Name) and y.id == nm for y in ast.walk(it.optional_vars)) for it in a_.items)
                        if isinstance(a_, (ast.Assign, ast.AugAssign, ast.AnnAssign)):
                            return nm in q.names_stored(a_)
                        return False
                    def_nodes = [n_ for n_ in fcfg_.nodes if _stores(n_)]
                    use_nodes = [n_ for n_ in fcfg_.nodes if n_.kind in ("stmt", "test") and n_ not in def_nodes and n_.ast is not None
                                 and not isinstance(n_.ast, (ast.FunctionDef, ast.AsyncFunctionDef, ast.ClassDef, ast.If, ast.While, ast.For, ast.Try, ast.With))
                                 and any(isinstance(y, ast.Name) and y.id == nm and isinstance(y.ctx, ast.Load) for y in ast.walk(n_.ast))]
                    for u in use_nodes:
                        # (tests of one local that holds the option's value agree with each other: path-sensitive in those locals)
                        pth = fcfg_.find_path_flags([fcfg_.entry], [u], set(_LOCAL_ALIASES), N, cut_nodes=def_nodes)
                        R.check(pth is None, "C20.ERASE", "%s:local:%s:%s" % (f.qualname, nm, q.stmt_key(u.ast, 30)), R.site(f, u.ast),
                                "the option-only local `%s` is used only below its definition, under the same test" % nm,
                                "the local `%s` is defined only under a debug option but used under a separate test of it: if the option is switched on "
                                "while the statements in between run (they call into tasks), the use raises UnboundLocalError" % nm,
                                fcfg_.fmt_path(pth) if pth else None)
            # option reads outside `if` tests (conditional expressions, while tests, assignments)
            for node in q.scope_nodes(f.node):
                if isinstance(node, ast.Attribute) and isinstance(node.ctx, ast.Load) and q.dotted(node.value) in aliases and node.attr in opts:
                    par = getattr(node, "_parent", None)
                    ok_ctx = False
                    cur = node
                    for anc in q.ancestors(node):
                        if isinstance(anc, ast.If) and any(cur is x for x in ast.walk(anc.test)):
                            ok_ctx = True
                            break
                        if isinstance(anc, ast.IfExp) and any(cur is x for x in ast.walk(anc.test)):
                            # the test of a conditional expression inside a statement that is diagnostic as a whole
                            st0 = q.enclosing_stmt(anc)
                            if Eraser(R, f, aliases, opts).is_diag_stmt(st0):
                                ok_ctx = True
                                break
                        if isinstance(anc, ast.stmt):
                            break
                    st_ = q.enclosing_stmt(node)
                    if isinstance(st_, ast.Assign) and st_.value is node and len(st_.targets) == 1 and isinstance(st_.targets[0], ast.Name) and st_.targets[0].id in _LOCAL_ALIASES:
                        # the local may only be used as an if-test
                        nm = st_.targets[0].id
                        uses = [x for x in q.scope_nodes(f.node) if isinstance(x, ast.Name) and x.id == nm and isinstance(x.ctx, ast.Load)]
                        def in_if_test(x):
                            cur = x
                            for anc in q.ancestors(x):
                                if isinstance(anc, ast.If) and any(cur is y for y in ast.walk(anc.test)):
                                    return True
                                if isinstance(anc, ast.stmt):
                                    return False
                            return False
                        ok_ctx = all(in_if_test(x) for x in uses)
                    if not ok_ctx:
                        R.violation("C20.ERASE", "%s:%s:non-if" % (f.qualname, node.attr), R.site(f, node),
                                    "option %s is read outside an `if` test (%s): its value flows into the computation" % (node.attr, q.stmt_key(q.enclosing_stmt(node), 60)))
    common.future_truthiness(R, "C20.ERASE")
    # what a diagnostic line interpolates goes through debug.str()/debug.repr() (qcore's safe_str/safe_repr): formatting an arbitrary
    # user object with a bare %s/%r runs its __str__/__repr__, and an exception raised there is delivered to the task as if its
    # yield had failed - only with the option on
    n_fmt = 0
    for f in repo.all_functions():
        if f.module.name in ("debug", "_debug"):
            continue
        px = f.pxd()
        for c in q.calls(f.node):
            if (q.call_name(c) or "") not in ("debug.write",) or not c.args or not (isinstance(c.args[0], ast.BinOp) and isinstance(c.args[0].op, ast.Mod)):
                continue
            ops = c.args[0].right
            for e in (ops.elts if isinstance(ops, ast.Tuple) else [ops]):
                n_fmt += 1
                safe = safe_operand(f, e)
                R.check(safe, "C20.DIAG-PURE", "%s:fmt:%s" % (f.qualname, q.src(e)[:30]), R.site(f, c),
                        "`%s` is interpolated safely" % q.src(e)[:40],
                        "the diagnostic line in %s interpolates `%s` directly: an object whose __str__/__repr__ raises makes the computation fail only when "
                        "the dump option is on (debug.str()/debug.repr() contain such failures)" % (f.qualname, q.src(e)[:40]))
    R.need(n_fmt >= 20, "fewer interpolated diagnostic operands than confirmed by hand (%d < 20)" % n_fmt)
    R.units["option_guards"] = n_guards
    R.need(n_guards >= 28, "fewer option-guarded branches than confirmed by hand (%d < 28)" % n_guards)
    # ---- diagnostic code cannot start a computation (debug.str(x) -> x.__str__)
    from .c18 import diag_closure, diag_purity
    roots, allm = diag_closure(R)
    diag_purity(R, ro, allm, "C20.DIAG-PURE")
    diag_conversions(R, ro, "C20.DIAG-SAFE")
    common.typed_stack_elements(R, ro, "C20.DIAG-SAFE")
    dump_bounded(R, ro, "C20.DUMP-BOUNDED")
    common.dependency_elements_typed(R, ro, "C20.DIAG-SAFE")
    perf_record_ready(R, ro, "C20.PERF-RECORD")
    sentinel_option_values(R, ro, "C20.OPTION-VALUE")
    # diagnostic callees defined in the repository are themselves diagnostic-only
    for mq in ("async_task.AsyncTask.collect_perf_stats", "async_task.AsyncTask.dump_perf_stats", "batching.BatchBase.dump_perf_stats", "async_task.AsyncTask.to_str", "batching.BatchItemBase.to_str"):
        f = repo.fn(mq)
        bad = []
        for recv, attr, node in q.attr_stores(f.node):
            if attr not in DIAG_FIELDS:
                bad.append("%s.%s" % (recv, attr))
        for c in q.calls(f.node):
            nm = q.call_name(c) or ""
            rcv, meth = q.attr_call(c)
            if nm in DIAG_CALLEES or nm in PURE_CALLS or meth in PURE_METHODS or meth in DIAG_METHODS or nm in ("str", "isinstance", "core_inspection.get_function_call_str"):
                continue
            if isinstance(rcv, ast.Name) and meth in ("append", "extend", "add", "update", "insert", "setdefault"):
                # building the record in a local container that was created here
                vals_ = common.assigned_values(f.node, rcv.id)
                if vals_ and all(k_ == "expr" and (isinstance(v_, (ast.List, ast.Dict, ast.Set)) or (isinstance(v_, ast.Call) and q.call_name(v_) in ("list", "dict", "set")
                                                                                              and not v_.args)) for k_, v_ in vals_):
                    continue
            bad.append(q.src(c)[:40])
        R.check(not bad, "C20.DIAG-ONLY", mq, R.site(f), "%s only reads state and writes diagnostic fields" % f.name,
                "the diagnostic helper %s has effects beyond diagnostics: %s" % (mq, ", ".join(bad)))
    # profiling must work on any thread: the profiler's per-thread fields exist on a fresh thread
    from .c16 import holder_role_rules
    holder_role_rules(R, "C20.PROFILER-STATE", only=("profiler",))
    diag_element_attrs(R, ro)
    # a failing diagnostic inside a completion path cannot skip the completion
    comp = ro.AsyncTask.methods.get("_computed")
    esc = common.Escape(R, ro)
    base = [n for n, cc in kit.call_sites(comp, lambda cc: q.attr_call(cc)[1] == "_computed" and (q.dotted(q.attr_call(cc)[0]) or "").endswith("FutureBase"))]
    for n, c in kit.call_sites(comp, lambda c: q.attr_call(c)[1] in DIAG_METHODS):
        e, caps, path = esc.escapes_function(comp, n, "Exception", cut_nodes=base)
        R.check(not e, "C20.PERF-FINALLY", comp.qualname + ":" + q.stmt_key(c), R.site(comp, c),
                "if %s raises, the task's completion is still announced (it sits in a try whose finally notifies)" % q.src(c),
                "if %s raises with the option on, the task is never announced as computed" % q.src(c))
    # ---- KEEP_DEPENDENCIES: entries that are kept must be ignored by everything behavioural
    from .c05 import selection_rules
    selection_rules(R, ro, "C20.KEEP-DEPS.SELECT")
    common.blocked_all(R, ro, "C20.KEEP-DEPS.BLOCKED")
    hm = ro.handle_task_method()
    sf = ro.stack_field()
    pl = [n for n in ast.walk(hm.node) if isinstance(n, ast.For) and any(q.call_name(c) == "self.%s.append" % sf for c in q.calls(n))]
    R.need(len(pl) == 1, "idiom: push loop")
    hcfg = cfg_of(hm)
    lv = pl[0].target.id
    pushes = [n for n, c in kit.call_sites(hm, lambda c: q.call_name(c) == "self.%s.append" % sf)]

    def unc(nd):
        if nd.kind != "test":
            return None
        k, s, pos = q.atom_test(nd.ast)
        if k == "call" and s == "%s.is_computed" % lv:
            return "F" if pos else "T"
        return None
    p = kit.path_avoiding_guard(hcfg, pushes, unc, N)
    R.check(p is None, "C20.KEEP-DEPS.PUSH", hm.qualname, R.site(hm, pl[0]),
            "only uncomputed dependencies are pushed (kept, already computed dependencies are skipped)",
            "with KEEP_DEPENDENCIES the kept, computed dependencies are pushed again", hcfg.fmt_path(p) if p else None)
    # ---- NARROW (quick tier: from the .pxd declarations)
    narrow_quick(R, ro)
    if R.tier == "thorough":
        from ..cyir import narrow_thorough
        narrow_thorough(R, ro)
    R.require_min("C20.ERASE", 26)
    R.require_min("C20.NARROW", 3)


COMPLEX_ASSERTION_SITES = {
    "async_task.AsyncTask.__init__": "the generator argument is produced by the decorators, never by the program",
}


def semantic_option(R, ro, f, node, name, pol, site, key):
    if name == "ENABLE_COMPLEX_ASSERTIONS":
        on = node.body if pol else node.orelse
        off = node.orelse if pol else node.body
        # the confirmed site: the check of the generator object the decorators hand to AsyncTask's constructor - an object no program
        # makes itself.  An assertion about something the program supplies (the argument of result(), the batch an item is created
        # for) fails programs with the option on that run on silently with it off, whatever predicate it uses: it may not be gated
        R.check(f.qualname in COMPLEX_ASSERTION_SITES, "C20.SEMANTIC", key + ":site", site,
                "ENABLE_COMPLEX_ASSERTIONS gates an assertion at a confirmed site (%s)" % COMPLEX_ASSERTION_SITES.get(f.qualname, ""),
                "%s puts an assertion about its caller's input under ENABLE_COMPLEX_ASSERTIONS: with the option on the program fails with AssertionError "
                "there, with it off it runs on (and completes with a different value) - the option changes what the program observes" % f.qualname)
        ok = all(isinstance(s, ast.Assert) for s in on) and not off
        R.check(ok, "C20.SEMANTIC", key, site, "ENABLE_COMPLEX_ASSERTIONS guards only assert statements",
                "ENABLE_COMPLEX_ASSERTIONS guards more than assertions in %s" % f.qualname)
        # ... and only assertions about what KIND of object was handed in (type predicates), which no program using the public API
        # can make fail; an assertion about an object's state (a method call on it) rejects programs that otherwise run, so it
        # must not depend on the option
        TYPE_PREDS = ("isinstance", "issubclass", "callable", "type", "hasattr", "len")
        for s_ in on:
            if not isinstance(s_, ast.Assert):
                continue
            bad = [q.src(c)[:50] for c in q.calls(s_.test)
                   if not ((isinstance(c.func, ast.Name) and c.func.id in TYPE_PREDS) or (q.call_name(c) or "").startswith(("core_inspection.", "inspect.")))]
            R.check(not bad, "C20.SEMANTIC", key + ":kind", site, "the guarded assertion only applies type predicates to its arguments",
                    "the assertion that ENABLE_COMPLEX_ASSERTIONS switches in %s asks about the state of an object (%s): with the option off a program that "
                    "violates it runs on silently, with it on it fails - the option changes behaviour" % (f.qualname, "; ".join(bad)))
        return
    # KEEP_DEPENDENCIES: the guarded statement only drops references that nothing behavioural reads
    on = node.body if pol else node.orelse      # executed when the option is ON
    off = node.orelse if pol else node.body     # executed when it is OFF (the default)
    drops = []
    ok = not on
    for s in off:
        if isinstance(s, ast.Assign) and len(s.targets) == 1 and q.src(s.targets[0]) in ("self._dependencies",) and isinstance(s.value, ast.List) and not s.value.elts:
            drops.append(q.src(s))
        elif isinstance(s, ast.Expr) and isinstance(s.value, ast.Call) and q.src(s.value) in ("self.items.clear()",):
            drops.append(q.src(s))
        else:
            ok = False
    R.check(ok and drops, "C20.SEMANTIC", key, site,
            "KEEP_DEPENDENCIES only decides whether references are dropped (%s); the readers of the kept entries are decided by C20.KEEP-DEPS.*" % ", ".join(drops),
            "KEEP_DEPENDENCIES guards more than dropping references in %s" % f.qualname)
    # ... and drops them only once the step they belong to has gone through: a drop placed in a finally clause / handler also runs
    # when that step failed or was refused (a re-entrant flush answered with BatchingError while the outer flush body is still
    # walking self.items) - the entries still have readers then, and with the option on they are kept
    held = None
    chain = [node] + list(q.ancestors(node))
    for child, a in zip(chain, chain[1:]):
        if isinstance(a, (ast.FunctionDef, ast.AsyncFunctionDef)):
            break
        if isinstance(a, ast.Try) and any(x is child for x in a.finalbody):
            held = "the finally clause of the try at line %d" % a.lineno
        elif isinstance(a, ast.ExceptHandler):
            held = "the handler at line %d" % a.lineno
    R.check(held is None, "C20.SEMANTIC", key + ":after-success", site,
            "the drop runs only when the step before it completed normally (not in a finally clause or handler)",
            "%s drops the references (%s) in %s, so also when the step failed or was refused: with KEEP_DEPENDENCIES off the list is emptied "
            "under code that still walks it (the flush body of a batch whose re-entrant flush was refused never completes the remaining "
            "items), with the option on the same program works" % (f.qualname, ", ".join(drops) or "?", held))


# -------------------------------------------------------------------------------------------
# NARROW
# -------------------------------------------------------------------------------------------

def clock_tainted_names(fi, extra=()):
    """Locals of fi holding clock values (utime()/time.time() readings, their differences/sums)."""
    tainted = set(extra)
    changed = True
    while changed:
        changed = False
        for n in q.scope_nodes(fi.node):
            if isinstance(n, ast.Assign):
                if is_clock(n.value, tainted):
                    for t in n.targets:
                        if isinstance(t, ast.Name) and t.id not in tainted:
                            tainted.add(t.id)
                            changed = True
            if isinstance(n, ast.AugAssign) and isinstance(n.target, ast.Name) and is_clock(n.value, tainted) and n.target.id not in tainted:
                tainted.add(n.target.id)
                changed = True
    return tainted


def is_clock(e, tainted):
    for sub in ast.walk(e):
        if isinstance(sub, ast.Call) and q.call_name(sub) in ("utime", "time.time", "qcore.utime"):
            return True
        if isinstance(sub, ast.Name) and sub.id in tainted:
            return True
        if isinstance(sub, ast.Attribute) and sub.attr in ("_total_time", "total_time", "_last_start_time"):
            return True
    return False


def width_ok(tstr):
    if tstr is None:
        return True, "object"
    if tstr in ("object",) or tstr[0].isupper() or "." in tstr:
        return True, tstr
    if tstr in C_FLOAT_TYPES:
        return True, tstr + " (cannot raise; precision only)"
    bits = C_INT_TYPES.get(tstr)
    if bits is None:
        return True, tstr
    if tstr in ("long long", "unsigned long long"):
        return True, tstr
    return False, "%s (%d bits%s)" % (tstr, bits, "" if bits < 64 else " only on LP64; 32 on LLP64")


def narrow_quick(R, ro):
    repo = R.repo
    res = R.res
    # parameters tainted through call sites: iterate to a fixpoint over the Cython modules
    param_taint = {}
    changed = True
    rounds = 0
    sinks = []
    while changed and rounds < 5:
        changed = False
        rounds += 1
        sinks = []
        for mname in repo.cython_modules:
            m = repo.modules[mname]
            for f in m.all_functions.values():
                tainted = clock_tainted_names(f, param_taint.get(f.qualname, ()))
                for n in q.scope_nodes(f.node):
                    # field stores
                    if isinstance(n, (ast.Assign, ast.AugAssign)):
                        tgts = n.targets if isinstance(n, ast.Assign) else [n.target]
                        for t in tgts:
                            if isinstance(t, ast.Attribute) and is_clock(n.value, tainted):
                                classes = res.expr_class(f, t.value)
                                for c in classes or []:
                                    typ, owner = c.field_type(t.attr)
                                    if typ is not None:
                                        sinks.append((f, n, "field %s.%s" % (owner.name, t.attr), typ, "%s:%d" % (owner.module.pxd_path.split("/")[-1], owner.pxd.fields[t.attr][2]) if t.attr in owner.pxd.fields else ""))
                            if isinstance(t, ast.Name) and is_clock(n.value, tainted):
                                px = f.pxd()
                                if px and t.id in px.locals:
                                    sinks.append((f, n, "local %s of %s" % (t.id, f.name), px.locals[t.id], ""))
                    # typed parameters of cdef/cpdef callees
                    if isinstance(n, ast.Call):
                        for call, tg, kind in [x for x in res.callees(f) if x[0] is n]:
                            if kind != "resolved":
                                continue
                            for t in tg:
                                names = q.param_names(t.node)
                                off = 1 if (t.cls is not None and isinstance(n.func, ast.Attribute) and names and names[0] == "self") else 0
                                for i, a in enumerate(n.args):
                                    if is_clock(a, tainted) and i + off < len(names):
                                        pn = names[i + off]
                                        if pn not in param_taint.setdefault(t.qualname, set()):
                                            param_taint[t.qualname].add(pn)
                                            changed = True
                                        px = t.pxd()
                                        if px is not None:
                                            sinks.append((f, n, "parameter %s of %s" % (pn, t.qualname), px.param_type(pn), "%s:%d" % (t.module.pxd_path.split("/")[-1], px.line)))
    seen = set()
    for f, node, what, typ, where in sinks:
        k = (what, typ)
        if k in seen:
            continue
        seen.add(k)
        ok, desc = width_ok(typ)
        R.check(ok, "C20.NARROW", "%s:%s" % (what, typ), R.site(f, node),
                "clock-derived value stored into %s declared `%s` %s" % (what, desc, where),
                "a clock difference in microseconds (%s) is stored into %s declared `%s` %s: the compiled build raises OverflowError once it passes 2**31 us "
                "(36 minutes) - only with COLLECT_PERF_STATS on" % (q.src(getattr(node, "value", node))[:40], what, desc, where))
    R.units["clock_sinks"] = len(seen)


def diag_element_attrs(R, ro):
    """In the perf-stats helpers, attributes read on the elements of _dependencies / items exist on
    every class the accompanying isinstance filter admits."""
    repo = R.repo
    fam_future = [c for c in repo.all_classes() if c.is_subclass_of(ro.FutureBase)]
    n = 0
    for mq, field, elem_classes in (("async_task.AsyncTask.collect_perf_stats", "self._dependencies", fam_future),
                                    ("batching.BatchBase.dump_perf_stats", "self.items", [c for c in fam_future if c.is_subclass_of(ro.BatchItemBase)])):
        f = repo.fn(mq)
        for comp in [x for x in ast.walk(f.node) if isinstance(x, (ast.ListComp, ast.GeneratorExp))]:
            g = comp.generators[0]
            if q.src(g.iter) != field or not isinstance(g.target, ast.Name):
                continue
            v = g.target.id
            admitted = list(elem_classes)
            for cond in g.ifs:
                k, s_, pos = q.atom_test(cond)
                if k == "isinstance" and s_[0] == v:
                    names = [x.strip().split(".")[-1] for x in s_[1].strip("()").split(",") if x.strip()]
                    sel = [c for c in elem_classes if any(b.name in names for b in c.mro() if hasattr(b, "name"))]
                    admitted = sel if pos else [c for c in elem_classes if c not in sel]
            attrs = set(a for d, a, node in q.attr_loads(comp) if d == v)
            for a in sorted(attrs):
                lacking = [c.name for c in admitted if a not in c.fields() and c.find_method(a) is None]
                n += 1
                R.check(not lacking, "C20.DIAG-ATTR", "%s:%s.%s" % (mq, v, a), R.site(f, comp),
                        "%s.%s exists on every element class the filter admits (%d classes)" % (v, a, len(admitted)),
                        "%s reads %s.%s on elements of %s, but %s do(es) not have it: with COLLECT_PERF_STATS (and kept dependencies) the task fails with AttributeError"
                        % (f.name, v, a, field, ", ".join(lacking)))
    R.need(n >= 2, "idiom: the perf-stats helpers no longer read attributes of their dependencies/items")
